"""Self-test of mc/modstate.py on a synthetic module of the package name
space: containers, re-bound scalars and functools caches are put back."""
import functools
import sys
import types


def run():
    from mc import modstate
    mod = types.ModuleType('treadmill._verif_selftest')
    src = '''
import functools
_MEMO = {}
_LAST = None
NAMES = ['a']

def remember(k, v):
    global _LAST
    _MEMO[k] = v
    _LAST = k
    NAMES.append(k)

@functools.lru_cache(maxsize=None)
def cached(x):
    return x * 2
'''
    exec(compile(src, 'treadmill/_verif_selftest.py', 'exec'), mod.__dict__)
    for obj in (mod.remember, mod.cached.__wrapped__):
        obj.__module__ = mod.__name__
    mod.cached.__module__ = mod.__name__
    sys.modules[mod.__name__] = mod
    try:
        modstate.reset()                 # records the pristine state
        assert not modstate.dirty()
        assert modstate.digest() == ()
        mod.remember('k', 1)
        mod.cached(3)
        assert modstate.dirty()
        assert modstate.digest() != ()
        modstate.reset()
        assert mod._MEMO == {} and mod._LAST is None and mod.NAMES == ['a']
        assert mod.cached.cache_info().currsize == 0
        assert not modstate.dirty() and modstate.digest() == ()
    finally:
        del sys.modules[mod.__name__]
        modstate._TRACKED[:] = [t for t in modstate._TRACKED
                                if t[0] is not mod]
        modstate._CACHES[:] = [c for c in modstate._CACHES
                               if c is not mod.cached]
        modstate._SEEN.discard(mod.__name__)
    return 8
