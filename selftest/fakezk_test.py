"""Pins the fake ZooKeeper against the kazoo semantics treadmill relies on."""
import kazoo.exceptions as kx

from mc import fakezk


def expect(exc, fn, *a, **kw):
    try:
        fn(*a, **kw)
    except exc:
        return
    raise AssertionError('%s not raised by %s%r' % (exc.__name__, fn.__name__, a))


def run():
    now = [1000]
    t = fakezk.Tree(clock_ms=lambda: now[0])
    a, b = t.client(1), t.client(2)
    n = 0
    # create / exists / get / NodeExists / NoNode
    assert a.create('/x', b'1') == '/x'; n += 1
    expect(kx.NodeExistsError, a.create, '/x', b'2'); n += 1
    expect(kx.NoNodeError, a.create, '/no/such', b''); n += 1
    assert a.create('/p/q/r', b'', makepath=True) == '/p/q/r'; n += 1
    assert a.exists('/nope') is None; n += 1
    data, st = a.get('/x')
    assert data == b'1' and st.version == 0 and st.ctime == 1000; n += 1
    expect(kx.NoNodeError, a.get, '/nope'); n += 1
    expect(TypeError, a.create, '/s', 'str-not-bytes'); n += 1
    # set keeps ctime, bumps mtime/version; BadVersion
    now[0] = 2000
    a.set('/x', b'2')
    data, st = a.get('/x')
    assert (data, st.version, st.ctime, st.mtime) == (b'2', 1, 1000, 2000); n += 1
    assert st.last_modified == 2.0 and st.created == 1.0; n += 1
    expect(kx.BadVersionError, a.set, '/x', b'3', version=7); n += 1
    expect(kx.NoNodeError, a.set, '/nope', b''); n += 1
    # sequence nodes: per-parent counter, 10 digits, never reused
    assert a.create('/p/e-', b'', sequence=True) == '/p/e-0000000000'; n += 1
    assert a.create('/p/e-', b'', sequence=True) == '/p/e-0000000001'; n += 1
    a.delete('/p/e-0000000001')
    assert a.create('/p/f#', b'', sequence=True) == '/p/f#0000000002'; n += 1
    # children, NotEmpty, recursive delete
    assert sorted(a.get_children('/p')) == ['e-0000000000', 'f#0000000002', 'q']; n += 1
    expect(kx.NotEmptyError, a.delete, '/p'); n += 1
    expect(kx.NoNodeError, a.delete, '/nope'); n += 1
    assert a.get('/p')[1].children_count == 3; n += 1
    # ephemerals: owner, no children, vanish on expiry, other session may set/delete
    b.create('/eph', b'e', ephemeral=True)
    assert a.get('/eph')[1].owner_session_id == 2; n += 1
    assert a.get('/x')[1].owner_session_id is None; n += 1
    expect(kx.NoChildrenForEphemeralsError, a.create, '/eph/c', b''); n += 1
    a.set('/eph', b'by-a')
    assert a.get('/eph')[1].owner_session_id == 2; n += 1
    fired = []
    a.exists('/eph', watch=fired.append)
    t.expire(2)
    assert a.exists('/eph') is None and len(fired) == 1; n += 1
    assert fired[0].type == 'DELETED'; n += 1
    expect(kx.SessionExpiredError, b.get, '/x'); n += 1
    # one-shot watches
    seen = []
    a.get('/x', watch=seen.append)
    a.set('/x', b'4'); a.set('/x', b'5')
    assert len(seen) == 1 and seen[0].type == 'CHANGED'; n += 1
    kids = []
    a.get_children('/p', watch=kids.append)
    a.create('/p/new', b''); a.create('/p/new2', b'')
    assert len(kids) == 1 and kids[0].type == 'CHILD'; n += 1
    # DataWatch recipe: immediate call, re-armed, stops on False, sees deletion
    calls = []

    @a.DataWatch('/x')
    def _w(data, stat, event):
        calls.append((data, event.type if event else None))
        return len(calls) < 3
    a.set('/x', b'6'); a.delete('/x'); a.create('/x', b'7')
    assert calls == [(b'5', None), (b'6', 'CHANGED'), (None, 'DELETED')], calls; n += 1
    # ChildrenWatch recipe
    cw = []

    @a.ChildrenWatch('/p')
    def _c(children):
        cw.append(sorted(children))
    a.create('/p/zz', b'')
    assert len(cw) == 2 and 'zz' in cw[1] and 'zz' not in cw[0]; n += 1
    # ensure_path / set_acls / clone independence
    a.ensure_path('/a/b/c'); a.ensure_path('/a/b/c')
    expect(kx.NoNodeError, a.set_acls, '/nope', []); n += 1
    t2 = t.clone()
    a.create('/only-in-t', b'')
    assert t2.find('/only-in-t') is None and t2.find('/a/b/c') is not None; n += 1
    assert t2.find('/p').seq == t.find('/p').seq; n += 1
    # deferred delivery mode
    t.auto_deliver = False
    dl = []
    a.get('/a', watch=dl.append)
    a.set('/a', b'z')
    assert dl == [] and len(t.pending) == 1; n += 1
    t.deliver(0)
    assert len(dl) == 1; n += 1
    return n
