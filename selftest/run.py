"""Framework self-test run by setup_cmd."""
import sys


def main():
    import numpy, kazoo, greenlet  # noqa: F401
    from mc.worlds import cellworld  # noqa: F401
    from treadmill import scheduler
    assert scheduler.DIMENSION_COUNT == 3
    print('selftest ok')
    return 0


if __name__ == '__main__':
    sys.exit(main())
