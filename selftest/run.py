"""Framework self-test run by setup_cmd."""
import sys


def main():
    import numpy, kazoo, greenlet  # noqa: F401
    from mc.worlds import cellworld  # noqa: F401
    from treadmill import scheduler
    assert scheduler.DIMENSION_COUNT == 3
    from selftest import fakezk_test
    n = fakezk_test.run()
    from selftest import modstate_test
    k = modstate_test.run()
    print('selftest ok (%d fake-ZooKeeper assertions, %d module-state '
          'assertions)' % (n, k))
    return 0


if __name__ == '__main__':
    sys.exit(main())
