#!/bin/sh
# usage: tools/seed_regress.sh <ID>...   - every kept seed of the given properties against the
# quick check; prints "<seed> detected|MISSED|neutralised|stale-patch".  Output under /tmp.
for ID in "$@"; do
for d in /verif/seeded/${ID}-*/; do
  name=$(basename $d)
  WT=/tmp/wt-regress-$$
  git -C /repo worktree add --detach $WT HEAD >/dev/null 2>&1
  if ! git -C $WT apply $d/patch.diff 2>/dev/null; then
    echo "$name stale-patch"; git -C /repo worktree remove --force $WT; continue
  fi
  res=$(VERIF_REPO=$WT VERIF_OUT_DIR=/tmp/seed-regress-out-$$ /verif/bin/check $ID 2>/dev/null | grep -cE "^VIOLATION")
  if [ "$res" -gt 0 ]; then echo "$name detected ($res)"; git -C /repo worktree remove --force $WT; continue; fi
  DEMO=$(ls $d/demo*.py | head -1); mkdir -p $WT/_seeded/1; cp $DEMO $WT/_seeded/1/
  (cd $WT && PYTHONPATH=$WT/lib/python timeout 300 /venv/bin/python _seeded/1/$(basename $DEMO) >/dev/null 2>&1)
  rc=$?
  git -C /repo worktree remove --force $WT
  if [ $rc = 0 ]; then echo "$name neutralised"; else echo "$name MISSED"; fi
done
done
rm -rf /tmp/seed-regress-out-$$
