#!/venv/bin/python
"""Run the repository's pinned test command and compare the set of passing
tests with /root/.vp/BASELINE.json (stable_pass).  usage: baseline_check.py [repo]"""
import json, subprocess, sys, tempfile, os
import xml.etree.ElementTree as ET
repo = sys.argv[1] if len(sys.argv) > 1 else '/repo'
base = json.load(open('/root/.vp/BASELINE.json'))
fd, xml = tempfile.mkstemp(suffix='.xml'); os.close(fd)
env = dict(os.environ); env.pop('TREADMILL_VERIF', None); env.pop('PYTHONPATH', None)
subprocess.call(['/venv/bin/python', '-m', 'pytest', '-ra', '-q', '-p', 'no:cacheprovider',
                 '--timeout=900', '--continue-on-collection-errors', '--junitxml=' + xml],
                cwd=repo, env=env, stdout=subprocess.DEVNULL, stderr=subprocess.DEVNULL)
passed = set()
for tc in ET.parse(xml).getroot().iter('testcase'):
    if not any(ch.tag in ('failure', 'error', 'skipped') for ch in tc):
        passed.add('%s::%s' % (tc.get('classname'), tc.get('name')))
os.unlink(xml)
want = set(base['stable_pass'])
missing = sorted(want - passed)
print('baseline stable_pass=%d, passed now=%d, missing=%d' % (len(want), len(passed), len(missing)))
for m in missing[:20]:
    print('  MISSING', m)
sys.exit(1 if missing else 0)
