#!/bin/sh
# usage: tools/seed_confirm.sh <srcdir with patch.diff demo.py meta.json> <name>
# Confirms a seeded change in a scratch worktree (demo passes without, fails
# with; the repository's pinned test-suite still passes) and keeps it under
# /verif/seeded/<name>/.
SRC=$1; NAME=$2
WT=/tmp/wt-confirm-$$
git -C /repo worktree add --detach "$WT" HEAD >/dev/null 2>&1 || exit 2
DEMO=$(ls "$SRC"/demo*.py | head -1)
# demos may locate the tree relative to their own path: run a copy inside the worktree
mkdir -p "$WT/_seeded/1" && cp "$DEMO" "$WT/_seeded/1/"
WDEMO="$WT/_seeded/1/$(basename "$DEMO")"
run_demo() { (cd "$WT" && PYTHONPATH=$WT/lib/python timeout 300 /venv/bin/python "$WDEMO" >/tmp/demo-out-$$ 2>&1; echo $?); }
CLEAN=$(run_demo)
if ! git -C "$WT" apply "$SRC/patch.diff"; then echo "$NAME: PATCH DOES NOT APPLY"; git -C /repo worktree remove --force "$WT"; exit 1; fi
WITH=$(run_demo)
BASE=$(/verif/tools/baseline_check.py "$WT" | head -1)
git -C /repo worktree remove --force "$WT"
echo "$NAME: demo clean=$CLEAN with_change=$WITH ; $BASE"
case "$BASE" in *"missing=0"*) ok=1;; *) ok=0;; esac
if [ "$CLEAN" = 0 ] && [ "$WITH" != 0 ] && [ $ok = 1 ]; then
  mkdir -p /verif/seeded/$NAME
  cp "$SRC/patch.diff" "$DEMO" /verif/seeded/$NAME/
  /venv/bin/python - "$SRC/meta.json" /verif/seeded/$NAME/meta.json "$CLEAN" "$WITH" "$BASE" <<'PY'
import json, sys
src, dst, clean, withc, base = sys.argv[1:6]
try:
    meta = json.load(open(src))
except Exception:
    meta = {}
meta['confirmed'] = {'demo_exit_clean_tree': int(clean), 'demo_exit_with_change': int(withc),
                     'repo_tests': base, 'how': 'tools/seed_confirm.sh in a scratch worktree of /repo HEAD'}
json.dump(meta, open(dst, 'w'), indent=1)
PY
  echo "$NAME: KEPT"
else
  echo "$NAME: REJECTED"
fi
rm -f /tmp/demo-out-$$
