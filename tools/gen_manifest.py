#!/venv/bin/python
"""Regenerate /verif/MANIFEST.json from the table below."""
import json

BASELINE = ('cd /repo && /venv/bin/python -m pytest -ra -q -p no:cacheprovider '
            '--timeout=900 --continue-on-collection-errors')

# id -> (engine, design section, level text, level note, technique)
NOTE_A = ('World A glue mirrors Loader; virtual clock; canonical key argument '
          'in DESIGN 2.2; small-scope bounds (3-4 servers, <=5 instances, '
          'menus in the evidence).')
NOTE_B = ('Module-level state of the package is reset before every history '
          '(mc/modstate.py). Fake ZooKeeper (mc/fakezk.py, semantics pinned by selftest) is the '
          'trusted base; everything above the kazoo client API is real code; '
          'virtual clock; 3 servers, <=4 instances.')
TECH_BOUNDX = ('bounded-exhaustive input enumeration of the implementation '
               'against a reference model (boundx, 16 forked workers; no '
               'sampling, no solver)')
TECH_STATEX = ('explicit-state model checking of the implementation (BFS over '
               'event histories, replay-built states, canonical dedup, '
               'recomputed-from-leaves oracle)')


def _s(text, ref, note=NOTE_A, tech=TECH_STATEX, engine='statex'):
    return (engine, ref, text, note, tech)


CHECKS = {
    'C01': _s('Explicit-state BFS over histories of cell events (real Cell, '
              'Server, Allocation objects); after every cycle sums are '
              'recomputed from the leaves and both views compared. Bounded: '
              'depth/alphabet in evidence.', '5/C01'),
    'C02': _s('BFS over histories; at every distinct quiescent state each '
              'probe template is submitted and the real cycle is compared '
              'with an independent leaf-scan feasibility oracle (topology, '
              'traits/partitions, affinity limits and lease/reboot-date '
              'configurations; probes of an existing affinity with limits on '
              'other levels); after every cycle every rack / pod / cell must '
              'cover labels, traits and free capacity of every up server '
              'below it, also on the real master (server record changes, '
              'presence, cell events), where a newly submitted instance is '
              'also judged from ZooKeeper records alone (no empty fitting '
              'server while it stays pending).', '5/C02'),
    'C03': _s('BFS over histories incl. partition re-assignment, trait/label '
              'changes, freeze/down, leases under a virtual clock; every new '
              'placement is checked against the eligibility predicate and '
              'every placed instance against its partition/traits; on the '
              'real master the allocation, partition and traits are resolved '
              'from the stored /allocations and /servers records (incl. trait '
              'codes learned from server records only).', '5/C03'),
    'C04': _s('BFS over pressure histories on a 2x2 cell with limits on every '
              'level subset; per node true affinity counts are recomputed and '
              'compared with limits and with the kept counters; also servers '
              'moving (with their instances) below another rack, and a '
              'one-rack configuration in which a holder of a used-up limit '
              'is evicted in vain; two evictions on one server in one cycle; '
              'on the real master bucket records with an explicit level, '
              'levels judged from ZooKeeper.', '5/C04'),
    'C05': _s('BFS over histories of arrivals, evictions, failures, '
              'blacklisting and group count changes with up to 2 skipped '
              'cycles (incl. a group shrinking while holders sit on frozen '
              'or down servers); identity invariants recomputed from '
              'Cell.apps; on the real master also with the watches firing '
              'between the two writes of one identity-group API call, and '
              'with the crash-point enumeration of C10 followed by further '
              'arrivals.',
              '5/C05'),
    'C07': _s('BFS over pressure histories; the queue handed to placement is '
              'captured per cycle and every displaced healthy instance must '
              'have a gainer strictly ahead of it (templates include '
              'priority-0 ties, leases, two allocations, reboot buckets, '
              'early lease renewals judged by the stated rule, holders of a '
              'used-up limit evicted in vain).', '5/C07'),
    'C08': _s('BFS over down/up/frozen transitions and clock advances around '
              'the retention timeouts against a reference automaton on '
              'logical seconds; across master restarts the records published '
              'under down-within-retention and frozen servers are compared '
              'before/after start-up on ZooKeeper alone; the master\'s own '
              'watchdog (check_integrity: placed but not running for five '
              'minutes) with node-reported /running records; glob '
              'blacklists.', '5/C08'),
    'C09': _s('BFS over histories of ZooKeeper-level events driving the real '
              'Master/ZkBackend/masterapi on an in-memory ZooKeeper, incl. '
              'restarts (also onto a stray double record) and skipped cycles; '
              'after every init_schedule/'
              'reschedule the whole /placement tree is compared with the '
              'model (existence and content), and so is the reference '
              'placement kept in the data of the /placement node.', '5/C09', note=NOTE_B),
    'C10': _s('For every state of a World-B BFS and every enabled event the '
              'following publication step (reschedule or start-up of a new '
              'master) is cut after each of its k storage writes; no double '
              'record at the cut; a new master on the cut state must start, '
              'pass its integrity check and publish its model; the cut is '
              'also placed inside event handlers, and a master that dies in '
              'the step by its own exception counts as one more cut; single-'
              'and two-partition configurations.', '5/C10',
              note=NOTE_B,
              tech='explicit-state model checking of the implementation x '
                   'exhaustive crash-point enumeration over the storage '
                   'writes of each publication step'),
    'C11': _s('At every state of a World-B BFS a fresh Master runs '
              'load_model() on a copy of the stored tree and is compared '
              'with every record under a healthy server; one-partition, '
              'two-partition (also with a trait learned from server records '
              'only, /traits in another order, a server joining later) and '
              'lease-next-to-reboot configurations; at shallow states every '
              'single ZooKeeper read of the load fails once.',
              '5/C11',
              note=NOTE_B),
    'C06': _s('Bounded-exhaustive sweep of the real Allocation/Cell code: every '
              'forest shape of <=3 (quick) / <=4 (thorough) allocation nodes, '
              'depth <=3, built as Loader.load_allocations builds them, x node '
              'menus (reserved, rank in {0, 50, 100}, rank adjustment, utilisation '
              'cap) x every '
              'population of <=3 / <=4 instances (priority, demand, running/'
              'pending) in every arrival order, as a stated list of complete '
              'product slices; both Allocation.utilization_queue output and '
              'the order/final_rank handed to Cell._find_placements by a real '
              'Cell.schedule() are judged against an integer reference written '
              'from the statement (reservation menus include partially-zero '
              'vectors); a second sweep drives Loader.'
              'load_allocations/load_app/find_assignment; a third, dynamic '
              'slice runs every add/move/remove sequence (depth <=4, 2 '
              'allocations x 2 instances) on the real Cell.add_app/remove_app '
              'and checks exactly-once queue membership after each step; '
              'deep-tree slices (all forests of 4 nodes to depth 4 and of 5 '
              'nodes to depth 5 with reduced menus); a re-prioritisation '
              'slice: every history of depth 4 (quick) / 5 (thorough) over '
              'submit / manifest-priority change / assignment-priority '
              'change / reload / cycle through the real Loader, queue judged '
              'after every event with first-come = original arrival.',
              '5/C06',
              note='virtual clock gives distinct increasing global_order; '
                   'priority-0 = infinite utilisation by definition; boost '
                   'clause one-directional; integer menus; full 36x24 product '
                   'only for <=2 nodes, reduced menus (named in evidence) above; '
                   'rank adjustment may exceed the rank (negative boosted rank)',
              tech=TECH_BOUNDX, engine='boundx'),
    'C12': _s('Bounded-exhaustive sweep of the real EventMgr._synchronize/'
              '_cache + fs.write_safe on a temp root with an in-memory '
              'ZooKeeper: full product of per-slot menus (prior cache file, '
              'listed or not, manifest, placement node) x check_existing, 2 '
              '(quick) / 3 (thorough) slots; every FS step of the write path '
              '(mkstemp, each stream write incl. torn writes, fchmod, close, '
              'replace, unlink) is failed (OSError) and killed (directory '
              'snapshot), each followed by a restart and re-sync; a start-up '
              'slice drives the real EventMgr.run watch registration '
              '(placement_ready order) over cache files left by a previous '
              'run; a two-sync slice: ZooKeeper and the placement list move '
              'on and the SAME agent synchronises again.', '5/C12',
              note='fake ZooKeeper; st_ctime of cache files assigned by the '
                   'harness; process-kill semantics (no power-loss/fsync '
                   'model); rename/unlink atomic; only non-dot names judged',
              tech='bounded-exhaustive input sweep x crash/fault-point '
                   'enumeration of the implementation (FS fault injection at '
                   'the os/tempfile/io names inside treadmill.fs)',
              engine='boundx+crashx'),
    'C13': _s('Explicit-state BFS over histories of node events applied to the '
              'real AppCfgMgr handlers, MonitorContainerCleanup.execute and '
              'Cleanup.invoke on a real per-world temp directory: cache file '
              'put/deleted/replaced with the dirwatch notification delivered '
              'at once or later from a FIFO, .ready flips, manager restart, '
              'node boot, manager killed after its k-th link operation, '
              'container exit/abort/oom, lagging tombstones, completion of '
              'each cleanup link in two steps (finish(); unlink) with any '
              'event in between, or failing inside finish(); cache-file '
              'inodes re-used between generations in two configurations; link invariants after every handler call '
              'and crash point, reconciliation clauses after every '
              '_synchronize, and a quiescence clause (queue drained, manager '
              'active: running links match the current cache generation, '
              'unfinished uncached containers are linked); finished '
              'generations are remembered by the harness, not read from '
              'disk. 2 instances x 2 generations, <=2 deviations.',
              '5/C13',
              note='configure.configure replaced by a stand-in (reads the '
                   'event file, real gen_uniqueid, creates apps/<unique>/data); '
                   'runtime.finish replaced by its final rmtree; control_svscan '
                   'no-op; os.stat of cache files virtualised; no threads or '
                   'inotify (the harness keeps the FIFO)',
              tech='explicit-state model checking of the implementation (BFS '
                   'over event histories on a real temp directory, canonical '
                   'dedup validated by a bisimulation spot-check, crash-point '
                   'enumeration inside handlers)'),
    'C14': _s('Explicit-state BFS over allocate/release/collect/owner-appears/'
              'disappears/filtered-unlink_all sequences of 2 (quick) / 3 '
              '(thorough) owners (endpoint names that are prefixes of each '
              'other) on the '
              'real VipMgr (/30, /29, and two pools sharing one directory), '
              'RuleMgr, EndpointsMgr and '
              'NetworkResourceService on temp directories against a dict '
              'reference entry->owner; plus exhaustive exploration (system-'
              'call granularity, preemption bounds in evidence) of all '
              'interleavings of two processes on one RuleMgr/EndpointsMgr '
              'directory, each audited syscall by syscall and required to '
              'match some serial order of the reference; owners are container '
              'unique names (two incarnations of one instance among them), '
              'release alphabets include missing caller identities; the '
              'network service also under faults: every external call '
              '(netdev/iptables) of create/delete fails once as a counted '
              'deviation, followed by retry / delete / restart.',
              '5/C14',
              note='netdev/iptables/subproc recorders; owner exists iff its '
                   'path exists; GC/unlink_all = sequences of atomic per-entry '
                   'steps; a refusal is judged only for callers that exist; '
                   '<=3 owners, <=3 entries',
              tech='explicit-state model checking of the implementation + '
                   'stateless interleaving exploration with iterative '
                   'preemption bounding; reference-model and linearizability '
                   'oracles', engine='statex+ilv'),
    'C15': _s('Bounded-exhaustive sweep of the real encoders/decoders over '
              'complete products of finite menus (rule-file names; unique '
              'names and a lattice of 13-char ids; every trace event class '
              'through real publish/post and TraceLoop parsing; dict/list '
              'ZooKeeper payloads to depth 3; Application/CellAllocation/'
              'Partition LDAP entries incl. all 2^19 field subsets, keyed '
              'lists and the create/update/get path on an in-memory entry '
              'store; the identity kept only in the DN: nested tenants of '
              'depth 1-3, reversal/prefix names, through the real dn() -> '
              'create -> get/list/from_entry(entry, dn) path with exact '
              'Tenant.reservations/Allocation.reservations/Cell.partitions '
              'listings); round trip, idempotence and sweep-wide '
              'injectivity.',
              '5/C15',
              note='"," and "/" reserved by the node-name format; None == "" '
                   'is the only trace normalisation; unique ids: a stated '
                   'lattice of seeds, not the full 77-bit range; in-memory '
                   'store stands in for ldap3 and returns optioned subtypes '
                   'when the plain attribute is requested',
              tech=TECH_BOUNDX + ' with sweep-wide collision detection',
              engine='boundx'),
    'C16': _s('Start = the real _run.run (resource requests to exec_pid1), '
              'finish = the real _finish.finish, fakes at module seams only. '
              'Bounded-exhaustive sweep over manifests (endpoint lists x '
              'ports x infra, ephemeral tcp/udp 0-2, passthrough menus, vring, '
              'shared_network, shared_ip, all four environments (pool oracle '
              'per environment), 3 enumerated port '
              'orders): real allocate_network_ports, _unshare_network, then '
              '_cleanup_network (+_cleanup_ephemeral_ports), finish again, on '
              'a host holding a foreign container\'s registrations; rules dir, '
              'endpoints dir and ip-sets must equal the pre-start state; plus '
              'saturated BFS over start/finish of two containers; plus '
              'single-fault enumeration of the finish slice (every ipset/'
              'conntrack call, rule/spec unlink and the network-service '
              'delete fails once, finish repeated until it completes, host '
              'must end as before the start); plus single-fault enumeration '
              'of the start (every external step of run() fails once, the '
              'aborted container is flagged and finished).', '5/C16',
              note='service clients, cgroups, image, fs_linux, unshare, '
                   'newnet, apphook, subproc faked at module seams; '
                   'ipset CLI interpreted on Python sets; fake socket; no '
                   'firewall plugin installed',
              tech='bounded-exhaustive input enumeration against a before/'
                   'after snapshot oracle + explicit-state BFS over container '
                   'start/finish histories', engine='boundx+statex'),
    'C17': _s('Exhaustive exploration of the interleavings of the real '
              'PresenceResourceService of 2 nodes (3 in one configuration), one '
              'instance with containers g1/g3 on host A, g2 on B, g4 on C '
              '(running, endpoint and identity node each) on an in-memory '
              'ZooKeeper, every ZooKeeper call a scheduling point, plus '
              'environment deviations (session expiry with re-issue of live '
              'requests in every order, one external deletion, watch '
              'delivery, and faults landing ON the call in flight: session '
              'expiry raising to the caller, connection loss with the call '
              'applied / not applied): stateless DFS with iterative preemption bounding, '
              'and the same DFS cut at canonical states for unbounded '
              'preemptions (bounds per configuration in the evidence); '
              'sequential sweeps of EndpointPresence and _unschedule.',
              '5/C17',
              note='fakezk = ZooKeeper (atomic calls, no ACLs, no connection '
                   'loss without expiry); a node is a single-threaded request '
                   'loop; retries recorded and re-run FIFO; at most one '
                   'external deletion per execution, the check-then-act window '
                   'after it is counted, not reported',
              tech='stateless interleaving exploration of the implementation '
                   '(DFS over scheduler choices with replayed prefixes, '
                   'iterative preemption bounding; visited-state pruning with '
                   'the soundness argument of DESIGN 2.4); ownership monitor '
                   'over the write log + reference registration table',
              engine='ilv'),
    'C18': _s('Bounded-exhaustive sweep of the real trace archiver '
              '(cleanup_trace/cleanup_finished/cleanup_*_history, '
              'cleanup_server_trace, upload_batch/download_batch/cleanup) on '
              'an in-memory ZooKeeper with a virtual clock over all '
              'populations of 2 shards, 2-3 instances, 0-3 events aged around '
              'the expiry, batch sizes, existing snapshots; every run is '
              'killed before each ZooKeeper write in turn, and each write in '
              'turn is made to fail with ConnectionLoss (request lost / applied '
              'but reply lost), then re-run; every instance independently '
              'scheduled x has an exit record; a size menu (45 KB to > 16 MiB '
              'snapshots, one compressing to more than 1 MiB) for the real '
              'upload_batch -> download_batch round '
              'trip; a second cleanup cycle with the '
              'same client follows every schedule change (incl. one instance '
              'leaving while another arrives); '
              'snapshots are inflated and opened with sqlite3.', '5/C18',
              note='fake ZooKeeper; atomic ordered writes; one archiver '
                   'session; get_children order is a menu; payloads of trace '
                   'events not compared (upload stores data=None by design)',
              tech='bounded-exhaustive input sweep x crash-point enumeration '
                   'at every ZooKeeper write of the implementation',
              engine='boundx+crashx'),
    'C19': _s('Bounded-exhaustive sweep of the real reservation.create/update '
              '(undecorated) -> _check_capacity/_calc_free/_calc_free_traits/'
              '_check_limit against a fake admin store: partition records with '
              '0-2 trait limits, sets of <=2/3 existing reservations incl. '
              'distractors, replaced or new id, request traits, request sizes '
              'at/over/under every boundary in K/M/G spellings; plus every '
              'history of <=3 create/update calls; plus a unit-spelling sweep '
              '(stored records in every documented spelling: binary / decimal '
              'suffixes, plain bytes, case, padding); independent sum oracle '
              'with its own conversion written from the docstring.',
              '5/C19',
              note='fake store shaped like LDAP from_entry with an and-filter '
                   'list; __wrapped__ with jsonschema-validated inputs; update '
                   'judged on the merged record',
              tech=TECH_BOUNDX, engine='boundx'),
    'C20': _s('Explicit-state BFS over histories of the real appmonitor.'
              'reevaluate and the real _run_sync watch callbacks '
              '(_scheduled_watch, _appmonitors_watch, _monitor_data_watch '
              'under the real ExistingDataWatch) on a tiny in-memory '
              'ZooKeeper client, under the virtual clock with a fake REST '
              'client; children of /scheduled delivered sorted/reversed/'
              'interleaved '
              '(answers ok/NotFound/BadRequest/Validation/other; clock '
              'advances; instances die/appear; count changed; monitor deleted/'
              're-created; restart) for all single monitors (count 0-3 x '
              'policy) and 6 pairs, with drain and convergence continuations '
              'from every state; monitors are configured through the real '
              'api.app_monitor -> masterapi path; a configuration with '
              'several evaluations inside a suspension; reference token '
              'bucket.', '5/C20',
              note='_run_sync entered with once=True and a capturing '
                   'reevaluate stub for the start-up call only; scheduled '
                   'view up to date at every evaluation; fake REST/zk/alert; virtual clock '
                   'whole seconds', engine='statex'),
}

NOT_YET = 'check not built yet in this revision (planned, see DESIGN.md section 5)'


def main():
    props = [json.loads(l)['id'] for l in open('/verif/properties.jsonl')]
    checks = []
    for pid in props:
        if pid not in CHECKS:
            continue
        engine, ref, text, note, tech = CHECKS[pid]
        checks.append({
            'property_id': pid,
            'quick_cmd': 'bin/check %s --tier quick' % pid,
            'thorough_cmd': 'bin/check %s --tier thorough' % pid,
            'evidence_file': '/verif/evidence/%s.json' % pid,
            'replay_cmd_template': 'bin/check %s --replay {path}' % pid,
            'engine': engine,
            'level_claimed': {'category': 'model_checking', 'text': text,
                              'design_ref': ref},
            'level_note': note,
            'technique': tech,
        })
    manifest = {
        'version': 1,
        'setup_cmd': 'bin/setup',
        'hooks': {
            'guard': 'TREADMILL_VERIF',
            'enable': 'no source hooks: checks import /repo/lib/python from '
                      'the working tree (PYTHONPATH) and instrument from the '
                      'harness side; bin/check exports TREADMILL_VERIF=1',
            'baseline_off_cmd': BASELINE,
            'source_commits': [],
            'add_only': True,
        },
        'engines': [
            {'name': 'statex', 'path': 'mc/statex.py',
             'serves_properties': [p for p in props if p in CHECKS and
                                   'statex' in CHECKS[p][0]],
             'kind_free_text': 'explicit-state BFS over event histories of '
                               'the real implementation, replay-built states, '
                               'canonical dedup, probe hook (C02/C10/C11), '
                               'bisimulation spot-check of the key, 16 forked '
                               'workers'},
            {'name': 'boundx', 'path': 'mc/boundx.py',
             'serves_properties': [p for p in props if p in CHECKS and
                                   'boundx' in CHECKS[p][0]],
             'kind_free_text': 'bounded-exhaustive sweep of complete finite '
                               'input products over forked workers'},
            {'name': 'ilv', 'path': 'mc/ilv.py (C14), mc/c17_ilv.py (C17)',
             'serves_properties': [p for p in props if p in CHECKS and
                                   'ilv' in CHECKS[p][0]],
             'kind_free_text': 'greenlet interleaving explorer: stateless DFS '
                               'over scheduler choices, replayed prefixes, '
                               'iterative preemption bounding'},
            {'name': 'crashx', 'path': 'mc/worlds/masterworld.py',
             'serves_properties': ['C10', 'C12', 'C18'],
             'kind_free_text': 'crash/fault-point enumeration: every storage '
                               'write (ZooKeeper) or FS step of a step is cut '
                               'in turn, the damaged state checked, recovery '
                               'run and checked'},
            {'name': 'fakezk', 'path': 'mc/fakezk.py',
             'serves_properties': ['C09', 'C10', 'C11', 'C12', 'C17', 'C18'],
             'kind_free_text': 'in-memory ZooKeeper with kazoo client '
                               'semantics (trusted base, pinned by selftest)'},
        ],
        'checks': checks,
        'not_applicable': [{'property_id': p, 'reason': NOT_YET}
                           for p in props if p not in CHECKS],
        'notes': 'All checks explore the implementation in /repo directly '
                 '(PYTHONPATH=/repo/lib/python); see DESIGN.md.',
    }
    with open('/verif/MANIFEST.json', 'w') as f:
        json.dump(manifest, f, indent=1)
        f.write('\n')


if __name__ == '__main__':
    main()
