#!/venv/bin/python
"""Regenerate /verif/MANIFEST.json from the table below."""
import json

BASELINE = ('cd /repo && /venv/bin/python -m pytest -ra -q -p no:cacheprovider '
            '--timeout=900 --continue-on-collection-errors')

# id -> (engine, design section, level text, level note, technique)
NOTE_A = ('World A glue mirrors Loader; virtual clock; canonical key argument '
          'in DESIGN 2.2; small-scope bounds (3-4 servers, <=5 instances, '
          'menus in the evidence).')
NOTE_B = ('Fake ZooKeeper (mc/fakezk.py, semantics pinned by selftest) is the '
          'trusted base; everything above the kazoo client API is real code; '
          'virtual clock; 3 servers, <=4 instances.')
TECH_STATEX = ('explicit-state model checking of the implementation (BFS over '
               'event histories, replay-built states, canonical dedup, '
               'recomputed-from-leaves oracle)')


def _s(text, ref, note=NOTE_A, tech=TECH_STATEX, engine='statex'):
    return (engine, ref, text, note, tech)


CHECKS = {
    'C01': _s('Explicit-state BFS over histories of cell events (real Cell, '
              'Server, Allocation objects); after every cycle sums are '
              'recomputed from the leaves and both views compared. Bounded: '
              'depth/alphabet in evidence.', '5/C01'),
    'C02': _s('BFS over histories; at every distinct quiescent state each '
              'probe template is submitted and the real cycle is compared '
              'with an independent leaf-scan feasibility oracle.', '5/C02'),
    'C03': _s('BFS over histories incl. partition re-assignment, trait/label '
              'changes, freeze/down, leases under a virtual clock; every new '
              'placement is checked against the eligibility predicate and '
              'every placed instance against its partition/traits.', '5/C03'),
    'C04': _s('BFS over pressure histories on a 2x2 cell with limits on every '
              'level subset; per node true affinity counts are recomputed and '
              'compared with limits and with the kept counters.', '5/C04'),
    'C05': _s('BFS over histories of arrivals, evictions, failures, '
              'blacklisting and group count changes with up to 2 skipped '
              'cycles; identity invariants recomputed from Cell.apps.',
              '5/C05'),
    'C07': _s('BFS over pressure histories; the queue handed to placement is '
              'captured per cycle and every displaced healthy instance must '
              'have a gainer strictly ahead of it.', '5/C07'),
    'C08': _s('BFS over down/up/frozen transitions and clock advances around '
              'the retention timeouts against a reference automaton on '
              'logical seconds.', '5/C08'),
    'C09': _s('BFS over histories of ZooKeeper-level events driving the real '
              'Master/ZkBackend/masterapi on an in-memory ZooKeeper, incl. '
              'restarts and skipped cycles; after every init_schedule/'
              'reschedule the whole /placement tree is compared with the '
              'model (existence and content).', '5/C09', note=NOTE_B),
    'C10': _s('For every state of a World-B BFS and every enabled event the '
              'following publication step (reschedule or start-up of a new '
              'master) is cut after each of its k storage writes; no double '
              'record at the cut; a new master on the cut state must start, '
              'pass its integrity check and publish its model.', '5/C10',
              note=NOTE_B,
              tech='explicit-state model checking of the implementation x '
                   'exhaustive crash-point enumeration over the storage '
                   'writes of each publication step'),
    'C11': _s('At every state of a World-B BFS a fresh Master runs '
              'load_model() on a copy of the stored tree and is compared '
              'with every record under a healthy server.', '5/C11',
              note=NOTE_B),
}

NOT_YET = 'check not built yet in this revision (planned, see DESIGN.md section 5)'


def main():
    props = [json.loads(l)['id'] for l in open('/verif/properties.jsonl')]
    checks = []
    for pid in props:
        if pid not in CHECKS:
            continue
        engine, ref, text, note, tech = CHECKS[pid]
        checks.append({
            'property_id': pid,
            'quick_cmd': 'bin/check %s --tier quick' % pid,
            'thorough_cmd': 'bin/check %s --tier thorough' % pid,
            'evidence_file': '/verif/evidence/%s.json' % pid,
            'replay_cmd_template': 'bin/check %s --replay {path}' % pid,
            'engine': engine,
            'level_claimed': {'category': 'model_checking', 'text': text,
                              'design_ref': ref},
            'level_note': note,
            'technique': tech,
        })
    manifest = {
        'version': 1,
        'setup_cmd': 'bin/setup',
        'hooks': {
            'guard': 'TREADMILL_VERIF',
            'enable': 'no source hooks: checks import /repo/lib/python from '
                      'the working tree (PYTHONPATH) and instrument from the '
                      'harness side; bin/check exports TREADMILL_VERIF=1',
            'baseline_off_cmd': BASELINE,
            'source_commits': [],
            'add_only': True,
        },
        'engines': [
            {'name': 'statex', 'path': 'mc/statex.py',
             'serves_properties': [p for p in props if p in CHECKS and
                                   CHECKS[p][0] == 'statex'],
             'kind_free_text': 'explicit-state BFS over event histories of '
                               'the real implementation, replay-built states, '
                               'canonical dedup, 16 forked workers'},
        ],
        'checks': checks,
        'not_applicable': [{'property_id': p, 'reason': NOT_YET}
                           for p in props if p not in CHECKS],
        'notes': 'All checks explore the implementation in /repo directly '
                 '(PYTHONPATH=/repo/lib/python); see DESIGN.md.',
    }
    with open('/verif/MANIFEST.json', 'w') as f:
        json.dump(manifest, f, indent=1)
        f.write('\n')


if __name__ == '__main__':
    main()
