#!/venv/bin/python
"""Validate MANIFEST.json and evidence/*.json against the schemas."""
import glob, json, sys
import jsonschema
ok = True
def check(path, schema):
    global ok
    try:
        jsonschema.validate(json.load(open(path)), json.load(open(schema)))
        print('ok   ', path)
    except Exception as e:
        ok = False
        print('FAIL ', path, str(e)[:300])
check('/verif/MANIFEST.json', '/root/.vp/MANIFEST.schema.json')
for p in sorted(glob.glob('/verif/evidence/*.json')):
    check(p, '/root/.vp/EVIDENCE.schema.json')
sys.exit(0 if ok else 1)
