#!/bin/sh
# usage: tools/seed_wave.sh <worktree-prefix> <ID> [<ID>...]
# For each ID: confirm every <prefix><ID>/_seeded/<i>/ (tools/seed_confirm.sh), keep it as
# seeded/<ID>-<next>, then run the quick check against it (tools/seed_eval.sh).
PFX=$1; shift
for ID in "$@"; do
  for d in ${PFX}${ID}/_seeded/[0-9]*/; do
    [ -f "$d/patch.diff" ] || continue
    n=$(ls -d /verif/seeded/${ID}-* 2>/dev/null | sed "s/.*${ID}-//" | sort -n | tail -1); n=$((${n:-0}+1))
    NAME=${ID}-$n
    out=$(/verif/tools/seed_confirm.sh "$d" $NAME 2>&1)
    echo "$out" | tail -2
    case "$out" in *KEPT*) ;; *) continue;; esac
    echo "--- eval $NAME"
    /verif/tools/seed_eval.sh /verif/seeded/$NAME/patch.diff $ID 2>&1 | sed -E 's/(VIOLATION property=[^ ]+) replay=[^ ]+/\1/' | cut -c1-200 | sort | uniq -c | head -8
  done
done
