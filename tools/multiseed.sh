#!/bin/sh
# usage: tools/multiseed.sh "<seeds>" [IDs...]   quick checks under several VERIF_SEED values; output dir /tmp/multiseed
SEEDS=$1; shift
IDS=${*:-C01 C02 C03 C04 C05 C06 C07 C08 C09 C10 C11 C12 C13 C14 C15 C16 C17 C18 C19 C20}
for s in $SEEDS; do for p in $IDS; do
  VERIF_SEED=$s VERIF_OUT_DIR=/tmp/multiseed /verif/bin/check $p 2>&1 | grep -E "VIOLATION|quick:|NOTE|rror|Trace" | sed "s/^/seed=$s /" | cut -c1-230
done; done
