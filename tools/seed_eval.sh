#!/bin/sh
# usage: tools/seed_eval.sh <patch.diff> <ID> [<ID>...]
# Applies the patch in a scratch worktree of /repo HEAD, runs the quick checks
# against it (outputs under /tmp, evidence untouched), removes the worktree.
PATCH=$1; shift
WT=/tmp/wt-eval-$$
git -C /repo worktree add --detach "$WT" HEAD >/dev/null 2>&1 || exit 2
if ! git -C "$WT" apply "$PATCH"; then echo "PATCH DOES NOT APPLY"; git -C /repo worktree remove --force "$WT"; exit 2; fi
for id in "$@"; do
  VERIF_REPO=$WT VERIF_OUT_DIR=/tmp/seed-eval-out ${TIER:+VERIF_TIER=$TIER} /verif/bin/check "$id" 2>&1 | grep -E "VIOLATION|KNOWN|quick:|thorough:|harness" | cut -c1-260
done
git -C /repo worktree remove --force "$WT"
