#!/venv/bin/python
"""Assemble seeded/MATRIX.md from the logs of tools/seed_regress.sh (one line
per seed: '<seed> detected (n)|MISSED|neutralised|stale-patch'); later logs
override earlier ones.  usage: matrix_from_logs.py <log>... """
import glob, json, os, re, subprocess, sys

NOTES = {
    'C11-13': 'not reported (outside C11\'s quantifier, DESIGN 8.3 ninth wave)',
    'C20-13': 'not reported (the monitor asked for the right number, DESIGN 8.3 ninth wave)',
    'C02-16': 'neutralised by fix 984f5f8 (DESIGN 8.3 tenth wave)',
    'C06-16': 'not reported (DESIGN 8.3 tenth wave)',
    'C16-16': 'not reported (DESIGN 8.3 tenth wave)',
    'C17-15': 'not reported (DESIGN 8.3 tenth wave)',
    'C06-14': 'reported by the C03 check (DESIGN 8.3 ninth wave)',
    'C01-16': 'reported by the C09 check (DESIGN 8.3 tenth wave)',
    'C07-17': 'reported by the C06 check (DESIGN 8.3 tenth wave)',
    'C14-16': 'reported by the C15 check (DESIGN 8.3 tenth wave)',
    'C19-13': 'reported by the C15 check (DESIGN 8.3 tenth wave)',
}
res = {}
for path in sys.argv[1:]:
    for line in open(path):
        m = re.match(r'^(C\d\d-\d+) (detected|MISSED|neutralised|stale-patch)', line)
        if m:
            res[m.group(1)] = m.group(2)
seeds = sorted((os.path.basename(d.rstrip('/')) for d in glob.glob('/verif/seeded/C*-*/')),
               key=lambda s: (s.split('-')[0], int(s.split('-')[1])))
head = subprocess.check_output(['git', '-C', '/verif', 'log', '--format=%h', '-1']).decode().strip()
rhead = subprocess.check_output(['git', '-C', '/repo', 'log', '--format=%h', '-1']).decode().strip()
out = ['# Seeded changes vs quick checks', '',
       'Assembled by tools/matrix_from_logs.py from the runs of tools/seed_regress.sh',
       'made while the checks were being extended (repo HEAD %s, verif HEAD at assembly %s).' % (rhead, head),
       'Every seed was run against the quick check of its property when it was kept',
       '(DESIGN.md 8.3 has one table per wave); "re-run" = result of the latest',
       're-run after later changes to the check, "-" = not re-run since it was kept.', '',
       '| seed | latest re-run | note |', '|---|---|---|']
cnt = {}
for s in seeds:
    r = res.get(s, '-')
    cnt[r] = cnt.get(r, 0) + 1
    out.append('| %s | %s | %s |' % (s, r, NOTES.get(s, '')))
out += ['', 'totals: %d seeds; %s' % (len(seeds), ', '.join('%s %d' % kv for kv in sorted(cnt.items())))]
open('/verif/seeded/MATRIX.md', 'w').write('\n'.join(out) + '\n')
print(out[-1])
