"""ilv - interleaving explorer for independent actors racing on shared state.

Every actor is a plain Python callable (a short program of real calls) run in a
greenlet.  A proxy standing in for the shared state (an `os` proxy, a fake ZK
client...) calls `Scheduler.point(...)` *before* each shared-state operation;
that switches to the scheduler, which picks the actor allowed to perform its
pending operation next.  Only those points are scheduling points; everything
between two points of one actor runs atomically (it is process-local).

* `Scheduler(prefix).run(programs)` executes ONE schedule: the choices of
  `prefix` are replayed (a choice outside the enabled range is a hard
  `ScheduleError`), afterwards choice 0 is taken.  The enabled list always
  starts with the actor that ran last (when it is still enabled), so choice 0
  never preempts and a choice > 0 taken while the last actor is enabled is
  exactly one preemption.
* `explore(make_run, ...)` is a stateless DFS over schedules: every schedule is
  re-executed from scratch by `make_run(prefix)`.  Schedules are processed in
  order of their number of preemptions (work lists per bound: 0, 1, 2, ...);
  every schedule is executed exactly once, and when the work list of bound b is
  empty all schedules with <= b preemptions have been executed.  The iteration
  runs until no schedule with more preemptions exists (= unbounded) unless
  `max_preemptions` / `time_cap` / `max_runs` stop it earlier, which is reported.
* Replay determinism is checked: a child schedule carries a fingerprint of the
  (actor, pending operation) sequence its parent observed along the common
  prefix; a different sequence on re-execution raises `ReplayDivergence`.
* "No enabled actor while a program is unfinished" is reported as a deadlock
  (`Trace.deadlock`), the blocked greenlets are killed.
"""
import time
import zlib

import greenlet

from mc import modstate


class ScheduleError(Exception):
    """A recorded choice is outside the range of enabled actors."""


class ReplayDivergence(Exception):
    """Re-executing a schedule prefix did not reproduce the recorded steps."""


class _Actor:
    __slots__ = ('name', 'glet', 'pending', 'guard', 'done', 'result',
                 'log', 'started')

    def __init__(self, name):
        self.name = name
        self.glet = None
        self.pending = None     # description of the operation it is about to do
        self.guard = None       # callable -> bool (operation enabled?) or None
        self.done = False
        self.result = None
        self.log = []           # filled by the shared-state proxy
        self.started = False


class Trace:
    """What one execution did."""
    __slots__ = ('choices', 'widths', 'last_enabled', 'steps', 'deadlock',
                 'results', 'logs', 'preemptions', 'fingerprints')

    def __init__(self):
        self.choices = []        # choice taken at every scheduling step
        self.widths = []         # number of enabled actors at that step
        self.last_enabled = []   # was the previously running actor enabled?
        self.steps = []          # (actor name, pending op) executed at the step
        self.deadlock = None     # None or {actor: pending op} of blocked actors
        self.results = {}        # actor name -> return value of its program
        self.logs = {}           # actor name -> proxy log
        self.preemptions = 0
        self.fingerprints = []   # running crc of steps[:i+1]


class Scheduler:
    def __init__(self, prefix=()):
        self.prefix = tuple(prefix)
        self.main = None
        self.actors = []
        self._by_glet = {}
        self.step = 0            # index of the scheduling step being executed
        self.current = None

    # -- called from inside actor greenlets ---------------------------------
    def actor(self):
        """The actor the caller runs in (None for harness code)."""
        return self._by_glet.get(greenlet.getcurrent())

    def point(self, op, guard=None):
        """Announce shared-state operation `op` and wait to be scheduled.
        Outside an actor greenlet this is a no-op (harness set-up code)."""
        a = self._by_glet.get(greenlet.getcurrent())
        if a is None:
            return None
        a.pending = op
        a.guard = guard
        self.main.switch()
        a.pending = None
        a.guard = None
        return a

    # -- driver -------------------------------------------------------------
    def run(self, programs):
        """programs: list of (name, callable).  Returns Trace."""
        tr = Trace()
        self.main = greenlet.getcurrent()
        for name, fn in programs:
            a = _Actor(name)
            a.glet = greenlet.greenlet(self._wrap(a, fn), parent=self.main)
            self.actors.append(a)
            self._by_glet[a.glet] = a
        # run every actor up to its first shared-state operation (local code)
        for a in self.actors:
            self.current = a
            a.glet.switch()
        last = None
        crc = 0
        i = 0
        while True:
            alive = [a for a in self.actors if not a.done]
            if not alive:
                break
            en = [a for a in alive if a.guard is None or a.guard()]
            if not en:
                tr.deadlock = {a.name: a.pending for a in alive}
                for a in alive:
                    a.glet.throw(greenlet.GreenletExit)
                break
            last_en = last is not None and last in en
            if last_en:
                en.remove(last)
                en.insert(0, last)
            c = self.prefix[i] if i < len(self.prefix) else 0
            if not 0 <= c < len(en):
                raise ScheduleError(
                    'choice %r at step %d outside 0..%d (prefix %r)'
                    % (c, i, len(en) - 1, self.prefix))
            a = en[c]
            tr.choices.append(c)
            tr.widths.append(len(en))
            tr.last_enabled.append(last_en)
            if c and last_en:
                tr.preemptions += 1
            tr.steps.append((a.name, a.pending))
            crc = zlib.crc32(repr((a.name, a.pending)).encode(), crc)
            tr.fingerprints.append(crc)
            self.step = i
            self.current = a
            a.glet.switch()
            last = a
            i += 1
        if len(self.prefix) > i:
            raise ScheduleError('prefix %r longer than the execution (%d steps)'
                                % (self.prefix, i))
        for a in self.actors:
            tr.results[a.name] = a.result
            tr.logs[a.name] = a.log
        self._by_glet.clear()
        return tr

    @staticmethod
    def _wrap(a, fn):
        def body():
            try:
                a.result = fn()
            finally:
                a.done = True
        return body


class Exploration:
    def __init__(self):
        self.runs = 0
        self.steps = 0
        self.by_preemptions = {}     # exact preemption count -> schedules
        self.bound_completed = -1    # all schedules with <= this many done
        self.unbounded = False       # no schedule with more preemptions exists
        self.pruned = 0              # children beyond max_preemptions
        self.deadlocks = 0
        self.caps_hit = []
        self.max_len = 0


def explore(make_run, on_trace, max_preemptions=None, time_cap=None,
            max_runs=None):
    """Stateless DFS with iterative preemption bounding.

    make_run(prefix) -> Trace   executes the system afresh under `prefix`
    on_trace(trace, prefix)     oracle / statistics callback
    """
    res = Exploration()
    t0 = time.perf_counter()
    work = {0: [((), None)]}
    b = 0
    while True:
        lst = work.pop(b, [])
        stopped = False
        while lst:
            prefix, want = lst.pop()
            modstate.reset()
            tr = make_run(prefix)
            if want is not None and not _same_prefix(tr, want):
                raise ReplayDivergence(
                    'prefix %r re-executed differently: %r'
                    % (prefix, tr.steps[:len(prefix)]))
            res.runs += 1
            res.steps += len(tr.choices)
            res.max_len = max(res.max_len, len(tr.choices))
            res.by_preemptions[tr.preemptions] = \
                res.by_preemptions.get(tr.preemptions, 0) + 1
            if tr.deadlock is not None:
                res.deadlocks += 1
            on_trace(tr, prefix)
            # children: deviate from the default at every step after the prefix
            pre = tr.preemptions     # all preemptions lie inside the prefix
            for i in range(len(prefix), len(tr.choices)):
                cost = 1 if tr.last_enabled[i] else 0
                for alt in range(1, tr.widths[i]):
                    nb = pre + cost
                    if max_preemptions is not None and nb > max_preemptions:
                        res.pruned += 1
                        continue
                    # fingerprint of the steps before i; step i itself differs
                    fp = tr.fingerprints[i - 1] if i else None
                    child = tuple(tr.choices[:i]) + (alt,)
                    work.setdefault(nb, []).append((child, (fp, i)))
            if max_runs and res.runs >= max_runs:
                res.caps_hit.append('max_runs %d' % max_runs)
                stopped = True
                break
            if time_cap and time.perf_counter() - t0 > time_cap:
                res.caps_hit.append('time_cap %ss' % time_cap)
                stopped = True
                break
        if stopped:
            break
        res.bound_completed = b
        if not work:
            res.unbounded = res.pruned == 0
            break
        b = min(work)
    return res


def _same_prefix(tr, want):
    """want = (fingerprint of the parent's steps[:i], i)."""
    fp, i = want
    if i == 0:
        return True
    return len(tr.fingerprints) >= i and tr.fingerprints[i - 1] == fp


def selftest():
    """Sanity checks of the explorer itself (run by its users; milliseconds).

    1. two actors with n atomic steps each: exactly C(2n, n) schedules, the
       lost-update race is seen, the preemption histogram is the known one;
    2. lock-order inversion is reported as a deadlock;
    3. an out-of-range choice is a hard error;
    4. re-executing a schedule gives the same steps.
    """
    import math

    def counter_system(n):
        def make_run(prefix):
            sched = Scheduler(prefix)
            shared = {'x': 0}

            def prog():
                for _ in range(n):
                    sched.point('read')
                    v = shared['x']
                    sched.point('write')
                    shared['x'] = v + 1
            tr = sched.run([('a', prog), ('b', prog)])
            tr.results['x'] = shared['x']
            return tr
        return make_run

    finals = set()
    res = explore(counter_system(2), lambda tr, p: finals.add(tr.results['x']))
    assert res.runs == math.comb(8, 4), res.runs
    assert res.unbounded and not res.caps_hit
    assert finals == {2, 3, 4}, finals
    assert res.by_preemptions[0] == 2, res.by_preemptions
    res1 = explore(counter_system(2), lambda tr, p: None, max_preemptions=1)
    assert res1.runs == res.by_preemptions[0] + res.by_preemptions[1]
    assert not res1.unbounded and res1.bound_completed == 1

    def lock_system(prefix):
        sched = Scheduler(prefix)
        locks = {}

        def take(name, who):
            sched.point(('lock', name), guard=lambda: name not in locks)
            locks[name] = who

        def p1():
            take('l1', 1)
            take('l2', 1)
            locks.clear()

        def p2():
            take('l2', 2)
            take('l1', 2)
            locks.clear()
        return sched.run([('a', p1), ('b', p2)])

    dl = []
    res = explore(lock_system, lambda tr, p: dl.append(tr.deadlock))
    assert res.deadlocks >= 1 and any(d for d in dl), dl
    assert any(d is None for d in dl)

    try:
        counter_system(1)((5,))
    except ScheduleError:
        pass
    else:
        raise AssertionError('out-of-range choice accepted')
    t1 = counter_system(2)((1, 0, 1))
    t2 = counter_system(2)((1, 0, 1))
    assert t1.steps == t2.steps and t1.choices == t2.choices
    return True
