"""C08 - data retention on down servers, frozen servers, blacklisting."""
from mc.props import _cellprop
from mc.worlds import cellcfg, cellmon

BUDGET = {'quick': 60, 'thorough': 600}
HASH_INSENSITIVE = True


def _k1():
    cfg = cellcfg.k1()
    cfg['monitors'] = [cellmon.mon_c08]
    cfg['idgroups'] = {}
    cfg['templates'] = {
        'r0': {'prio': 50, 'demand': [3, 3, 3], 'aff': 'a', 'ret': 0},
        'r30': {'prio': 50, 'demand': [6, 2, 2], 'aff': 'b', 'ret': 30},
        'rn': {'prio': 50, 'demand': [2, 6, 2], 'aff': 'c', 'ret': None},
        'hi': {'prio': 100, 'demand': [10, 10, 10], 'aff': 'd', 'ret': 30},
        'lo': {'prio': 1, 'demand': [8, 8, 8], 'aff': 'e', 'ret': 30},
    }
    cfg['events'] = cellcfg.ev(
        ('add', 'r0'), ('add', 'r30'), ('add', 'rn'), ('add', 'hi'),
        ('add', 'lo'),
        ('rm', 0), ('prio', 1, 100),
        ('down', 's0'), ('up', 's0'), ('down', 's1'), ('up', 's1'),
        ('frz', 's0', -1), ('frz', 's0', 0), ('frz', 's1', -1),
        ('bl', 0, 1), ('bl', 0, 0), ('bl', 1, 1),
        ('tick', 10), ('tick', 25), ('tick', 40), ('noop',),
    )
    return cfg


def configs(ctx):
    if ctx.quick:
        return [('K1', _k1(), 4, 1)]
    return [('K1', _k1(), 6, 1)]


RULE = ('BFS over down/up/frozen transitions, clock advances around the '
        'retention timeouts, blacklist changes and pressure; reference '
        'automaton on logical seconds; non-trivial = checks of instances on a '
        'down server inside / past retention, on frozen servers, blacklisted')
NT = ['c08_retention_kept', 'c08_retention_expired', 'c08_frozen_kept_checks',
      'c08_blacklisted_checks']


def run(ctx):
    return _cellprop.run_configs(ctx, configs(ctx), NT, RULE,
                                 _cellprop.BASE_ASSUMPTIONS)


def replay(ctx, data):
    return _cellprop.replay_config(ctx, configs(ctx), data)
