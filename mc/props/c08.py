"""C08 - data retention on down servers, frozen servers, blacklisting."""
from mc.props import _cellprop
from mc.props import _masterprop
from mc.worlds import mastermon, cellcfg, cellmon, mastercfg

BUDGET = {'quick': 600, 'thorough': 2400}


def _k1():
    cfg = cellcfg.k1()
    cfg['monitors'] = [cellmon.mon_c08]
    cfg['idgroups'] = {}
    cfg['templates'] = {
        'r0': {'prio': 50, 'demand': [3, 3, 3], 'aff': 'a', 'ret': 0},
        'r30': {'prio': 50, 'demand': [6, 2, 2], 'aff': 'b', 'ret': 30},
        'rn': {'prio': 50, 'demand': [2, 6, 2], 'aff': 'c', 'ret': None},
        'hi': {'prio': 100, 'demand': [10, 10, 10], 'aff': 'd', 'ret': 30},
        'lo': {'prio': 1, 'demand': [8, 8, 8], 'aff': 'e', 'ret': 30},
    }
    cfg['events'] = cellcfg.ev(
        ('add', 'r0'), ('add', 'r30'), ('add', 'rn'), ('add', 'hi'),
        ('add', 'lo'),
        ('rm', 0), ('prio', 1, 100),
        ('down', 's0'), ('up', 's0'), ('down', 's1'), ('up', 's1'),
        ('frz', 's0', -1), ('frz', 's0', 0), ('frz', 's1', -1),
        ('bl', 0, 1), ('bl', 0, 0), ('bl', 1, 1),
        ('tick', 10), ('tick', 25), ('tick', 40), ('noop',),
    )
    return cfg


def _m1():
    """World B: presence loss, server_state events (_freeze_server),
    adjust_presence, app blacklist events."""
    cfg = mastercfg.m1()
    cfg['idgroups'] = {}
    cfg['cellmonitors'] = [cellmon.mon_c08]
    cfg['monitors'] = [mastermon.mon_c08_start]
    cfg['templates'] = {
        'sm': {'memory': '3M', 'cpu': '3%', 'disk': '3M', 'affinity': 'a',
               'data_retention_timeout': '30s'},
        'r0': {'memory': '6M', 'cpu': '2%', 'disk': '2M', 'affinity': 'b',
               'data_retention_timeout': '0s'},
        'rn': {'memory': '2M', 'cpu': '2%', 'disk': '2M', 'affinity': 'c'},
        'hi': {'memory': '10M', 'cpu': '10%', 'disk': '10M', 'affinity': 'd',
               'priority': 100, 'data_retention_timeout': '30s'},
    }
    cfg['events'] = mastercfg.ev(
        ('app+', 'sm'), ('app+', 'r0'), ('app+', 'rn'), ('app+', 'hi'),
        ('app-', 0),
        ('pres-', 's0'), ('pres+', 's0', 0), ('pres-', 's1'),
        ('pres+', 's1', 0),
        ('state', 's0', 'frozen', -1), ('state', 's0', 'frozen', 0),
        ('state', 's0', 'up', -1), ('state', 's1', 'down', -1),
        ('bl', 1), ('bl', 0), ('bl', 2), ('bl', 3),
        ('tick', 10), ('tick', 25), ('tick', 40), ('noop',), ('restart',),
    )
    return cfg


def _m6():
    """World B, the master's own watchdog: an instance that is placed but
    not reported running for five minutes makes Master.check_integrity
    freeze its server and unschedule it; servers that go down meanwhile,
    instances with a retention longer than that interval."""
    cfg = _m1()
    cfg['servers'] = {k: v for k, v in cfg['servers'].items()
                      if k in ('s0', 's1')}
    cfg['templates'] = {
        'r9': {'memory': '3M', 'cpu': '3%', 'disk': '3M', 'affinity': 'a',
               'data_retention_timeout': '900s'},
        'rn': {'memory': '2M', 'cpu': '2%', 'disk': '2M', 'affinity': 'c'},
    }
    cfg['max_apps'] = 2
    cfg['allow_nocycle'] = False
    cfg['events'] = mastercfg.ev(
        ('app+', 'r9'), ('app+', 'rn'), ('run+', 0), ('chk',),
        ('pres-', 's0'), ('pres+', 's0', 0),
        ('state', 's0', 'up', -1),
        ('tick', 310), ('tick', 1000), ('noop',), ('restart',),
    )
    return cfg


def _m5():
    """World B, retention across master restarts and repeated freezes: small
    alphabet, deeper histories."""
    cfg = _m1()
    cfg['servers'] = {k: v for k, v in cfg['servers'].items()
                      if k in ('s0', 's1')}
    cfg['max_apps'] = 2
    cfg['allow_nocycle'] = False
    cfg['allow_late'] = True
    cfg['late_kinds'] = ('pres+', 'pres-')
    cfg['seeds'] = [(), (('app+', 'sm', True),)]
    cfg['events'] = mastercfg.ev(
        ('app+', 'sm'),
        ('pres-', 's0'), ('pres+', 's0', 0),
        ('state', 's0', 'frozen', 0), ('state', 's1', 'frozen', -1),
        ('state', 's0', 'up', -1), ('bl', 1), ('bl', 0), ('bl', 2),
        ('tick', 10), ('tick', 25), ('tick', 40), ('noop',), ('restart',),
    )
    return cfg


def configs(ctx):
    if ctx.quick:
        return [('K1', _k1(), 4, 1),
                ('M1', _m1(), 3, 0, _masterprop.MasterSpec),
                ('M5', _m5(), 5, 1, _masterprop.MasterSpec),
                ('M6', _m6(), 5, 0, _masterprop.MasterSpec)]
    return [('K1', _k1(), 6, 1),
            ('M1', _m1(), 5, 1, _masterprop.MasterSpec),
            ('M5', _m5(), 8, 1, _masterprop.MasterSpec),
            ('M6', _m6(), 8, 0, _masterprop.MasterSpec)]


RULE = ('BFS over down/up/frozen transitions, clock advances around the '
        'retention timeouts, blacklist changes and pressure; reference '
        'automaton on logical seconds; non-trivial = checks of instances on a '
        'down server inside / past retention, on frozen servers, blacklisted')
NT = ['c08_retention_kept', 'c08_retention_expired', 'c08_frozen_kept_checks',
      'c08_blacklisted_checks']


def run(ctx):
    return _cellprop.run_configs(ctx, configs(ctx), NT, RULE,
                                 _cellprop.BASE_ASSUMPTIONS)


def replay(ctx, data):
    return _cellprop.replay_config(ctx, configs(ctx), data)
