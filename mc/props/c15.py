"""C15 - state kept in names and directory entries round-trips losslessly.

Bounded-exhaustive sweeps (mc.boundx) of the REAL encoders / decoders:
rule-file names, container unique names + 13-char ids, trace event node names,
ZooKeeper payloads, LDAP entries.  Oracles: decode(encode(x)) == x up to the
documented normalisations, idempotence, and - over the whole swept domain -
distinct values never share an encoding / equal values have one encoding.
"""
import shutil
import tempfile
import time

from mc import boundx
from mc import c15_common as cc
from mc import c15_ldap, c15_ldapdn, c15_names, c15_rules, c15_trace, c15_zk

BUDGET = {'quick': 240, 'thorough': 540}

# Nothing under test iterates a set/dict of strings in hash order in a way
# that can reach an encoding: json.dumps(sort_keys) / sorted() / insertion
# ordered dicts only (the LDAP attribute-name sets are sorted before use).
HASH_INSENSITIVE = True

SUBS = [c15_rules.SUB, c15_names.NAMES, c15_names.UID, c15_trace.SUB,
        c15_zk.SUB, c15_ldap.SUB, c15_ldapdn.SUB]
BY_NAME = {s.name: s for s in SUBS}
# sub-checks whose encoding must also be a function of the value (a rule file
# / node is looked up by re-encoding the value; zk check_content compares
# payload bytes).  LDAP keyed lists may be written in any member order.
SPLIT_CHECKED = {'rules', 'names', 'uid', 'trace', 'zk', 'ldapdn'}
CONFIRM_PER_SITE = 300

RULE = ('a case is non-trivial when the value carries something the format '
        'has to escape or default: wildcard ip/port or passthrough (rules), '
        'separator characters in proid/app (names), seed >= 62 (uid), '
        'None or separator characters in a field (trace), nesting >= 2 or '
        'multi-key dict (zk), option-indexed attributes or > 3 attributes, '
        'resp. an update that changes the decoded object (ldap), nested '
        'tenant / separator in the id / more than one cell or tenant in the '
        'directory (ldapdn)')

ASSUMPTIONS = [
    "trace: ',' and '/' are reserved by the event-node name format and do not "
    "occur in any field; server names / unique ids / service names contain no "
    "':' resp. unique ids no '.'; free-text fields (why) may contain "
    "':', '.', '-', '#', '@', spaces, or be None; None == '' is the one "
    "accepted normalisation",
    "trace: the payload travels as node data and is not part of the name "
    "(the reader does not read it); events are compared without payload; "
    "time.time() and the publisher's hostname are owned by the harness",
    "zk: resource objects are dicts/lists with str keys and str / int / float "
    "(finite, no NaN) / bool / None leaves; top-level bare strings are outside "
    "the statement (they are stored raw and re-parsed as YAML); the zk client "
    "is a dict-backed stand-in (payload bytes in, same bytes out)",
    "uid: the full 77-bit range is not enumerable; the claim is the stated "
    "lattice of seeds, each reached through two (ctime, inode, instance) "
    "decompositions with os.stat virtualised inside treadmill.appcfg",
    "names: unique ids are 13 characters of [0-9a-zA-Z] (what gen_uniqueid "
    "returns); instance ids are 10 digits",
    "rules: chains match \\w{2,32}; addresses are dotted quads; a wildcard "
    "address may be spelled None, firewall.ANY_IP or any string equal to it",
    "ldap: None / empty list / empty keyed list == absent (_remove_empty); "
    "keyed lists are unordered; service restart defaults to limit 5 interval "
    "60 and missing ephemeral ports to 0 (to_entry defaults); multi-valued "
    "attributes keep their order in the in-memory store; values have the "
    "types of the schema (str fields are str)",
    "ldap update: the ldap3 connection is replaced by an in-memory entry "
    "store in which an attribute with options is returned when the plain "
    "attribute is requested (RFC 4511 4.5.1.8; Admin.update relies on it to "
    "delete stale list members) and fetched values are either schema-typed "
    "(int/bool) or raw strings; both models are swept",
    "ldap dn: ids contain none of the characters the DN / id formats reserve "
    "(',', '=', '+', '/', ':' inside a segment, '*', parentheses) and no case "
    "variants; the in-memory directory implements BASE / SUBTREE scope by DN "
    "suffix, AND-of-(attr=glob) filters, requires the parent entry to exist "
    "and returns multi-valued attributes in the order written (create() "
    "stores the whole id list in the naming attribute and from_entry reads "
    "its first value)",
]


_DOMAINS = {}


def _domain(sub, tier):
    """Domains are built once in the parent and inherited by the forks."""
    key = (sub.name, tier)
    if key not in _DOMAINS:
        _DOMAINS[key] = sub.domain(tier)
    return _DOMAINS[key]


def _worker(chunk):
    sub = BY_NAME[chunk['sub']]
    dom = _domain(sub, chunk['tier'])
    try:
        return cc.run_chunk(sub, dom, chunk)
    finally:
        if hasattr(sub, 'cleanup'):
            sub.cleanup()


def run(ctx):
    import os
    only = os.environ.get('C15_ONLY')
    subs = [s for s in SUBS if not only or s.name in only.split(',')]
    scratch = tempfile.mkdtemp(prefix='verif-c15-')
    t0 = time.perf_counter()
    try:
        domains = {}
        chunks = []
        for sub in subs:
            dom = _domain(sub, ctx.tier)
            domains[sub.name] = dom
            chunks.extend(cc.chunks_for(sub.name, ctx.tier, len(dom),
                                        sub.chunk, scratch))
            ctx.log('%s: %d cases' % (sub.name, len(dom)))
        res = boundx.sweep(chunks, _worker, workers=ctx.workers,
                           time_cap=ctx.budget_s * 0.8)
        ctx.log('swept %d cases in %.1fs' % (res.cases, res.wall_s))

        violations = {}

        def note(v):
            key = (v['clause'], v['site'])
            if key in violations:
                violations[key]['count'] += v.get('count', 1)
            else:
                violations[key] = v

        # per-case violations: confirm each reported representative
        for v in res.violation_list():
            sub = BY_NAME[v['replay']['sub']]
            case = domains[sub.name][v['replay']['index']]
            cc.confirm_case(sub, case, v['clause'], v['site'])
            note(v)

        # sweep-wide injectivity / well-definedness
        per_sub = {}
        for sub in subs:
            rec = cc.load_records(scratch, sub.name)
            coll, split, stats = cc.find_pairs(rec)
            if not res.exhaustive:
                stats['partial'] = True
            elif stats['records'] != len(domains[sub.name]):
                raise cc.HarnessError(
                    '%s: %d records for %d cases'
                    % (sub.name, stats['records'], len(domains[sub.name])))
            confirmed = {'collision': 0, 'split': 0, 'hash_accidents': 0}
            todo = [('collision', p) for p in coll]
            if sub.name in SPLIT_CHECKED:
                todo += [('split', p) for p in split]
            per_site = {}
            for kind, (i, j) in todo:
                a, b = domains[sub.name][i], domains[sub.name][j]
                # every candidate is attributed to its site (no code is run
                # for that); the first CONFIRM_PER_SITE of each site, lowest
                # indexes first, are re-executed and reported
                skey = (kind, sub.pair_site(kind, a, b))
                per_site[skey] = per_site.get(skey, 0) + 1
                if per_site[skey] > CONFIRM_PER_SITE:
                    confirmed['not_reexecuted'] = \
                        confirmed.get('not_reexecuted', 0) + 1
                    continue
                body = cc.confirm_pair(sub, kind, a, b)
                if body is None:
                    confirmed['hash_accidents'] += 1
                    continue
                confirmed[kind] += 1
                body['count'] = 1
                body['replay'] = {'sub': sub.name, 'tier': ctx.tier,
                                  'pair': [i, j], 'kind': kind,
                                  'case': repr([a, b])}
                note(body)
            stats['confirmed'] = confirmed
            c = res.counters
            per_sub[sub.name] = {
                'cases': c.get(sub.name + '.cases', 0),
                'states': stats['distinct_inputs'],
                'transitions': c.get(sub.name + '.evals', 0),
                'nontrivial_cases': c.get(sub.name + '.nontrivial', 0),
                'nontrivial': stats['distinct_nontrivial_inputs'],
                'domain_size': len(domains[sub.name]),
                'exhaustive': c.get(sub.name + '.cases', 0) ==
                len(domains[sub.name]),
                'injectivity': stats,
                'menus': sub.menus(ctx.tier),
            }
            if hasattr(domains[sub.name], 'sizes'):
                per_sub[sub.name]['parts'] = domains[sub.name].sizes()
            if per_sub[sub.name]['states'] and not res.violations and \
                    not per_sub[sub.name]['nontrivial']:
                raise cc.HarnessError('%s: vacuous sweep' % sub.name)

        transitions = sum(p['transitions'] for p in per_sub.values())
        nontrivial = sum(p['nontrivial'] for p in per_sub.values())
        if res.cases and nontrivial < 2 and not res.violations:
            raise cc.HarnessError('vacuous run: %d non-trivial cases'
                                  % nontrivial)
        exhaustive = bool(res.exhaustive and
                          all(p['exhaustive'] for p in per_sub.values()))
        cov = {
            # distinct inputs (by exact value key); every case is one
            # execution of the real encoder + decoder
            'states': sum(p['states'] for p in per_sub.values()),
            'transitions': transitions,
            'traces_validated_against_impl': res.cases,
            'evaluations': res.cases,
            'distinct_nontrivial': nontrivial,
            'rule': RULE,
            'samples': res.samples,
            'exhaustive': exhaustive,
            'caps_hit': list(res.caps_hit),
            'sub_checks': per_sub,
            'tags': {k: v for k, v in sorted(res.counters.items())
                     if k.count('.') >= 2 or
                     k.startswith(('trace.route', 'ldapdn.'))},
            'chunks': [res.chunks_done, res.chunks_total],
            'sweep_wall_s': round(res.wall_s, 1),
            'total_wall_s': round(time.perf_counter() - t0, 1),
        }
        return {'coverage': cov, 'violations': list(violations.values()),
                'assumptions': ASSUMPTIONS}
    finally:
        shutil.rmtree(scratch, ignore_errors=True)
        for sub in subs:
            if hasattr(sub, 'cleanup'):
                sub.cleanup()


def replay(ctx, data):
    sub = BY_NAME[data['sub']]
    dom = _domain(sub, data['tier'])
    out = []
    try:
        if 'pair' in data:
            i, j = data['pair']
            a, b = dom[i], dom[j]
            if repr([a, b]) != data['case']:
                raise cc.HarnessError('menus changed since this replay was '
                                      'recorded: %r' % (data['case'],))
            body = cc.confirm_pair(sub, data['kind'], a, b)
            if body is not None:
                body['count'] = 1
                body['replay'] = data
                out.append(body)
        else:
            case = dom[data['index']]
            if repr(case) != data['case']:
                raise cc.HarnessError('menus changed since this replay was '
                                      'recorded: %r' % (data['case'],))
            o1 = cc.observe(sub, case)
            o2 = cc.observe(sub, case)
            if o1 != o2:
                raise cc.HarnessError('non-deterministic replay')
            for clause, site, detail in cc.safe_evaluate(sub, case)['viol']:
                if data.get('clause') and (clause, site) != (
                        data['clause'], data.get('site')):
                    continue
                out.append({'clause': clause, 'site': site, 'detail': detail,
                            'count': 1, 'replay': data})
    finally:
        if hasattr(sub, 'cleanup'):
            sub.cleanup()
    return {'coverage': {}, 'violations': out}
