"""C07 - a running instance is displaced only for an instance ahead of it."""
from mc.props import _cellprop
from mc.worlds import cellcfg, cellmon

BUDGET = {'quick': 240, 'thorough': 900}
HASH_INSENSITIVE = True


def _k1():
    cfg = cellcfg.k1()
    cfg['monitors'] = [cellmon.mon_c07]
    cfg['events'] = cellcfg.ev(
        ('add', 'sm'), ('add', 'sk'), ('add', 'ks'), ('add', 'hi'),
        ('add', 'lo'),
        ('rm', 0), ('rm', 1), ('prio', 0, 100), ('prio', 1, 1), ('prio', 2, 0),
        ('down', 's0'), ('up', 's0'), ('down', 's1'), ('up', 's1'),
        ('tick', 40), ('noop',),
    )
    return cfg


def _k3():
    cfg = cellcfg.k3({'rack': 1})
    cfg['monitors'] = [cellmon.mon_c07]
    cfg['allow_nocycle'] = False
    cfg['events'] = cellcfg.ev(
        ('add', 'la'), ('add', 'lb'), ('add', 'fill'), ('add', 'mid'),
        ('add', 'hi'),
        ('rm', 0), ('rm', 2), ('prio', 0, 100), ('prio', 2, 100),
        ('prio', 1, 1), ('down', 's0'), ('up', 's0'), ('noop',),
    )
    return cfg


def configs(ctx):
    if ctx.quick:
        return [('K1', _k1(), 4, 1), ('K3', _k3(), 5, 0)]
    return [('K1', _k1(), 6, 1), ('K3', _k3(), 7, 0)]


RULE = ('BFS over histories producing capacity pressure; per cycle the queue '
        'handed to placement is captured and every displaced healthy instance '
        'must have a gainer strictly ahead of it; non-trivial = cycles with at '
        'least one such displacement')
NT = ['c07_cycles_with_displacement']


def run(ctx):
    return _cellprop.run_configs(ctx, configs(ctx), NT, RULE,
                                 _cellprop.BASE_ASSUMPTIONS)


def replay(ctx, data):
    return _cellprop.replay_config(ctx, configs(ctx), data)
