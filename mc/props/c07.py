"""C07 - a running instance is displaced only for an instance ahead of it."""
from mc.props import _cellprop
from mc.worlds import cellcfg, cellmon

BUDGET = {'quick': 600, 'thorough': 2400}
HASH_INSENSITIVE = True


def _k1():
    cfg = cellcfg.k1()
    cfg['monitors'] = [cellmon.mon_c07]
    # priority-0 instances: utilisation is +inf for all of them, so they tie
    cfg['templates']['z0'] = {'prio': 0, 'demand': [8, 8, 8], 'aff': 'z'}
    cfg['events'] = cellcfg.ev(
        ('add', 'sm'), ('add', 'sk'), ('add', 'ks'), ('add', 'hi'),
        ('add', 'lo'), ('add', 'z0'),
        ('rm', 0), ('rm', 1), ('prio', 0, 100), ('prio', 1, 1), ('prio', 2, 0),
        ('down', 's0'), ('up', 's0'), ('down', 's1'), ('up', 's1'),
        ('frz', 's0', 0), ('frz', 's0', -1),
        ('tick', 40), ('noop',),
    )
    return cfg


def _k6():
    """Lease pressure: an evictor that still fails after evicting (its lease
    does not fit before the reboot) and a victim of the same shape."""
    day = 24 * 3600
    cfg = cellcfg.k5()
    cfg['monitors'] = [cellmon.mon_c07]
    cfg['idgroups'] = {}
    cfg['allow_nocycle'] = False
    cfg['servers'] = {
        's0': {'parent': 'rack:0', 'age': 19 * day + 12 * 3600,
               'variants': [{'cap': [10, 10, 10]}]},
        's1': {'parent': 'rack:1', 'age': 0,
               'variants': [{'cap': [2, 2, 2]}]},
    }
    cfg['templates'] = {
        'l1': {'prio': 50, 'demand': [3, 3, 3], 'aff': 'a', 'lease': day},
        'lh': {'prio': 90, 'demand': [3, 3, 3], 'aff': 'a', 'lease': day},
        'big': {'prio': 70, 'demand': [8, 8, 8], 'aff': 'b'},
    }
    cfg['events'] = cellcfg.ev(
        ('add', 'l1'), ('add', 'lh'), ('add', 'big'), ('rm', 0),
        ('prio', 0, 100), ('tick', day // 2), ('tick', day), ('noop',),
    )
    return cfg


def _k8():
    """Reboot buckets: three servers up for 18 days compete for the last
    three reboot dates; a presence flap while another server registers moves
    a server's reboot date to before the end of a lease it already granted."""
    day = 24 * 3600
    cfg = cellcfg.k5()
    cfg['monitors'] = [cellmon.mon_c07]
    cfg['idgroups'] = {}
    cfg['allow_nocycle'] = False
    cfg['servers'] = {
        's0': {'parent': 'rack:0', 'age': 18 * day,
               'variants': [{'cap': [10, 10, 10]}]},
        's1': {'parent': 'rack:1', 'age': 18 * day,
               'variants': [{'cap': [10, 10, 10]}]},
        's2': {'parent': 'rack:0', 'age': 18 * day, 'initial': False,
               'variants': [{'cap': [10, 10, 10]}]},
    }
    cfg['templates'] = {
        'l40': {'prio': 50, 'demand': [3, 3, 3], 'aff': 'a',
                'lease': 40 * 3600, 'ret': 7200},
        'big': {'prio': 100, 'demand': [20, 20, 20], 'aff': 'b'},
    }
    cfg['max_apps'] = 3
    cfg['events'] = cellcfg.ev(
        ('add', 'l40'), ('add', 'big'), ('rm', 0),
        ('down', 's0'), ('up', 's0'), ('sadd', 's2', 0), ('noop',),
    )
    return cfg


def _k9():
    """Early renewals: a lease renewed before it ran out, on a server whose
    reboot date lies between now + lease and expiry + lease, with a
    longer-lived server next to it."""
    day = 24 * 3600
    cfg = cellcfg.k5()
    cfg['monitors'] = [cellmon.mon_c07]
    cfg['idgroups'] = {}
    cfg['allow_nocycle'] = False
    cfg['servers'] = {
        's0': {'parent': 'rack:0', 'age': 19 * day + 12 * 3600,
               'variants': [{'cap': [10, 10, 10]}]},
        's1': {'parent': 'rack:1', 'age': 0,
               'variants': [{'cap': [10, 10, 10]}]},
    }
    cfg['templates'] = {
        'l1': {'prio': 50, 'demand': [3, 3, 3], 'aff': 'a', 'lease': day},
        'l2': {'prio': 50, 'demand': [6, 6, 6], 'aff': 'b',
               'lease': day // 2},
    }
    cfg['max_apps'] = 3
    cfg['events'] = cellcfg.ev(
        ('add', 'l1'), ('add', 'l2'), ('rm', 0),
        ('renew', 0), ('renew', 1), ('renew', 2),
        ('tick', day // 4), ('tick', day // 2), ('tick', day), ('noop',),
    )
    return cfg


def _k10(limits):
    """A running holder of an exactly used-up rack/pod/cell limit is evicted
    in vain (the evictor fits nowhere) and has to come back in place."""
    cfg = cellcfg.k3(limits)
    cfg['monitors'] = [cellmon.mon_c07]
    cfg['allow_nocycle'] = False
    cfg['templates']['xx'] = {'prio': 60, 'demand': [11, 11, 11], 'aff': 'x'}
    cfg['events'] = cellcfg.ev(
        ('add', 'la'), ('add', 'xx'), ('add', 'mid'), ('add', 'fill'),
        ('rm', 0), ('rm', 1), ('prio', 0, 100), ('rld',), ('noop',),
    )
    return cfg


def _k7():
    """Two allocations in one partition: an instance inside its reservation is
    ahead in the queue although its priority is lowest."""
    cfg = cellcfg.k1()
    cfg['monitors'] = [cellmon.mon_c07]
    cfg['idgroups'] = {}
    cfg['allow_nocycle'] = False
    cfg['allocs']['r'] = {'partition': '_default', 'variants': [
        {'reserved': [6, 6, 6], 'rank': 100}]}
    cfg['templates'] = {
        'rl': {'prio': 1, 'demand': [6, 6, 6], 'aff': 'r', 'alloc': 'r'},
        'am': {'prio': 50, 'demand': [6, 3, 6], 'aff': 'm', 'alloc': 'a'},
        'ah': {'prio': 100, 'demand': [10, 4, 10], 'aff': 'h', 'alloc': 'a'},
        'as': {'prio': 50, 'demand': [3, 3, 3], 'aff': 'm', 'alloc': 'a'},
    }
    cfg['events'] = cellcfg.ev(
        ('add', 'rl'), ('add', 'am'), ('add', 'ah'), ('add', 'as'),
        ('rm', 0), ('prio', 1, 100), ('down', 's0'), ('up', 's0'),
        ('noop',),
    )
    return cfg


def _k3():
    cfg = cellcfg.k3({'rack': 1})
    cfg['monitors'] = [cellmon.mon_c07]
    cfg['allow_nocycle'] = False
    cfg['events'] = cellcfg.ev(
        ('add', 'la'), ('add', 'lb'), ('add', 'fill'), ('add', 'mid'),
        ('add', 'hi'),
        ('rm', 0), ('rm', 2), ('prio', 0, 100), ('prio', 2, 100),
        ('prio', 1, 1), ('down', 's0'), ('up', 's0'), ('noop',),
    )
    return cfg


def configs(ctx):
    if ctx.quick:
        return [('K1', _k1(), 4, 1), ('K3', _k3(), 4, 0), ('K6', _k6(), 5, 0),
                ('K7', _k7(), 5, 0), ('K8', _k8(), 5, 0), ('K9', _k9(), 5, 0),
                ('K10-rack1', _k10({'rack': 1}), 4, 0),
                ('K10-cell1', _k10({'cell': 1}), 4, 0),
                ('K10-server1', _k10({'server': 1}), 4, 0)]
    return [('K1', _k1(), 6, 1), ('K3', _k3(), 7, 0), ('K6', _k6(), 8, 0),
            ('K7', _k7(), 7, 0), ('K8', _k8(), 8, 0), ('K9', _k9(), 8, 0),
            ('K10-rack1', _k10({'rack': 1}), 6, 0),
            ('K10-pod1', _k10({'pod': 1}), 6, 0),
            ('K10-cell1', _k10({'cell': 1}), 6, 0),
            ('K10-server1', _k10({'server': 1}), 6, 0),
            ('K10-server2', _k10({'server': 2}), 6, 0)]


RULE = ('BFS over histories producing capacity pressure; per cycle the queue '
        'handed to placement is captured and every displaced healthy instance '
        'must have a gainer strictly ahead of it; non-trivial = cycles with at '
        'least one such displacement')
NT = ['c07_cycles_with_displacement']


def run(ctx):
    return _cellprop.run_configs(ctx, configs(ctx), NT, RULE,
                                 _cellprop.BASE_ASSUMPTIONS)


def replay(ctx, data):
    return _cellprop.replay_config(ctx, configs(ctx), data)
