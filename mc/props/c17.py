"""C17 - presence registration never touches nodes owned by another session.

Two (three) simulated nodes run the REAL PresenceResourceService against one
in-memory ZooKeeper (mc.fakezk); every ZooKeeper call is a scheduling point
(mc.c17_ilv).  Two exhaustive explorations per configuration:

  state search   all interleavings with unbounded preemptions and at most D
                 environment deviations (session expiry with re-issue of the
                 live requests in every directory order; one external node
                 deletion), explored once per canonical state (the soundness
                 argument is in c17_ilv.explore_states);
  stateless DFS  no pruning at all: every schedule with <= b preemptions and
                 <= D deviations is executed from scratch, b = 0, 1, 2, ...

plus sequential bounded-exhaustive sub-checks of presence.EndpointPresence and
trace.app.zk._unschedule (mc.c17_seq).

Oracle (only what the statement says):
  touched-foreign-node            set/delete by session s of a node whose
                                  ephemeral owner is another live session
  created-node-not-own-ephemeral  a created presence node is not an ephemeral
                                  of the creating session
  registration-lost / -data-replaced
                                  reference table: a container whose create
                                  succeeded, that was not deleted (nor
                                  superseded by a newer container of the same
                                  instance on the same node) and whose session
                                  is alive has all its nodes with its data
  lost-wakeup / circular-wait     a create that was told to wait has an armed
                                  watch on a node of another live session, and
                                  the wait-for relation is acyclic
"""
import time

from mc import boundx
from mc import c17_ilv as ilv
from mc import c17_seq as seq

BUDGET = {'quick': 240, 'thorough': 600}

# The service keeps its state in insertion-ordered dicts and lists; nothing
# iterates a set or sorts by hash (fakezk: dicts only).
HASH_INSENSITIVE = True

ALL = ('xdel', 'expired', 'loss', 'loss-applied')
EXPIRY = ('expired',)     # both kinds of session expiry only
XDEL = ('xdel',)          # restart-expiry and the external deletion only

PLAN = {
    # ('stateless', config, max deviations, max preemption bound, env, weight)
    # ('states',    config, max deviations, env, weight)
    # env: the optional environment moves besides the process-killing expiry
    # (external deletion, faults on a call in flight).  A part may use
    # weight / (sum of the weights still to run) of the time that is left, so
    # time a part does not need goes to the later ones.
    'quick': {
        'parts': [('stateless', 'P6', 0, 2, ALL, 1),
                  ('stateless', 'P1', 0, 3, ALL, 1),
                  ('stateless', 'P1', 1, 1, ALL, 1),
                  ('states', 'P1', 1, ALL, 3),
                  ('states', 'P6', 0, ALL, 5),
                  ('states', 'P2', 1, ALL, 8)],
        'ep_len': 4,
    },
    'thorough': {
        'parts': [('stateless', 'P6', 0, 3, ALL, 1),
                  ('stateless', 'P6', 1, 1, ALL, 2),
                  ('stateless', 'P4', 1, 0, ALL, 2),
                  ('stateless', 'P2', 1, 2, ALL, 4),
                  ('stateless', 'P1', 0, 5, ALL, 4),
                  ('stateless', 'P1', 1, 2, ALL, 3),
                  ('states', 'P5', 2, ALL, 1),
                  ('states', 'P1', 2, ALL, 16),
                  ('states', 'P6', 0, ALL, 4),
                  ('states', 'P2', 1, ALL, 5),
                  ('states', 'P3', 1, ALL, 8),
                  ('states', 'P4', 0, ALL, 26),
                  ('states', 'P2', 2, EXPIRY, 36),
                  ('states', 'P3', 2, XDEL, 26)],
        'ep_len': 5,
    },
}

RULE = ('an execution is non-trivial when some create call of a request hit a '
        'node that exists and is owned by another live session (contended); '
        'executions in which two sessions operated on the '
        'same path are counted separately (both_sessions_same_path)')

ASSUMPTIONS = [
    'ZooKeeper is the in-memory fake mc.fakezk (single server, atomic calls, '
    'no ACL enforcement, no connection loss without expiry); everything above '
    'the kazoo client API is the real treadmill code',
    'a node is the single-threaded resource-service main loop: requests are '
    'handled one at a time; retry_request (a touch of the request link in '
    'production) is recorded and re-run later in FIFO order, interleaved '
    'arbitrarily with the program; a retry of a deleted request is dropped; '
    'watch callbacks run on a separate actor per session, in order',
    'session expiry kills the service process at that point; the restarted '
    'service has a new session, empty memory, and re-issues every live '
    'request in EVERY order (glob order of the request directory is '
    'arbitrary)',
    'successive containers of one instance on one host: the container with '
    'the higher generation is the newer one and supersedes the older one in '
    'the reference table from the moment its create request is issued',
    'a fault may land ON a ZooKeeper call in flight (counted deviation, same '
    'bound as expiry / external deletion): (a) the session expires - the '
    'call raises SessionExpiredError, the ephemerals vanish, and the SAME '
    'process and service memory carry on under a new session id with their '
    'DataWatch recipes re-armed (a kazoo client without the exit_on_lost '
    'listener that `treadmill sproc service presence` installs; with the '
    'listener the process dies, which is the other expiry deviation); (b) '
    'ConnectionLoss with the call not applied; (c) ConnectionLoss after a '
    'create/set/delete was applied.  The exception takes the real path: '
    'BaseResourceService._on_created/_on_deleted catch it and reply _error. '
    'kazoo.retry.KazooRetry keeps its policy but does not sleep',
    'one external deletion per execution (an administrator, own session); a '
    'node deleted externally is not expected back until its owner creates it '
    'again; a set/delete that hits another session\'s node because the node '
    'was deleted externally and re-created between the caller\'s ownership '
    'check and the call is counted (inherent_window_after_external_delete), '
    'not reported: ZooKeeper offers no conditional delete on the owner; '
    'lost-wakeup / circular-wait are reported only for executions without an '
    'external deletion',
    'alphabet: one instance, containers g1/g3 on host A, g2 on host B, g4 on '
    'host C (host names node1 / node10 / node100: each a proper string '
    'prefix of the next, also in the sequential sub-checks), one endpoint + '
    'one identity each (3 nodes per container); '
    'programs P1..P5 of mc.c17_ilv.CONFIGS',
    'EndpointPresence / _unschedule are checked sequentially only; their '
    'get-then-delete window is outside the statement',
]


def _viol_out(cfgname, max_dev, key, rec, xdel=True):
    clause, site = key
    choices = list(rec['best'][2])
    payload = {'kind': 'ilv', 'config': cfgname, 'max_dev': max_dev,
               'xdel': xdel, 'choices': choices, 'clause': clause,
               'site': site}
    obs = _observe(payload)
    if obs != _observe(payload):
        raise RuntimeError('non-deterministic replay of %r' % (payload,))
    if not any(v['clause'] == clause and v['site'] == site
               for v in obs['violations']):
        raise RuntimeError('violation %s/%s not reproduced by its schedule %r'
                           % (clause, site, payload))
    v = [x for x in obs['violations']
         if x['clause'] == clause and x['site'] == site][0]
    nodev = None
    if rec.get('best0') is not None:
        p0 = dict(payload, choices=list(rec['best0'][2]))
        o0 = _observe(p0)
        if any(x['clause'] == clause and x['site'] == site
               for x in o0['violations']):
            nodev = {'preemptions': rec['best0'][0],
                     'choices': p0['choices'], 'schedule': o0['labels']}
    return {'clause': clause, 'site': site,
            'detail': {'config': cfgname,
                       'without_environment_deviation': nodev,
                       'program': ilv.CONFIGS[cfgname]['nodes'],
                       'observed': v['detail'],
                       'at_step': v['step'],
                       'preemptions_plus_deviations': rec['best'][0],
                       'schedule': obs['labels']},
            'count': rec['count'], 'replay': payload}


def _observe(payload):
    tr = ilv.execute(payload['config'], bytes(payload['choices']),
                     payload['max_dev'], want_labels=True,
                     xdel=payload.get('xdel', True))
    return {'labels': tr.labels, 'violations': tr.violations,
            'final': repr(tr.final)}


def run(ctx):
    plan = PLAN['quick' if ctx.quick else 'thorough']
    budget = ctx.budget_s or BUDGET[ctx.tier]
    cov = {'caps_hit': [], 'samples': [], 'configs': {}}
    violations = {}
    tot = {'runs': 0, 'steps': 0, 'contended': 0, 'shared': 0, 'states': 0,
           'complete': 0}
    finals = set()
    exhaustive = True

    def note(cfgname, max_dev, res, env):
        for key, rec in res['violations'].items():
            out = _viol_out(cfgname, max_dev, key, rec, list(env))
            cur = violations.get(key)
            if cur is None:
                violations[key] = out
            else:
                n = cur['count'] + out['count']
                nd = [d for d in (cur['detail'].get('without_environment_'
                                                    'deviation'),
                                  out['detail'].get('without_environment_'
                                                    'deviation')) if d]
                nd = min(nd, key=lambda d: (d['preemptions'],
                                            len(d['choices']))) if nd else None
                if nd:
                    nd = dict(nd, config=nd.get('config') or (
                        cfgname if nd is out['detail'].get(
                            'without_environment_deviation')
                        else cur['detail']['config']))
                if (out['detail']['preemptions_plus_deviations'],
                        len(out['replay']['choices'])) < \
                        (cur['detail']['preemptions_plus_deviations'],
                         len(cur['replay']['choices'])):
                    violations[key] = cur = out
                cur['count'] = n
                cur['detail']['without_environment_deviation'] = nd

    t_end = time.perf_counter() + budget * 0.95

    # -- sequential sub-checks
    chunks = []
    for n in range(1, plan['ep_len'] + 1):
        if n <= 4:
            chunks += [('ep', n, (a,)) for a in range(len(seq.OPS))]
        else:
            chunks += [('ep', n, (a, b)) for a in range(len(seq.OPS))
                       for b in range(len(seq.OPS))]
    chunks.append(('unsched',))
    sw = boundx.sweep(chunks, seq.worker, workers=ctx.workers,
                      time_cap=budget * 0.12, ordered=False)
    cov['caps_hit'].extend(sw.caps_hit)
    if not sw.exhaustive:
        exhaustive = False
    for v in sw.violation_list():
        violations[(v['clause'], v['site'])] = v
    cov['sequential'] = {'cases': sw.cases, 'nontrivial': sw.nontrivial,
                         'counters': dict(sw.counters),
                         'endpoint_presence_max_len': plan['ep_len']}
    cov['samples'].extend(sw.samples[:3])

    parts = list(plan['parts'])
    weights = [p[-1] for p in parts]

    def cap_for(i):
        left = max(1.0, t_end - time.perf_counter())
        return left * weights[i] / float(sum(weights[i:]))

    # stateless rounds come first: they find the schedules with the fewest
    # preemptions
    for i, part in enumerate(parts):
        if part[0] == 'stateless':
            _kind, cfgname, max_dev, max_bound, env, _w = part
            res = ilv.explore(cfgname, max_dev, max_bound, ctx.workers,
                              cap_for(i), ctx.log, xdel=env)
            if res['caps_hit']:
                exhaustive = False
            cov['configs']['%s stateless dev<=%d' % (cfgname, max_dev)] = {
                'interleavings_explored': res['runs'],
                'schedules_by_preemptions': res['by_bound'],
                'preemption_bound_completed': res['bound_completed'],
                'unbounded': res['unbounded'],
                'planned_bound': max_bound,
                'not_expanded': res.get('not_expanded'),
                'with_environment_deviation': res['with_dev'],
                'contended': res['contended'],
                'both_sessions_same_path': res['shared'],
                'distinct_final_states': len(res['finals']),
                'longest_schedule': res['max_len'],
                'counters': res['counters'], 'wall_s': res['wall_s']}
        else:
            _kind, cfgname, max_dev, env, _w = part
            res = ilv.explore_states(cfgname, max_dev, ctx.workers,
                                     cap_for(i), ctx.log, xdel=env)
            tot['states'] += res['states']
            if not res['exhaustive']:
                exhaustive = False
            cov['configs']['%s state search dev<=%d' % (cfgname, max_dev)] = {
                'distinct_states': res['states'],
                'executions': res['runs'],
                'preemption_bound': 'unbounded' if res['exhaustive']
                else 'incomplete',
                'exhaustive': res['exhaustive'],
                'with_environment_deviation': res['with_dev'],
                'contended': res['contended'],
                'both_sessions_same_path': res['shared'],
                'distinct_final_states': len(res['finals']),
                'longest_schedule': res['max_len'],
                'states_expanded_twice': res['expanded_twice'],
                'counters': res['counters'], 'wall_s': res['wall_s']}
        cov['configs']['%s %s dev<=%d' % (
            cfgname, 'stateless' if part[0] == 'stateless' else 'state search',
            max_dev)]['environment_moves'] = ['expire+restart'] + list(env)
        note(cfgname, max_dev, res, env)
        tot['runs'] += res['runs']
        tot['steps'] += res['steps']
        tot['contended'] += res['contended']
        tot['shared'] += res['shared']
        tot['complete'] += res['complete_runs']
        finals |= {(cfgname, f) for f in res['finals']}
        cov['caps_hit'].extend(res['caps_hit'])

    # a few complete schedules, written out
    for cfgname in ('P1', 'P2'):
        for pre in ((), (1,), (0, 0, 0, 1)):
            try:
                tr = ilv.execute(cfgname, bytes(pre), 1, want_labels=True)
            except ilv.HarnessError:
                continue
            cov['samples'].append({'config': cfgname, 'choices': list(pre),
                                   'schedule': tr.labels})

    if not violations and (tot['shared'] == 0 or tot['contended'] == 0):
        raise RuntimeError('vacuous: no execution in which two sessions met '
                           'on a path (%r)' % (tot,))
    if not violations and sw.nontrivial == 0:
        raise RuntimeError('vacuous: sequential sub-checks never contested')

    cov.update({
        'states': tot['states'] + sw.cases,
        'transitions': tot['steps'],
        'traces_validated_against_impl': tot['runs'] + sw.cases,
        'executions': tot['runs'] + sw.cases,
        'evaluations': tot['runs'] + sw.cases,
        'distinct_nontrivial': tot['contended'],
        'both_sessions_same_path': tot['shared'],
        'interleavings_run_to_completion': tot['complete'],
        'distinct_final_states': len(finals),
        'rule': RULE,
        'exhaustive': exhaustive,
        'plan': [list(p[:-1]) for p in parts],
    })
    return {'coverage': cov, 'violations': list(violations.values()),
            'assumptions': ASSUMPTIONS}


def replay(ctx, data):
    if data.get('kind') == 'ilv':
        obs = _observe(data)
        if obs != _observe(data):
            raise RuntimeError('non-deterministic replay')
        ctx.log('schedule:\n  ' + '\n  '.join(obs['labels']))
        out = {}
        for v in obs['violations']:
            key = (v['clause'], v['site'])
            if key not in out:
                out[key] = {'clause': v['clause'], 'site': v['site'],
                            'detail': {'observed': v['detail'],
                                       'at_step': v['step'],
                                       'schedule': obs['labels']},
                            'count': 1, 'replay': data}
        vs = list(out.values())
        want = (data.get('clause'), data.get('site'))
        if want[0]:
            vs = [v for v in vs if (v['clause'], v['site']) == want] or vs
        return {'coverage': {}, 'violations': vs}
    return {'coverage': {}, 'violations': seq.replay(data)}
