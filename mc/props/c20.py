"""C20 - the app monitor converges to the target count without overshoot.

Explicit-state BFS (mc.statex) over histories of the real
`treadmill.sproc.appmonitor` - `reevaluate` and the real watch glue of
`_run_sync` (callbacks captured by running `_run_sync` on a tiny ZooKeeper
client, see mc/c20_model.py) - under a virtual clock and a fake REST client.
The children of /scheduled reach the real watch in a menu of orders.  Monitors
are created, updated (count only / policy only / both) and deleted through the
real `api.app_monitor` -> `masterapi.update_appmonitor / delete_appmonitor` ->
`zkutils.put` on that client, never by writing the node; the reference keeps
the (count, policy) the user configured last.  From
every reached state two scripted continuations are executed as well: a *drain*
(all instances die, evaluate with a succeeding API, 2*max+2 times) and a
*convergence* run (+1 h, three succeeding evaluations, then instances ==
target).

HASH_INSENSITIVE: `reevaluate` iterates `monitors` (a dict, insertion order)
and one set difference (`suspended` keys minus `monitors` keys) whose elements
are only popped from a dict - the order cannot influence any request or the
token state.  The real `_appmonitors_watch` iterates `missing` (a set): the
harness adds monitors one at a time, and the restart event (the only place
where several could be loaded at once) exists in the single-monitor
configuration only.  One hash seed is enough.
"""
import collections

from mc import statex
from mc import c20_model as m

BUDGET = {'quick': 240, 'thorough': 900}
HASH_INSENSITIVE = True

A, B = 'p.app', 'p.app2'

RULE = ('an evaluation is non-trivial when reevaluate issued at least one REST '
        'request (create or bulk delete); rate-limited, suspended and failed '
        'requests are counted separately in nontrivial_counters')

ASSUMPTIONS = [
    'the watch glue of _run_sync is the real code: every world runs the real '
    '_run_sync(once=True) on a tiny in-memory ZooKeeper client (ChildrenWatch '
    'decorator that captures and calls the nested callbacks, one-shot data '
    'watches under the real zkwatchers.ExistingDataWatch, get); reevaluate is '
    'a capturing stub for that one start-up call only, time.sleep is a no-op, '
    'utils.sys_exit raises instead of killing the worker; the harness then '
    'delivers children / data watch events to the real callbacks and calls '
    'the real reevaluate on the state dict of that closure',
    'ZooKeeper lists the children of /scheduled in no particular order: the '
    'evaluation events exist with the children delivered sorted, reversed and '
    'interleaved (first, then the rest backwards), the latter two whenever an '
    'application has at least two instances; a deleted monitor delivers its '
    'data watch before the children watch',
    'the scheduled view is up to date at every evaluation: instances created '
    'by an accepted request are visible at the next evaluation, deleted ones '
    'are gone (watch lag is outside the statement)',
    'monitors are configured by the real treadmill.api.app_monitor.API() '
    'create / update / delete (called through __wrapped__: the schema '
    'decorator cannot run here, so payloads are kept inside appmonitor.json '
    'by the menu: count 0..3, policy fifo / lifo, update payloads {count}, '
    '{policy}, {count, policy}) over the real masterapi.update_appmonitor / '
    'get_appmonitor / delete_appmonitor and zkutils.put / get / '
    'ensure_deleted; the tiny client implements create / set / delete / get '
    '/ get_children / exists / set_acls with synchronous watch delivery '
    '(children watch on create, data watch on set, data then children watch '
    'on delete).  A key that is absent from an update payload means "leave '
    'it": the reference policy / count is what the user configured last.  A '
    'null policy inside a payload is not in the menu (the API cannot tell it '
    'from an absent key, the statement does not say what it means); a policy '
    'outside the schema ("bogus") is stored by calling '
    'masterapi.update_appmonitor directly.  The admin CLI (treadmill admin '
    'master monitor configure) cannot be imported here (kerberos) and is not '
    'driven',
    'the site of a violation is reevaluate/... unless the monitor node stored '
    'in ZooKeeper differs from what the user configured (count, or policy '
    'with None == fifo): then it names the last configuration request, e.g. '
    'api.app_monitor.update(count)/stored-policy-differs; the verdict itself '
    'never looks at the stored node',
    'fake restclient.post answers ok / NotFoundError / BadRequestError / '
    'ValidationError / generic Exception as the event says; an ok create makes '
    'exactly the requested number of instances with increasing 10-digit ids, '
    'an ok bulk delete removes the listed instances; zkutils.update and '
    'alert_f are recorders',
    'virtual clock: time.time() = base + L + k*2^-19, L moves only by the '
    'tick events (1 s, 15 min, 1 h); token amounts are therefore whole-second '
    'multiples plus sub-millisecond noise and never sit within rounding '
    'distance below an integer (DESIGN 2.1)',
    'reference budget: continuous token bucket, capacity 2*count, refill '
    '2*count per hour, starts full when the monitor is (re)configured, '
    'decremented by successful creations only; "suspended" is what the '
    'monitor itself recorded in state[suspended] before the evaluation',
    'for a policy other than fifo/lifo/None the statement fixes no deletion '
    'order: only "no more than the surplus, existing instances" is demanded',
    'canonical state drops sub-second clock noise and instance ids (only the '
    'number of instances per app and their age order matter)',
]


class MonSpec(statex.Spec):
    exception_clause = 'evaluation-raised'

    def __init__(self, cfg):
        self.cfg = cfg

    def new_world(self):
        return m.MonWorld(self.cfg)

    def apply(self, world, event):
        world.apply(tuple(event))

    def enabled(self, world):
        return world.enabled()

    def canon(self, world):
        return world.canon()

    def probe(self, hist):
        viol = []
        stats = collections.Counter()
        for kind, suffix in (('drain', m.drain_suffix(self.cfg)),
                             ('converge', m.converge_suffix(self.cfg))):
            w = statex.build(self, hist)
            before = collections.Counter(w.stats)
            for i, ev in enumerate(suffix):
                mark = len(w.viol)
                ok, exc = statex.step(self, w, ev)
                new = [dict(v) for v in w.viol[mark:]]
                if not ok:
                    new.append({'clause': self.exception_clause,
                                'site': exc['site'], 'detail': exc})
                for v in new:
                    v['suffix'] = [list(e) for e in suffix[:i + 1]]
                    viol.append(v)
                if new:
                    break
                if kind == 'drain' and ev[0] == 'eval' and not w.calls:
                    # nothing was asked for and the oracle did not object:
                    # every instance is gone and no budget is left (or the
                    # monitor is suspended / deleted); no time passes in the
                    # drain, so further rounds would repeat this one
                    break
            delta = collections.Counter(w.stats)
            delta.subtract(before)
            stats['probe_%s_runs' % kind] += 1
            stats['probe_evals'] += delta.get('evals', 0)
            stats['probe_%s_creates' % kind] += delta.get('create_requests', 0)
            stats['probe_rate_limited'] += delta.get('rate_limited', 0)
        return viol, dict(stats)


def _cfg_single(tier):
    cfg = {
        'names': [A],
        'answers': [(a,) for a in m.ANSWERS],
        'ticks': [1, 900, 3600],
        'counts': [0, 1, 2, 3],
        'max_instances': 4,
        'delete': True,
        'restart': tier == 'thorough',
        'orders': ['reversed', 'interleaved'],
        'order_answers': [('ok',)] if tier == 'quick'
        else [('ok',), ('boom',)],
        'policies': ['fifo', 'lifo'],
        'full_updates': True,
    }
    roots = [(('mon', A, c, p),) for p in (None, 'fifo', 'lifo', 'bogus')
             for c in (0, 1, 2, 3)]
    return cfg, roots


def _cfg_pair(tier):
    cfg = {
        'names': [A, B],
        'answers': [('ok',), ('404',), ('boom',), ('ok', '404'), ('404', 'ok')],
        'ticks': [1, 3600] if tier == 'quick' else [1, 900, 3600],
        'counts': [1, 2] if tier == 'quick' else [0, 1, 3],
        'max_instances': 3,
        'delete': True,
        'restart': False,
        'orders': ['reversed'] if tier == 'quick'
        else ['reversed', 'interleaved'],
        'order_answers': [('ok',)],
        'policies': ['fifo', 'lifo'],
        'full_updates': tier != 'quick',
    }
    roots = []
    for (c1, c2) in ((1, 2), (2, 1), (3, 0)):
        for (p1, p2) in ((None, 'lifo'), ('lifo', 'bogus')):
            roots.append((('mon', A, c1, p1), ('mon', B, c2, p2)))
    return cfg, roots


def _cfg_suspension(tier):
    """Several evaluations INSIDE the five-minute suspension that follows a
    handled API error, with the bucket drained before: what the budget is
    worth when the suspension ends."""
    cfg = {
        'names': [A],
        'answers': [('ok',), ('404',)],
        'ticks': [100, 150] if tier == 'quick' else [1, 100, 150, 900],
        'counts': [3],
        'max_instances': 6,
        'delete': False,
        'restart': False,
        'orders': [],
        'order_answers': [('ok',)],
        'policies': [],
        'full_updates': False,
    }
    roots = [(('mon', A, 3, None),)]
    return cfg, roots


def configs(ctx):
    if ctx.quick:
        return [('single', _cfg_single('quick'), 6, 0.5),
                ('pair', _cfg_pair('quick'), 4, 0.35),
                ('suspension', _cfg_suspension('quick'), 8, 0.15)]
    return [('single', _cfg_single('thorough'), 8, 0.5),
            ('pair', _cfg_pair('thorough'), 5, 0.35),
            ('suspension', _cfg_suspension('thorough'), 9, 0.15)]


NONTRIVIAL = ['evals_with_request', 'create_requests', 'delete_requests',
              'rate_limited_total', 'suspended_skips', 'instances_created',
              'instances_deleted',
              # scale-downs whose policy was configured in an EARLIER request
              # than the count they work towards, per policy
              'deletes_after_count_only_update_lifo',
              'deletes_after_count_only_update_fifo',
              'deletes_after_policy_only_update_lifo',
              'deletes_after_policy_only_update_fifo']


def observe(spec, hist):
    w = spec.new_world()
    excs = []
    for ev in hist:
        ok, exc = statex.step(spec, w, tuple(ev))
        if not ok:
            excs.append((spec.exception_clause, exc['site']))
            w.viol.append({'clause': spec.exception_clause,
                           'site': exc['site'], 'detail': exc})
            break
    keys = sorted({(v['clause'], v['site']) for v in w.viol})
    return keys, statex.digest(spec.canon(w)), w


def confirm(spec, hist, clause, site):
    o1 = observe(spec, hist)
    o2 = observe(spec, hist)
    if o1[:2] != o2[:2]:
        raise statex.HarnessError('non-deterministic replay of %r' % (hist,))
    if (clause, site) not in o1[0]:
        raise statex.HarnessError(
            'violation %s/%s not reproduced by replay of %r (got %r)'
            % (clause, site, hist, o1[0]))


def bisim_check(spec, roots, depth):
    """Validate the canonical key: every pair of distinct histories of length
    <= depth (beyond the root) that the key merges must offer the same menu and
    merge again after every event (exhaustive on those levels, no dedup)."""
    def succ(h, ev):
        w = statex.build(spec, h)
        mark = len(w.viol)
        ok, exc = statex.step(spec, w, ev)
        keys = sorted({(v['clause'], v['site']) for v in w.viol[mark:]})
        if not ok:
            return ('exc', exc['site'], exc['type']), keys
        return statex.digest(spec.canon(w)), keys

    level = [tuple(r) for r in roots]
    hists = list(level)
    for _ in range(depth):
        nxt = []
        for h in level:
            w = statex.build(spec, h)
            nxt.extend(h + (ev,) for ev in spec.enabled(w))
        hists.extend(nxt)
        level = nxt
    groups = {}
    for h in hists:
        groups.setdefault(statex.digest(spec.canon(statex.build(spec, h))),
                          []).append(h)
    pairs = 0
    for hs in groups.values():
        if len(hs) < 2:
            continue
        a, b = hs[0], hs[-1]
        menu = spec.enabled(statex.build(spec, a))
        if menu != spec.enabled(statex.build(spec, b)):
            raise statex.HarnessError('canonical key merges states with '
                                      'different menus: %r / %r' % (a, b))
        for ev in menu:
            if succ(a, ev) != succ(b, ev):
                raise statex.HarnessError(
                    'canonical key is too coarse: %r and %r merge but differ '
                    'after %r' % (a, b, ev))
        pairs += 1
    return {'histories': len(hists), 'merged_groups_checked': pairs,
            'depth': depth}


def sample_trace(cfg, hist):
    """One history executed for real, with the requests each evaluation made."""
    spec = MonSpec(cfg)
    w = spec.new_world()
    steps = []
    for ev in hist:
        spec.apply(w, ev)
        if ev[0] == 'eval':
            steps.append({
                'event': list(ev),
                'requests': [[c['url'], c['payload'].get('instances')
                              if c['payload'] else None, c['answer']]
                             for c in w.calls],
                'instances_after': {n: len(v) for n, v in w.inst.items()},
                'tokens_after': {n: round(c['available'], 4)
                                 for n, c in w.state['monitors'].items()},
                'suspended': sorted(w.state['suspended'])})
        else:
            steps.append({'event': list(ev)})
    return {'history_with_observations': steps, 'violations': len(w.viol)}


def run(ctx):
    cov = {'states': 0, 'transitions': 0, 'samples': [], 'caps_hit': [],
           'configs': {}, 'exhaustive': True, 'nontrivial_counters': {}}
    violations = []
    for name, (cfg, roots), depth, share in configs(ctx):
        spec = MonSpec(cfg)
        bisim = bisim_check(spec, roots, 2 if ctx.quick else 3)
        ctx.log('%s: canonical key check %r' % (name, bisim))
        res = statex.bfs(spec, depth, max_dev=0, workers=ctx.workers,
                         time_cap=ctx.budget_s * share * 0.9,
                         progress=ctx.log, init_histories=roots, chunk=32)
        probe_evals = res.stats.get('probe_evals', 0)
        cov['states'] += res.states
        cov['transitions'] += res.transitions
        cov['configs'][name] = {
            'roots': len(roots), 'depth_requested': depth,
            'depth_completed': res.depth_completed,
            'history_length_completed': res.depth_completed + len(roots[0]),
            'states': res.states, 'transitions': res.transitions,
            'level_sizes': res.level_sizes,
            'space_exhausted': res.exhausted,
            'events_menu': {k: cfg[k] for k in
                            ('names', 'answers', 'ticks', 'counts',
                             'max_instances', 'delete', 'restart',
                             'orders', 'order_answers', 'policies',
                             'full_updates')},
            'probes_from_every_state': ['drain', 'converge'],
            'canonical_key_bisimulation_check': bisim,
            'final_level_probed': bool(getattr(res, 'final_probe_pass',
                                               False)) or res.exhausted,
            'probe_evaluations': probe_evals,
            'wall_s': round(res.wall_s, 1),
        }
        if res.caps_hit or res.depth_completed < depth and not res.exhausted:
            cov['exhaustive'] = False
        cov['caps_hit'].extend('%s: %s' % (name, c) for c in res.caps_hit)
        for k, v in res.stats.items():
            cov['nontrivial_counters'][k] = \
                cov['nontrivial_counters'].get(k, 0) + v
        for s in res.samples[-2:]:
            cov['samples'].append({'config': name, 'history': s})
        for v in res.violations.values():
            confirm(spec, v['history'], v['clause'], v['site'])
            violations.append({
                'clause': v['clause'], 'site': v['site'],
                'detail': v['detail'], 'count': v['count'],
                'replay': {'config': name, 'history': v['history']},
            })
    cov['samples'][:0] = [
        sample_trace(_cfg_single(ctx.tier)[0], [
            ('mon', A, 2, 'lifo'), ('eval', 'ok'), ('die', A, 'old'),
            ('eval', '404'), ('tick', 900), ('extra', A), ('extra', A),
            ('eval', 'ok'), ('cnt', A, 1), ('eval', 'ok')]),
        sample_trace(_cfg_single(ctx.tier)[0], [
            ('mon', A, 1, None), ('eval', 'ok'), ('die', A, 'old'),
            ('eval', 'ok'), ('die', A, 'old'), ('eval', 'ok'),
            ('tick', 900), ('eval', 'ok'), ('tick', 900), ('eval', 'boom'),
            ('eval', 'ok')]),
    ]
    cnt = cov['nontrivial_counters']
    cov['depth_completed'] = min(c['depth_completed']
                                 for c in cov['configs'].values())
    cov['evaluations'] = cnt.get('evals', 0) + cnt.get('probe_evals', 0)
    cov['executions'] = cov['transitions']
    cov['traces_validated_against_impl'] = cov['transitions'] + \
        cnt.get('probe_drain_runs', 0) + cnt.get('probe_converge_runs', 0)
    cov['distinct_nontrivial'] = cnt.get('evals_with_request', 0)
    cov['rule'] = RULE
    cnt['rate_limited_total'] = cnt.get('rate_limited', 0) + \
        cnt.get('probe_rate_limited', 0)
    if not violations:
        # a silent run in which an antecedent never fired proves nothing
        for k in NONTRIVIAL:
            if cnt.get(k, 0) == 0:
                raise statex.HarnessError('vacuous run: counter %s is 0' % k)
    return {'coverage': cov, 'violations': violations,
            'assumptions': ASSUMPTIONS}


def replay(ctx, data):
    cfgs = {name: cfg for name, (cfg, _r), _d, _s in configs(ctx)}
    spec = MonSpec(cfgs[data['config']])
    hist = [tuple(e) for e in data['history']]
    k1, d1, w = observe(spec, hist)
    k2, d2, _w = observe(spec, hist)
    if (k1, d1) != (k2, d2):
        raise statex.HarnessError('non-deterministic replay')
    seen = {}
    for v in w.viol:
        seen.setdefault((v['clause'], v['site']), v)
    return {'coverage': {}, 'violations': [
        {'clause': c, 'site': s, 'detail': v['detail']}
        for (c, s), v in seen.items()]}
