"""C18 - archiving trace history never loses or prematurely archives events.

Bounded-exhaustive sweep (mc.boundx) of populations of trace shards, finished
records, server-trace shards and history directories on the fake ZooKeeper;
the real archiver (treadmill.trace.app.zk / trace.server.zk / trace._zk) is
run to completion, then killed before each of its ZooKeeper writes in turn
(fakezk.Crash from the tree hook) and re-run on the cut state, then run with
each write in turn failing once with kazoo ConnectionLoss (error flavour) and
re-run.  Every produced
snapshot is inflated and opened with sqlite3 by the harness, and the real
`download_batch` is asked for every record that left the live tree.

Further slices: per-instance {scheduled} x {has a /finished node} for the
cleanup_trace and cleanup_finished sweeps; two cycles in one process with an
instance scheduled in between; a size menu for the upload -> download round
trip (snapshots from 45 KB to > 16 MiB uncompressed, thorough).

Oracle (only what the statement says):
  * conservation - at every cut, after every failed write, after every
    re-run, at the end and after a
    second run one hour later, every event / finished record that existed
    before is a live node or is returned by download_batch from some snapshot
    (finished records: a row with the same data, and named by list_traces);
  * nothing premature - events of still-scheduled instances and events /
    records whose timestamp is not older than now - expiry are still live;
  * pruning keeps the lexicographically greatest max_count snapshots, at every
    cut of the pruning run too, and touches no live record.

HASH_INSENSITIVE: the code under test iterates lists returned by
get_children (order owned by the harness: a menu), sorts tuples of
(float, str, str) with a total order and tests membership in a list; it never
iterates a set or dict keyed by strings, so the string hash seed cannot
influence it.
"""
import collections

from mc import boundx
from mc import c18_world as w

BUDGET = {'quick': 240, 'thorough': 840}
HASH_INSENSITIVE = True

RULE = ('one case = one population x batch size x pre-existing snapshots '
        '(x child order), run to completion + cut before every ZooKeeper '
        'write + re-run + every write failing once with ConnectionLoss + '
        're-run + a later run; a case is non-trivial when the full '
        'run moved at least one record out of the live tree '
        '(cases_with_archived_records); pruning cases are non-trivial when '
        'the history held more than max_count snapshots')

ASSUMPTIONS = [
    'fake ZooKeeper mc/fakezk.py (kazoo semantics pinned by '
    'selftest/fakezk_test.py); writes are atomic and ordered, one archiver '
    'session (the production archiver runs under a lock); kill = the process '
    'stops before its k-th create/set/delete reaches ZooKeeper',
    'one case = one archiver process: functools.lru_cache objects found in '
    'the treadmill.trace modules are cleared at case start only (none exist '
    'on the unchanged tree); within a case the modules are not reloaded; the '
    'second-cycle slice of the trace family runs cleanup_trace twice through '
    'the same client object and schedules an instance with a full batch of '
    'old events in between',
    'error = exactly one write of the run raises kazoo ConnectionLoss (quick: '
    'request lost, not applied; thorough also: applied but reply lost), all '
    'later requests succeed; a kazoo exception that the code lets propagate '
    'ends that run (the sproc would exit), then the archiver runs again; '
    'KazooRetry back-off sleeps are instantaneous; SessionExpired and '
    'multi-failure runs are not enumerated',
    'virtual clock of mc/vclock read without the per-call tick: time.time() '
    'is constant within one archiver run (so "exactly at the expiry" is a '
    'well-defined boundary) and moves by whole seconds between runs; ZooKeeper '
    'mtime of finished records is assigned by the harness in whole ms',
    'get_children order is a harness menu (insertion / reversed / rotated) '
    'for finished, server-trace and pruning cases; cleanup_trace sorts with a '
    'total order, so only insertion order is used there',
    'a trace event is identified by its node path/name; the node payload is '
    'not compared (upload_batch stores data=None for trace events by design); '
    'finished records are compared with their data',
    'sqlite scratch files live in a run-private directory (tempfile.tempdir); '
    'download_batch is memoised on (snapshot bytes, table, object name)',
    'size slice: event names are synthetic (padded data field); the '
    'ZooKeeper 1 MB node limit is not modelled (the padded names compress '
    'well); sizes stated are of the uncompressed sqlite file produced by the '
    'real upload_batch; retrieval = the real download_batch, which is what '
    'AppTraceLoop/ServerTraceLoop use to read history; an exception from '
    'download_batch is reported as snapshot-download-failed',
    'bounds: 2 shards, 2-3 instances, <= 3 events each, ages {well old, just '
    'older, exactly at, just younger}, batch {1,2,3}, 0-2 pre-existing '
    'snapshots, max_count {1,2,3}; menus in coverage.menus',
]

CHUNK = 24


_CASES = {}


def _cases(tier):
    if tier not in _CASES:          # built in the parent, inherited by fork
        cases = w.menus(tier)
        cases.sort(key=w.case_size)
        _CASES[tier] = cases
    return _CASES[tier]


def _variants(tier):
    return ('lost',) if tier == 'quick' else ('lost', 'applied')


def _worker(chunk):
    tier, lo, hi = chunk
    cases = _cases(tier)[lo:hi]
    w.ERROR_VARIANTS['list'] = _variants(tier)
    w.install_clock()
    w.install_retry()
    w.scratch_begin()
    cnt = collections.Counter()
    viols = {}
    samples = []
    nontrivial = 0
    try:
        for case in cases:
            out, stats = w.run_case(case)
            cnt.update(stats)
            cnt['cases_' + case['family']] += 1
            nt = bool(stats.get('cases_with_archived_records') or
                      stats.get('prunes_with_excess'))
            if nt:
                nontrivial += 1
            for v in out:
                key = (v['clause'], v['site'])
                if key not in viols:
                    viols[key] = dict(v, count=1, size=w.case_size(case),
                                      replay={'case': w.describe(case),
                                              'variants': list(
                                                  _variants(tier)),
                                              'clause': v['clause'],
                                              'site': v['site']})
                else:
                    viols[key]['count'] += 1
            if nt and len(samples) < 1 and case['family'] in 'TFS' and \
                    stats.get('cuts', 0) >= 3:
                samples.append({'case': w.describe(case),
                                'archiver_writes_of_the_full_run':
                                    w.LAST.get('archive_log'),
                                'writes': stats.get('writes'),
                                'cuts': stats.get('cuts'),
                                'records_checked':
                                    stats.get('records_checked')})
    finally:
        w.scratch_end()
    return {'cases': len(cases), 'nontrivial': nontrivial,
            'states': len(cases), 'violations': list(viols.values()),
            'samples': samples, 'counters': dict(cnt)}


def _confirm(v):
    """Re-run the case twice in fresh state; identical observations or die."""
    case = w.undescribe(v['replay']['case'])
    w.ERROR_VARIANTS['list'] = tuple(v['replay'].get('variants',
                                                     ('lost', 'applied')))
    obs = []
    for _ in range(2):
        w._BASES.clear()
        w._ROWS.clear()
        w._DL.clear()
        out, _stats = w.run_case(case)
        obs.append(sorted((o['clause'], o['site'], repr(o['detail']))
                          for o in out))
    if obs[0] != obs[1]:
        raise w.HarnessError('non-deterministic case %r' % (v['replay'],))
    if (v['clause'], v['site']) not in {(c, s) for c, s, _d in obs[0]}:
        raise w.HarnessError('violation not reproduced: %r' % (v['replay'],))


def run(ctx):
    w.run_root_begin()
    try:
        return _run(ctx)
    finally:
        w.run_root_end()


def _run(ctx):
    tier = ctx.tier
    cases = _cases(tier)
    nz = sum(1 for cs in cases if cs['family'] == 'Z')   # sorted first
    chunks = [(tier, i, i + 1) for i in range(nz)] + \
        [(tier, lo, min(len(cases), lo + CHUNK))
         for lo in range(nz, len(cases), CHUNK)]
    res = boundx.sweep(chunks, _worker, workers=ctx.workers,
                       time_cap=ctx.budget_s * 0.85)
    c = res.counters
    ctx.log('swept %d/%d chunks, %d cases, %d runs, %d cuts, %.1fs'
            % (res.chunks_done, res.chunks_total, res.cases,
               c.get('runs', 0), c.get('cuts', 0), res.wall_s))
    if not res.violations and (res.nontrivial == 0 or not c.get('cuts') or \
            not c.get('records_gone_from_live') or \
            not c.get('cases_with_records_kept_live') or \
            not c.get('prunes_with_excess') or \
            not c.get('error_points') or \
            not c.get('error_runs_aborted') or \
            not c.get('second_cycle_checks') or \
            not c.get('size_cases_above_4MiB') or \
            not c.get('size_cases_compressed_above_1MiB') or \
            (tier != 'quick' and not c.get('size_cases_above_16MiB'))):
        raise w.HarnessError('vacuous run: %r' % dict(c))
    violations = []
    w.install_clock()
    w.install_retry()
    w.scratch_begin()
    try:
        for v in sorted(res.violation_list(), key=lambda x: x['size']):
            _confirm(v)
            v = dict(v)
            v.pop('size', None)
            violations.append(v)
    finally:
        w.scratch_end()
    fam = collections.Counter(cs['family'] for cs in cases)
    cov = {
        'states': res.cases,
        'transitions': c.get('writes', 0) + c.get('cuts', 0) +
        c.get('error_points', 0),
        'executions': c.get('runs', 0),
        'traces_validated_against_impl': c.get('runs', 0),
        'evaluations': c.get('records_checked', 0) + c.get('prune_checks', 0),
        'distinct_nontrivial': res.nontrivial,
        'rule': RULE,
        'samples': res.samples[:6],
        'exhaustive': res.exhaustive,
        'caps_hit': res.caps_hit,
        'crash_points': c.get('cuts', 0) + c.get('error_points', 0),
        'kill_points': c.get('cuts', 0),
        'error_points': c.get('error_points', 0),
        'error_variants': list(_variants(tier)),
        'counters': dict(c),
        'chunks': [res.chunks_done, res.chunks_total],
        'menus': {
            'cases_per_family': dict(fam),
            'T': 'instances %s (third shares a shard with the first): '
                 'scheduled {F,T} x multiset of <= %d events over ages '
                 '%s; batch {1,2,3}; pre-existing snapshots {0,1,2}; '
                 'then cleanup_trace_history max_count {1,2} when batch=1'
                 % (list(w.INSTANCES), 2 if tier == 'quick' else 3,
                    list(w.AGES)),
            'T+finished': 'two instances, each independently scheduled '
                          '{F,T} x has a /finished node {F,T} (at least one '
                          'has) x multiset of <= %d events; batch {1,2,3}; '
                          'snapshots {0,1}; oracle unchanged (events of '
                          'scheduled instances stay live whatever /finished '
                          'says)' % (1 if tier == 'quick' else 2),
            'F': 'three instances x finished record {none,W,O,E,Y}; batch '
                 '{1,2,3}; snapshots {0,1,2}; child order menu; plus every '
                 'instance independently scheduled {F,T} (at least one; '
                 'insertion order, no snapshots)',
            'Z': 'upload -> download round trip of one batch, (events, name '
                 'length, stated lower bound MiB): %s; measured uncompressed '
                 'sizes in counters.size_uncompressed_bytes_*; no cuts'
                 % (w.SIZE_MENU['quick' if tier == 'quick' else 'thorough'],),
            'S': 'servers %s x multiset of <= %d events over 3 timestamps; '
                 'batch {1,2,3}; snapshots {0,1,2}'
                 % (list(w.SERVERS), 2 if tier == 'quick' else 3),
            'H': 'kind {trace,finished,server} x 0-4 snapshots x one gap x '
                 'max_count {1,2,3} x child order {ins,rev,rot}',
            'expires_s': w.EXPIRES, 'just': w.EPS,
        },
    }
    return {'coverage': cov, 'violations': violations,
            'assumptions': ASSUMPTIONS}


def replay(ctx, data):
    w.run_root_begin()
    try:
        return _replay(data)
    finally:
        w.run_root_end()


def _replay(data):
    case = w.undescribe(data['case'])
    w.ERROR_VARIANTS['list'] = tuple(data.get('variants', ('lost', 'applied')))
    w.install_clock()
    w.install_retry()
    w.scratch_begin()
    try:
        runs = []
        for _ in range(2):
            w._BASES.clear()
            w._ROWS.clear()
            w._DL.clear()
            out, _stats = w.run_case(case)
            runs.append(out)
    finally:
        w.scratch_end()
    key = [sorted((o['clause'], o['site'], repr(o['detail'])) for o in r)
           for r in runs]
    if key[0] != key[1]:
        raise w.HarnessError('non-deterministic replay')
    seen = {}
    for o in runs[0]:
        if data.get('clause') and (o['clause'], o['site']) != \
                (data['clause'], data['site']):
            continue
        k = (o['clause'], o['site'])
        if k not in seen:
            seen[k] = dict(o, count=1)
        else:
            seen[k]['count'] += 1
    return {'coverage': {}, 'violations': list(seen.values())}
