"""C03 - placements honour partition, traits, server state, lease."""
from mc.props import _cellprop
from mc.props import _masterprop
from mc.worlds import cellcfg, cellmon, mastercfg, mastermon
from mc.worlds.cellcfg import T1

BUDGET = {'quick': 600, 'thorough': 2400}
DAY = 24 * 3600


def _k2():
    cfg = cellcfg.k2()
    cfg['monitors'] = [cellmon.mon_c03]
    cfg['templates']['once'] = {'prio': 50, 'demand': [2, 2, 2], 'aff': 'o',
                                'alloc': 'a', 'once': True}
    # the same allocation name in the other partition
    cfg['allocs']['a2'] = {'partition': 'p2', 'path': 'a', 'variants': [
        {'rank': 100, 'traits': T1}]}
    cfg['events'] = cellcfg.ev(
        ('add', 'pl'), ('add', 't1'), ('add', 'p2'), ('add', 't2'),
        ('add', 'hi'), ('add', 'once'), ('move', 2, 'b'), ('move', 0, 'a2'),
        ('rm', 0), ('prio', 0, 100), ('move', 0, 'b'), ('move', 1, 'b'),
        ('move', 0, 'a'),
        ('down', 's0'), ('up', 's0'), ('frz', 's1', -1), ('up', 's1'),
        ('srm', 's0'), ('sadd', 's0', 0), ('sadd', 's0', 1),
        ('srm', 's1'), ('sadd', 's1', 1),
        ('alloc', 'a', 1), ('alloc', 'a', 0), ('alloc', 'b', 1), ('noop',),
    )
    return cfg


def _k5():
    cfg = cellcfg.k5()
    cfg['monitors'] = [cellmon.mon_c03]
    cfg['idgroups'] = {}
    cfg['allow_nocycle'] = False
    cfg['events'] = cellcfg.ev(
        ('add', 'l1'), ('add', 'l7'), ('add', 'nl'), ('add', 'hi'),
        ('rm', 0), ('prio', 1, 100), ('renew', 0), ('renew', 1),
        ('down', 's1'), ('up', 's1'), ('frz', 's1', -1),
        ('tick', DAY // 2), ('tick', DAY), ('tick', 3 * DAY), ('noop',),
    )
    return cfg


def _m2():
    """World B: re-assignment / label / trait changes through the real
    allocations and servers events (Loader.reload_server, load_allocations)."""
    cfg = mastercfg.m2()
    cfg['cellmonitors'] = [cellmon.mon_c03]
    cfg['monitors'] = [mastermon.mon_c03_zk]
    # the records carry the node's boot time, as published by a real node;
    # an admin changing partition / traits leaves it alone
    from mc.vclock import BASE
    for spec in cfg['servers'].values():
        for var in spec['variants']:
            var['up_since'] = int(BASE) - 3600
    cfg['templates']['once'] = {'memory': '2M', 'cpu': '2%', 'disk': '2M',
                                'affinity': 'o', 'schedule_once': True}
    cfg['events'] = mastercfg.ev(
        ('app+', 'pl'), ('app+', 't1'), ('app+', 'tx'), ('app+', 'hi'),
        ('app+', 'once'),
        ('app-', 0),
        ('alloc', 1), ('alloc', 2), ('alloc', 3), ('alloc', 4), ('alloc', 0),
        ('srv', 's0', 1), ('srv', 's0', 2), ('srv', 's0', 0),
        ('srv', 's1', 1), ('srv', 's1', 0),
        ('pres-', 's0'), ('pres+', 's0', 1), ('pres+', 's0', 0),
        ('state', 's1', 'frozen', -1), ('state', 's1', 'up', -1),
        ('noop',), ('restart',),
    )
    return cfg


def _m2t():
    """As M2, but trait t1 is not listed in /traits: its code is learned from
    the server records only (Loader.load_server, add_new=True) and has to
    survive every later allocations / servers event."""
    cfg = _m2()
    cfg['traits'] = ['t2']
    # s0's record introduces two unlisted traits at once, s1 offers only the
    # second of them
    cfg['servers']['s0']['variants'][0]['traits'] = ['u1', 'u2']
    cfg['servers']['s1']['variants'][0]['traits'] = ['t1', 'u2']
    cfg['templates']['u1'] = {'memory': '3M', 'cpu': '3%', 'disk': '3M',
                              'affinity': 'u', 'traits': ['u1']}
    cfg['events'] = mastercfg.ev(
        ('app+', 'pl'), ('app+', 't1'), ('app+', 'u1'), ('app-', 0),
        ('pres-', 's0'), ('alloc', 5),
        ('alloc', 1), ('alloc', 2), ('alloc', 0),
        ('srv', 's0', 1), ('srv', 's0', 2), ('srv', 's0', 0),
        ('srv', 's1', 1), ('srv', 's1', 0),
        ('noop',), ('restart',),
    )
    return cfg


def _m2f():
    """A frozen server loses its presence, its node comes back with a
    record that no longer offers the trait, and it is unfrozen."""
    cfg = mastercfg.m2()
    cfg['cellmonitors'] = [cellmon.mon_c03]
    cfg['monitors'] = [mastermon.mon_c03_zk]
    cfg['allow_nocycle'] = False
    cfg['events'] = mastercfg.ev(
        ('app+', 't1'),
        ('state', 's1', 'frozen', -1), ('state', 's1', 'up', -1),
        ('pres-', 's1'), ('pres+', 's1', 1), ('pres+', 's1', 0),
        ('noop',),
    )
    return cfg


def _m2b():
    """Several admin events of DIFFERENT kinds in one /events notification:
    a server is created and frozen before the master handles either event
    (the handlers must run in the order the events were issued)."""
    cfg = mastercfg.m2()
    cfg['cellmonitors'] = [cellmon.mon_c03]
    cfg['monitors'] = [mastermon.mon_c03_zk]
    cfg['servers']['s1']['initial'] = False
    cfg['allow_late'] = True
    cfg['allow_nocycle'] = False
    cfg['late_kinds'] = ('srv+', 'state', 'srv')
    cfg['events'] = mastercfg.ev(
        ('app+', 't1'), ('srv+', 's1', 0),
        ('state', 's1', 'frozen', -1), ('state', 's1', 'up', -1),
        ('srv', 's0', 2), ('noop',),
    )
    return cfg


def _late():
    """Late presence notifications: a server registers and dies again before
    the master handles the first notification."""
    cfg = mastercfg.m2()
    cfg['cellmonitors'] = [cellmon.mon_c03]
    cfg['monitors'] = [mastermon.mon_c03_zk]
    cfg['allow_late'] = True
    cfg['allow_nocycle'] = False
    cfg['events'] = mastercfg.ev(
        ('app+', 'pl'), ('app+', 'hi'), ('app-', 0),
        ('pres-', 's0'), ('pres+', 's0', 0), ('pres-', 's1'),
        ('pres+', 's1', 0), ('noop',),
    )
    return cfg


def configs(ctx):
    if ctx.quick:
        return [('K2', _k2(), 4, 1), ('K5', _k5(), 5, 0),
                ('M2', _m2(), 3, 0, _masterprop.MasterSpec),
                ('M2t', _m2t(), 3, 0, _masterprop.MasterSpec),
                ('M2f', _m2f(), 5, 0, _masterprop.MasterSpec),
                ('M2b', _m2b(), 4, 2, _masterprop.MasterSpec),
                ('M2-late', _late(), 4, 2, _masterprop.MasterSpec)]
    return [('K2', _k2(), 6, 1), ('K5', _k5(), 7, 0),
            ('M2', _m2(), 5, 1, _masterprop.MasterSpec),
            ('M2t', _m2t(), 5, 1, _masterprop.MasterSpec),
            ('M2f', _m2f(), 7, 1, _masterprop.MasterSpec),
            ('M2b', _m2b(), 6, 3, _masterprop.MasterSpec),
            ('M2-late', _late(), 6, 2, _masterprop.MasterSpec)]


RULE = ('BFS over histories with re-assignment to another partition, label/'
        'trait changes of servers and allocations, freeze/down/up, renew '
        'requests and day-sized clock advances; non-trivial = new placements '
        'checked (c03_new_placements) and lease placements')
NT = ['c03_new_placements', 'c03_lease_placements']


def run(ctx):
    return _cellprop.run_configs(ctx, configs(ctx), NT, RULE,
                                 _cellprop.BASE_ASSUMPTIONS)


def replay(ctx, data):
    return _cellprop.replay_config(ctx, configs(ctx), data)
