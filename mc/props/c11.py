"""C11 - a restarted master reloads exactly the placement that was published."""
import collections

from mc import statex
from mc.props import _cellprop, _masterprop
from mc.worlds import mastercfg, mastermon

BUDGET = {'quick': 600, 'thorough': 2400}


class Spec(_masterprop.MasterSpec):
    def probe(self, hist):
        stats = collections.Counter()
        viol = []
        w = statex.build(self, hist)
        if w.dead:
            return viol, dict(stats)
        if not w.master.up_to_date:
            # an event reached ZooKeeper but the master failed over before
            # its next cycle: also a reachable stored state
            stats['c11_reloads_before_cycle'] += 1
        mark = len(w.viol)
        ev = ('reload-check', True)
        ok, _exc = statex.step(self, w, ev)
        stats.update(w.stats)
        if not ok:
            return [{'clause': 'load-model-failed', 'site': _exc['site'],
                     'detail': _exc, 'suffix': (ev,)}], \
                {'c11_reloads': 1}
        for v in w.viol[mark:]:
            v = dict(v)
            v['suffix'] = (ev,)
            viol.append(v)
        # shallow states: every single read of the load fails once
        if len(hist) <= self.cfg.get('read_fault_depth', -1) and not viol:
            for k in range(getattr(w, 'last_reload_reads', 0) or 0):
                w2 = statex.build(self, hist)
                mark2 = len(w2.viol)
                fev = ('reload-fault', k, True)
                ok, exc = statex.step(self, w2, fev)
                stats['c11_read_faults'] += 1
                for key in ('c11_faulted_loads_aborted',
                            'c11_faulted_loads_completed'):
                    stats[key] += w2.stats.get(key, 0)
                if not ok:
                    # any other way to die is fine too: the process restarts
                    stats['c11_faulted_loads_aborted'] += 1
                    continue
                for v in w2.viol[mark2:]:
                    v = dict(v)
                    v['suffix'] = (fev,)
                    viol.append(v)
        keep = {k: v for k, v in stats.items() if k.startswith('c11_')}
        return viol, keep


def _m1():
    cfg = mastercfg.m1()
    cfg['monitors'] = []
    cfg['read_fault_depth'] = 2
    cfg['events'] = mastercfg.ev(
        ('app+', 'sm'), ('app+', 'id'), ('app+', 'hi'), ('app+', 'on'),
        ('app+', 'ls'),
        ('app-', 0), ('prio', 0, 100),
        ('pres-', 's0'), ('pres+', 's0', 0), ('pres+', 's0', 1),
        ('pres-', 's1'), ('pres+', 's1', 0),
        ('srv', 's0', 1), ('srv-', 's1'), ('srv+', 's1', 0),
        ('alloc', 1), ('alloc', 0),
        ('idg', 'g', 1), ('idg', 'g', 2), ('idg-', 'g'),
        ('state', 's0', 'frozen', 0), ('state', 's0', 'up', -1),
        ('bl', 1), ('bl', 0), ('blk', 's0', 1), ('blk', 's0', 0),
        ('tick', 40), ('tick', 2 * 24 * 3600), ('noop',), ('restart',),
    )
    return cfg


def _m2():
    """Two partitions and traits: records under servers of a non-default
    partition, re-assignment of the pattern, label/trait changes."""
    cfg = mastercfg.m2()
    cfg['monitors'] = []
    # /traits lists the traits in another order than the (sorted) server
    # records first mention them
    cfg['traits'] = ['t2', 't1']
    # ... and s1 (the only default-partition server with a trait) joins
    # while the master runs
    cfg['servers']['s1']['initial'] = False
    cfg['events'] = mastercfg.ev(
        ('srv+', 's1', 0),
        ('app+', 'pl'), ('app+', 't1'), ('app+', 'hi'), ('app-', 0),
        ('alloc', 1), ('alloc', 2), ('alloc', 0),
        ('srv', 's0', 1), ('srv', 's0', 0), ('srv', 's1', 1),
        ('pres-', 's2'), ('pres+', 's2', 0),
        ('noop',), ('restart',),
    )
    return cfg


def _m2t():
    """As M2, but trait t1 is not listed in /traits: a new master learns its
    code from the server records only, so the order in which load_model reads
    servers and instances matters."""
    cfg = _m2()
    cfg['traits'] = ['t2']
    cfg['servers']['s1']['initial'] = True
    # a trait that only a server record and a manifest name (no allocation
    # does: load_allocations gives allocation traits a code of their own)
    cfg['servers']['s1']['variants'][0]['traits'] = ['t1', 'hw']
    cfg['templates']['hw'] = {'memory': '2M', 'cpu': '2%', 'disk': '2M',
                              'affinity': 'h', 'traits': ['hw']}
    cfg['events'] = mastercfg.ev(
        ('app+', 'pl'), ('app+', 't1'), ('app+', 'hw'), ('app-', 0),
        ('alloc', 2), ('alloc', 0),
        ('srv', 's0', 1), ('srv', 's0', 0),
        ('pres-', 's1'), ('pres+', 's1', 0),
        ('noop',), ('restart',),
    )
    return cfg


def _m8():
    """Leases next to the reboot date: s0 has been up for 19.5 days, so a
    one-day lease granted now still fits, but not half a day later."""
    from mc.vclock import BASE
    day = 24 * 3600
    cfg = mastercfg.m1()
    cfg['monitors'] = []
    cfg['servers'] = {
        's0': {'parent': 'rack:0', 'variants': [
            {'cap': ['10M', '10%', '10M'],
             'up_since': int(BASE - 19 * day - 12 * 3600)}]},
        's1': {'parent': 'rack:0', 'variants': [
            {'cap': ['4M', '4%', '4M'], 'up_since': int(BASE)}]},
    }
    cfg['max_apps'] = 3
    cfg['allow_nocycle'] = False
    cfg['events'] = mastercfg.ev(
        ('app+', 'ls'), ('app+', 'sm'), ('app-', 0),
        ('pres-', 's0'), ('pres+', 's0', 0),
        ('tick', day // 4), ('tick', day // 2), ('tick', day),
        ('noop',), ('restart',),
    )
    return cfg


def configs(ctx):
    if ctx.quick:
        return [('M1', _m1(), 3, 1), ('M2', _m2(), 3, 0),
                ('M2t', _m2t(), 3, 0), ('M8', _m8(), 4, 0)]
    return [('M1', _m1(), 5, 1), ('M2', _m2(), 5, 1), ('M2t', _m2t(), 5, 1),
            ('M8', _m8(), 7, 0)]


RULE = ('BFS over World-B histories (a cycle after each event); at every '
        'distinct state a fresh Master runs load_model() on a copy of the '
        'stored tree and is compared with every record under a healthy '
        'server; non-trivial = reloads with at least one such record')
NT = ['c11_reloads_with_healthy_records', 'c11_reloads']


def run(ctx):
    out = _cellprop.run_configs(ctx, configs(ctx), NT, RULE,
                                _masterprop.ASSUMPTIONS + [
        'healthy server = presence node exists, its ctime <= the record\'s '
        'ctime, and the server record still yields the same capacity, '
        'partition and traits (Server.is_same on freshly built objects)'],
        spec_cls=Spec)
    cov = out['coverage']
    cov['evaluations'] = cov['transitions'] + \
        cov['nontrivial_counters'].get('c11_reloads', 0)
    return out


def replay(ctx, data):
    return _cellprop.replay_config(ctx, configs(ctx), data, spec_cls=Spec)
