"""C12 - the node's manifest cache mirrors what is placed on the node.

Bounded-exhaustive sweep (mc.boundx) of the real EventMgr._synchronize /
_cache / _cache_notify on a run-private temp root with the fake ZooKeeper
client injected, over the complete product of per-slot menus

    prior cache file  {absent, current, older than placement, newer}
  x in the expected (placement) list {no, yes}     ("extra" = file, not listed)
  x /scheduled manifest {absent, plain, carrying stale identity/expires/task}
  x placement node {absent, data None, data {identity, expires}}

for every slot, x check_existing {False, True}; plus, for the smaller slot
counts, every FS step of the synchronisation (every step fs.write_safe issues:
mkstemp, each write of the stream incl. torn writes, fchmod, close, replace,
unlink; and _synchronize's own unlink of extra files) failed (OSError) and
killed (directory snapshot), each followed by a restart + re-sync with
check_existing=True.

HASH_INSENSITIVE: _synchronize iterates sets of instance names, so the hash
seed picks the order in which slots are handled.  The swept space is the full
product of identical per-slot menus, hence closed under permutations of the
slots, and the code treats names uniformly; the outcome of a case under
another iteration order is the outcome of the slot-permuted case under this
one, which is swept too (and every fault index k of either order with it).
"""
import collections

from mc import boundx
from mc import c12_world as w

BUDGET = {'quick': 240, 'thorough': 600}
HASH_INSENSITIVE = True

RULE = ('one case = per-slot (prior file, listed, manifest, placement) x '
        'check_existing, one real _synchronize; non-trivial = the sync wrote '
        'at least one cache file (cases_with_write); fault runs = one '
        'injected failure or kill at one FS step + recovery sync; two-sync '
        'slice (T): after the first sync ZooKeeper and the placement list '
        'move on per slot (listed, manifest, placement node) and the SAME '
        'agent synchronises again')

ASSUMPTIONS = [
    'interpretation: "mirrors" together with the quantifier\'s "outdated '
    'files" is read as: a check_existing synchronisation refreshes a cache '
    'file that is older than the placement node it belongs to (clause '
    'outdated-file-not-refreshed); the statement does not say so literally',
    'fake ZooKeeper mc/fakezk.py (kazoo get/NoNodeError/ctime semantics '
    'pinned by selftest/fakezk_test.py); the expected list is passed to '
    '_synchronize as the ChildrenWatch callback would (it may name an '
    'instance whose placement node is already gone)',
    'st_ctime of cache files as seen by treadmill.eventmgr is assigned by the '
    'harness (prior files: placement ctime -1s / equal / +1s; files written '
    'by a sync: the time of that sync); rename updates ctime as on Linux',
    'FS faults are injected at the os / tempfile / io / open names inside '
    'treadmill.fs and at the stream handed to yaml.dump; error = the call '
    'raises OSError (ENOSPC for write, EIO otherwise) and the code\'s own '
    'clean-up runs; kill = the cache directory is copied at that instant '
    '(what a reader or the restarted agent sees) and the run is unwound; '
    'torn writes: 0, 1, half, all-but-one bytes of the buffer reach the file '
    'before the fault; directory operations (rename, unlink) are atomic',
    'a reader sees a file by name: dot-names are invisible to the consumers '
    '(glob "*"), so only non-dot names are judged',
    'the EventMgr run loop, watchdog and watches are not started; the '
    'sequence of a watch delivery (_cache_notify(False), _synchronize, '
    '_cache_notify(True)) is called directly',
    'start-up slice (plan mode S): the real EventMgr.run(once=True) is '
    'executed with the fake zk client as context.GLOBAL.zk.conn (fakezk '
    'DataWatch/ChildrenWatch call back immediately with the current state, '
    'like kazoo); the first _synchronize and its check_existing flag come '
    'from the real _check_placement/_app_watch; stubbed: watchdog lease, the '
    'heartbeat time.sleep, utils.exit_on_unhandled (re-raises); listed '
    'instances = children of the placement node; presence node present; no '
    'faults in this slice',
    'bounds: quick 2 slots (faults on 1 and 2 slots); thorough 3 slots '
    '(faults on 1 and 2 slots); manifests are small (one stream write with '
    'the C emitter), torn-write fractions stand in for larger ones',
]

_MENU = sorted(w.slot_menu(), key=w.slot_weight)
_MENU1 = sorted(w.slot_menu(big=True), key=w.slot_weight)   # single slot


def _plan(tier):
    """[(mode, nslots)]: B = fault-free sweep, F = sweep + every fault,
    S = start-up slice (real EventMgr.run issues the first sync)."""
    if tier == 'quick':
        return [('S', 1), ('S', 2), ('F', 1), ('F', 2), ('T', 1), ('T', 2)]
    return [('S', 1), ('S', 2), ('F', 1), ('F', 2), ('B', 3),
            ('T', 1), ('T', 2)]


# second-sync slice (mode T): what slot 1 does next to a fully varied slot 0:
# stays placed and cached / leaves / arrives
_SECOND = [(e, m, c) for e in (0, 1) for m in (0, 1, 2) for c in (0, 1, 2)]
_T_OTHER = [(('A', 1, 1, 2), (1, 1, 2)), (('C', 1, 1, 2), (0, 1, 2)),
            (('A', 0, 0, 0), (1, 1, 2))]


def _startable(cfg):
    """Start-up slice: listed <=> the placement node exists."""
    return bool(cfg[1]) == bool(cfg[3])


def _chunks(tier):
    out = []
    for mode, n in _plan(tier):
        if mode == 'T':
            out.extend((mode, n, (i,)) for i in range(len(_MENU)))
        elif n == 1:
            out.append((mode, n, ()))
        elif n == 2:
            out.extend((mode, n, (i,)) for i in range(len(_MENU))
                       if mode != 'S' or _startable(_MENU[i]))
        else:
            out.extend((mode, n, (i, j)) for i in range(len(_MENU))
                       for j in range(len(_MENU)))
    return out


def _size(case, fault):
    return (sum(w.slot_weight(tuple(c)) for c in case['slots']),
            len(case['slots']), 0 if fault is None else 1 + fault[1])


def _worker(chunk):
    mode, n, prefix = chunk
    world = w.World()
    cnt = collections.Counter()
    viols = {}
    samples = []
    cases = nontrivial = 0

    def note(vs, case, fault):
        for v in vs:
            key = (v['clause'], v['site'])
            size = _size(case, fault)
            cur = viols.get(key)
            if cur is None or size < cur['size']:
                cnt_prev = cur['count'] if cur else 0
                viols[key] = dict(v, size=size, count=cnt_prev,
                                  replay={'case': case, 'fault': fault,
                                          'clause': v['clause'],
                                          'site': v['site']})
            viols[key]['count'] += 1

    try:
        if mode == 'T':
            first = _MENU[prefix[0]]
            others = [None] if n == 1 else _T_OTHER
            for other in others:
                for second in _SECOND:
                    for check in (False, True):
                        slots = [list(first)]
                        slots2 = [list(second)]
                        if other is not None:
                            slots.append(list(other[0]))
                            slots2.append(list(other[1]))
                        case = {'slots': slots, 'slots2': slots2,
                                'check': check}
                        vs, info = w.run_case(world, case)
                        cases += 1
                        cnt['two_sync_cases_%d_slots' % n] += 1
                        cnt['fs_steps'] += info.get('steps', 0)
                        if info.get('written'):
                            nontrivial += 1
                        note(vs, case, None)
            cnt.update(world.stats)
            return {'cases': cases, 'nontrivial': nontrivial,
                    'states': cases, 'violations': list(viols.values()),
                    'samples': samples, 'counters': dict(cnt)}
        for last in (_MENU1 if n == 1 else _MENU):
            slots = [_MENU[i] for i in prefix] + [last]
            if mode == 'S':
                if not _startable(last):
                    continue
                case = {'slots': [list(s) for s in slots], 'check': None,
                        'startup': True}
                vs, info = w.run_case(world, case)
                cases += 1
                cnt['startup_cases_%d_slots' % n] += 1
                if info.get('written'):
                    nontrivial += 1
                note(vs, case, None)
                continue
            for check in (False, True):
                case = {'slots': [list(s) for s in slots], 'check': check}
                vs, info = w.run_case(world, case)
                cases += 1
                cnt['cases_%d_slots' % n] += 1
                cnt['fs_steps'] += info.get('steps', 0)
                if info.get('written'):
                    nontrivial += 1
                    cnt['cases_with_write'] += 1
                    cnt['files_written'] += len(info['written'])
                note(vs, case, None)
                if len(samples) < 1 and len(info.get('written', ())) == n \
                        and check:
                    samples.append({'case': case, 'written': info['written'],
                                    'fs_steps': info['trace']})
                if mode != 'F' or info.get('outcome') != 'ok':
                    continue
                for fault in w.fault_menu(info):
                    vs, finfo = w.run_case(world, case, fault)
                    cnt['fault_runs'] += 1
                    cnt['fault_%s' % fault[0]] += 1
                    cnt['fault_at_%s' % finfo['fired'][0]] += 1
                    note(vs, case, fault)
        cnt.update(world.stats)
    finally:
        world.close()
    return {'cases': cases, 'nontrivial': nontrivial, 'states': cases,
            'violations': list(viols.values()), 'samples': samples,
            'counters': dict(cnt)}


def _observe(data):
    world = w.World()
    try:
        vs, _info = w.run_case(world, data['case'], data.get('fault'))
    finally:
        world.close()
    return vs


def _confirm(v):
    a = _observe(v['replay'])
    b = _observe(v['replay'])
    ka = sorted((x['clause'], x['site'], repr(x['detail'])) for x in a)
    kb = sorted((x['clause'], x['site'], repr(x['detail'])) for x in b)
    if ka != kb:
        raise w.HarnessError('non-deterministic case %r' % (v['replay'],))
    if (v['clause'], v['site']) not in {(c, s) for c, s, _d in ka}:
        raise w.HarnessError('violation not reproduced %r' % (v['replay'],))


def run(ctx):
    w.run_root_begin()
    try:
        return _run(ctx)
    finally:
        w.run_root_end()


def _run(ctx):
    tier = ctx.tier
    chunks = _chunks(tier)
    res = boundx.sweep(chunks, _worker, workers=ctx.workers,
                       time_cap=ctx.budget_s * 0.85)
    c = res.counters
    ctx.log('swept %d/%d chunks, %d cases, %d fault runs, %.1fs'
            % (res.chunks_done, res.chunks_total, res.cases,
               c.get('fault_runs', 0), res.wall_s))
    if not res.violations and not (res.nontrivial and c.get('fault_kill') and c.get('fault_error')
            and c.get('written_files_checked') and c.get('virtual_stats')
            and c.get('fault_at_write') and c.get('resyncs')
            and c.get('startup_syncs') and c.get('outdated_files_checked')
            and c.get('second_sync_had_to_add_a_file')):
        raise w.HarnessError('vacuous run: %r' % dict(c))
    merged = {}
    for v in res.violation_list():
        merged[(v['clause'], v['site'])] = v
    violations = []
    for v in sorted(merged.values(), key=lambda x: x['size']):
        _confirm(v)
        v = dict(v)
        v.pop('size', None)
        violations.append(v)
    runs = res.cases + c.get('fault_runs', 0) + c.get('resyncs', 0)
    cov = {
        'states': res.cases,
        'transitions': c.get('fs_steps', 0) + c.get('fault_runs', 0),
        'executions': runs,
        'traces_validated_against_impl': runs,
        'evaluations': c.get('sync_postconditions_checked', 0) +
        c.get('visible_files_checked', 0),
        'distinct_nontrivial': res.nontrivial,
        'rule': RULE,
        'samples': res.samples[:6],
        'exhaustive': res.exhaustive,
        'caps_hit': res.caps_hit,
        'crash_points': c.get('fault_runs', 0),
        'counters': dict(c),
        'chunks': [res.chunks_done, res.chunks_total],
        'menus': {
            'plan': [list(p) for p in _plan(tier)],
            'prior_file': list(w.PRIORS),
            'listed': [0, 1],
            'manifest': ['absent', 'plain', 'with stale identity/expires/task',
                         'large (~45 KB, several stream writes; single-slot '
                         'cases only)'],
            'placement_node': ['absent', 'data None',
                               'data {identity, expires}'],
            'check_existing': [False, True],
            'per_slot_configs': len(_MENU),
            'fault_flavours': ['error', 'kill'],
            'torn_write_prefixes': ['0', '1 byte', 'half', 'all but one'],
        },
    }
    return {'coverage': cov, 'violations': violations,
            'assumptions': ASSUMPTIONS}


def replay(ctx, data):
    w.run_root_begin()
    try:
        return _replay(data)
    finally:
        w.run_root_end()


def _replay(data):
    a = _observe(data)
    b = _observe(data)
    ka = sorted((x['clause'], x['site'], repr(x['detail'])) for x in a)
    kb = sorted((x['clause'], x['site'], repr(x['detail'])) for x in b)
    if ka != kb:
        raise w.HarnessError('non-deterministic replay')
    seen = {}
    for o in a:
        if data.get('clause') and (o['clause'], o['site']) != \
                (data['clause'], data['site']):
            continue
        k = (o['clause'], o['site'])
        if k not in seen:
            seen[k] = dict(o, count=1)
        else:
            seen[k]['count'] += 1
    return {'coverage': {}, 'violations': list(seen.values())}
