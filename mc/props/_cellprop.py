"""Shared driver for the World-A (Cell API) properties."""
import os
import copy
import json

from mc import statex
from mc.worlds import cellworld


class CellSpec(statex.Spec):
    def __init__(self, cfg):
        self.cfg = cfg

    def new_world(self):
        return cellworld.CellWorld(self.cfg)

    def apply(self, world, event):
        world.apply(tuple(event))

    def enabled(self, world):
        return world.enabled()

    def canon(self, world):
        return world.canon()

    def dev_cost(self, event):
        return 0 if event[-1] else 1


def observe(spec, history):
    """Violation keys and final digest of one history; an exception escaping
    the implementation on the last event is reported the way the explorer
    reports it (spec.exception_clause)."""
    hist = [tuple(e) for e in history]
    w = statex.build(spec, hist[:-1])
    viol = list(w.viol)
    ok = True
    if hist:
        ok, exc = statex.step(spec, w, hist[-1])
        viol = list(w.viol)
        if not ok and spec.exception_clause:
            viol.append({'clause': spec.exception_clause,
                         'site': exc['site'], 'detail': exc})
    keys = sorted({(v['clause'], v['site']) for v in viol})
    return keys, viol, (statex.digest(spec.canon(w)) if ok else None)


def confirm(spec, hist, clause, site):
    """Replay twice in fresh worlds; identical observations required."""
    o1 = observe(spec, hist)
    o2 = observe(spec, hist)
    o1 = (o1[0], o1[2])
    o2 = (o2[0], o2[2])
    if o1 != o2:
        raise statex.HarnessError('non-deterministic replay of %r' % (hist,))
    if (clause, site) not in o1[0]:
        raise statex.HarnessError(
            'violation %s/%s not reproduced by replay of %r (got %r)'
            % (clause, site, hist, o1[0]))


def run_configs(ctx, configs, nontrivial_keys, rule, assumptions,
                spec_cls=None):
    """configs: list of (name, cfg, depth, max_dev).  Budget is split evenly;
    a config that hits its time cap reports the last complete depth."""
    cov = {'states': 0, 'transitions': 0, 'samples': [], 'caps_hit': [],
           'configs': {}, 'exhaustive': False,
           'nontrivial_counters': {}}
    violations = []
    weights = [e[5] if len(e) > 5 else 1.0 for e in configs]
    wsum = sum(weights)
    impl_exc = 0
    filtered = False
    # World A (Cell API) has no string-hash dependent iteration (insertion
    # ordered dicts, sets of small ints only): it is explored under the first
    # hash seed only; World B configurations are repeated under every seed
    if getattr(ctx, 'hash_index', 0) > 0:
        sensitive = [e for e in configs
                     if (e[4] if len(e) > 4 else (spec_cls or CellSpec))
                     is not CellSpec and not issubclass(
                         (e[4] if len(e) > 4 else (spec_cls or CellSpec)),
                         CellSpec)]
        if sensitive:
            filtered = len(sensitive) < len(configs)
            configs = sensitive
    weights = [e[5] if len(e) > 5 else 1.0 for e in configs]
    wsum = sum(weights)
    for entry in configs:
        name, cfg, depth, max_dev = entry[:4]
        cls = entry[4] if len(entry) > 4 else (spec_cls or CellSpec)
        spec = cls(cfg)
        per_cfg_budget = ctx.budget_s * (entry[5] if len(entry) > 5
                                         else 1.0) / wsum
        res = statex.bfs(spec, depth, max_dev=max_dev, workers=ctx.workers,
                         time_cap=per_cfg_budget, progress=ctx.log,
                         init_histories=cfg.get('seeds', ((),)),
                         bisim_depth=int(os.environ.get(
                             'VERIF_BISIM', cfg.get(
                                 'bisim_depth', 0 if ctx.quick else 2))))
        cov['states'] += res.states
        cov['transitions'] += res.transitions
        cov['configs'][name] = {
            'depth_requested': depth, 'depth_completed': res.depth_completed,
            'max_deviations': max_dev, 'states': res.states,
            'transitions': res.transitions, 'level_sizes': res.level_sizes,
            'space_exhausted': res.exhausted,
            'events': len(cfg['events']), 'wall_s': round(res.wall_s, 1),
            'bisimulation_pairs_checked': res.bisim_pairs,
        }
        cov['caps_hit'].extend('%s: %s' % (name, c) for c in res.caps_hit)
        for k, v in res.stats.items():
            cov['nontrivial_counters'][k] = \
                cov['nontrivial_counters'].get(k, 0) + v
        impl_exc += res.stats.get('impl_exceptions', 0)
        for s in res.samples[-3:]:
            cov['samples'].append({'config': name, 'history': s})
        for e in res.exceptions[:2]:
            cov.setdefault('impl_exception_samples', []).append(
                {'config': name, 'history': e['history'], 'exc': e['exc']})
        for v in res.violations.values():
            confirm(spec, v['history'], v['clause'], v['site'])
            violations.append({
                'clause': v['clause'], 'site': v['site'],
                'detail': v['detail'], 'count': v['count'],
                'replay': {'config': name, 'history': v['history']},
            })
    cov['depth_completed'] = min(
        c['depth_completed'] for c in cov['configs'].values())
    cov['executions'] = cov['transitions']
    cov['traces_validated_against_impl'] = cov['transitions']
    cov['evaluations'] = cov['transitions']
    cov['distinct_nontrivial'] = cov['nontrivial_counters'].get(
        nontrivial_keys[0], 0)
    cov['rule'] = rule
    # exhaustive = every history within the stated bounds (depth, deviations,
    # alphabet) was executed; a time/state cap makes it False
    cov['exhaustive'] = not cov['caps_hit']
    cov['bound'] = ('all event histories up to the depth and deviation bound '
                    'of each configuration (coverage.configs), deduplicated '
                    'on the canonical state')
    cov['impl_exceptions'] = impl_exc
    # vacuity guard: a run in which the antecedent never fired proves nothing
    # (only for a silent run: a run that found violations is not vacuous, and
    # a changed implementation may legitimately starve one of the counters)
    # (nor for a later hash seed that repeats only the World-B subset: the
    # counters of the World-A configurations were checked under the first)
    for k in nontrivial_keys:
        if filtered:
            break
        if cov['nontrivial_counters'].get(k, 0) == 0 and not violations:
            raise statex.HarnessError('vacuous run: counter %s is 0' % k)
    return {'coverage': cov, 'violations': violations,
            'assumptions': assumptions}


def replay_config(ctx, configs, data, spec_cls=None):
    cfgs = {e[0]: e for e in configs}
    entry = cfgs[data['config']]
    cls = entry[4] if len(entry) > 4 else (spec_cls or CellSpec)
    spec = cls(entry[1])
    _keys, viol, _dg = observe(spec, data['history'])
    seen = {}
    for v in viol:
        seen.setdefault((v['clause'], v['site']), v)
    return {'coverage': {}, 'violations': [
        {'clause': c, 'site': s, 'detail': v['detail']}
        for (c, s), v in seen.items()]}


BASE_ASSUMPTIONS = [
    'World A drives treadmill.scheduler.Cell directly, mirroring the glue of '
    'Loader (remove_server, load_server, adjust_presence, _freeze_server, '
    'load_app on an existing instance); the real Loader is exercised in World B',
    'virtual clock: time.time() = base + L + k*2^-19, L moves only by alphabet '
    'events of whole seconds',
    'canonical state keeps every field that steers the scheduler (children '
    'lists with holes, strategy cursors, aggregates, flags, reboot buckets); '
    'instances are renamed to (template, arrival rank)',
    'bounds: <= 4 servers, <= 4-5 live instances, menus in coverage.configs',
]
