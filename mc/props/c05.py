"""C05 - identities unique, in range, held only by placed instances."""
from mc.props import _cellprop
from mc.worlds import cellcfg, cellmon

BUDGET = {'quick': 60, 'thorough': 600}
HASH_INSENSITIVE = True


def _k4():
    cfg = cellcfg.k4()
    cfg['monitors'] = [cellmon.mon_c05]
    cfg['events'] = cellcfg.ev(
        ('add', 'id'), ('add', 'ib'), ('add', 'on'), ('add', 'hi'),
        ('add', 'pl'),
        ('rm', 0), ('rm', 1), ('prio', 0, 100),
        ('idg', 'g', 0), ('idg', 'g', 1), ('idg', 'g', 2), ('idg', 'g', 3),
        ('idgrm', 'g'),
        ('down', 's0'), ('up', 's0'), ('bl', 0, 1), ('bl', 0, 0),
        ('alloc', 'a', 1), ('alloc', 'a', 0), ('noop',),
    )
    return cfg


def configs(ctx):
    if ctx.quick:
        return [('K4', _k4(), 4, 2)]
    return [('K4', _k4(), 6, 2)]


RULE = ('BFS over histories of arrivals/removals/evictions/server failure/'
        'blacklisting/group count changes with <= 2 "no cycle" deviations; '
        'non-trivial transitions are cycles after which some identity is held')
NT = ['c05_cycles_with_held_identity']


def run(ctx):
    return _cellprop.run_configs(ctx, configs(ctx), NT, RULE,
                                 _cellprop.BASE_ASSUMPTIONS)


def replay(ctx, data):
    return _cellprop.replay_config(ctx, configs(ctx), data)
