"""C05 - identities unique, in range, held only by placed instances."""
from mc.props import _cellprop
from mc.props import _masterprop
from mc.props import c10
from mc.worlds import cellcfg, cellmon, mastercfg, mastermon

BUDGET = {'quick': 600, 'thorough': 2400}


class Spec(_masterprop.MasterSpec):
    # a cycle that raises (e.g. the scheduler's own `assert
    # app.has_identity()`) ends without the invariants being established
    exception_clause = 'cycle-failed'


def _k4():
    cfg = cellcfg.k4()
    cfg['monitors'] = [cellmon.mon_c05]
    cfg['events'] = cellcfg.ev(
        ('add', 'id'), ('add', 'ib'), ('add', 'on'), ('add', 'hi'),
        ('add', 'pl'),
        ('rm', 0), ('rm', 1), ('prio', 0, 100),
        ('idg', 'g', 0), ('idg', 'g', 1), ('idg', 'g', 2), ('idg', 'g', 3),
        ('idgrm', 'g'),
        ('down', 's0'), ('up', 's0'), ('bl', 0, 1), ('bl', 0, 0),
        ('srm', 's0'), ('sadd', 's0', 0), ('srm', 's1'), ('sadd', 's1', 0),
        ('alloc', 'a', 1), ('alloc', 'a', 0), ('noop',),
    )
    return cfg


def _k4f():
    """Group shrunk/removed while holders sit on frozen servers or on down
    servers inside their retention period (seeded with two placed holders)."""
    cfg = cellcfg.k4()
    cfg['idgroups'] = {'g': 2}
    cfg['templates']['ir'] = {'prio': 50, 'demand': [3, 3, 3], 'aff': 'r',
                              'idg': 'g', 'ret': 30}
    cfg['monitors'] = [cellmon.mon_c05]
    cfg['events'] = cellcfg.ev(
        ('add', 'ir'), ('add', 'id'), ('rm', 0), ('rm', 1),
        ('idg', 'g', 0), ('idg', 'g', 1), ('idg', 'g', 2), ('idg', 'g', 3),
        ('down', 's0'), ('up', 's0'), ('down', 's1'), ('up', 's1'),
        ('frz', 's0', -1), ('frz', 's1', -1), ('frz', 's1', 0),
        ('tick', 20), ('noop',),
    )
    cfg['seeds'] = [(('add', 'ir', True), ('add', 'id', True)),
                    (('add', 'ir', True), ('add', 'ir', True))]
    return cfg


def _m1():
    """World B: identity_groups events, restarts (force_set_identity)."""
    cfg = mastercfg.m1()
    cfg['idgroups'] = {'g': 1}
    cfg['cellmonitors'] = [cellmon.mon_c05]
    cfg['monitors'] = [mastermon.mon_c05_published]
    cfg['templates']['ib'] = {'memory': '8M', 'cpu': '8%', 'disk': '8M',
                              'affinity': 'b', 'identity_group': 'g',
                              'priority': 60}
    cfg['templates']['on']['identity_group'] = 'g'
    # the master may handle what has reached ZooKeeper between the two writes
    # of one identity-group API call
    cfg['split_kinds'] = ('idg', 'idg-')
    cfg['events'] = mastercfg.ev(
        ('app+', 'id'), ('app+', 'ib'), ('app+', 'on'), ('app+', 'hi'),
        ('app-', 0), ('app-', 1), ('prio', 0, 100),
        ('idg', 'g', 0), ('idg', 'g', 1), ('idg', 'g', 2), ('idg-', 'g'),
        ('pres-', 's0'), ('pres+', 's0', 0),
        ('srv', 's0', 1), ('srv', 's0', 0),
        ('noop',), ('restart',),
    )
    return cfg


def _m4():
    """One server: an instance that loses its identity is re-placed on the
    same server within one cycle."""
    cfg = mastercfg.m4()
    cfg['cellmonitors'] = [cellmon.mon_c05]
    cfg['monitors'] = [mastermon.mon_c05_published]
    cfg['allow_nocycle'] = False
    # a holder evicted in vain (not enough room), then a bigger instance:
    # the holder comes back in place within the cycle
    cfg['templates']['big'] = {'memory': '8M', 'cpu': '8%', 'disk': '8M',
                               'affinity': 'f', 'priority': 60}
    cfg['templates']['mid'] = {'memory': '8M', 'cpu': '8%', 'disk': '8M',
                               'affinity': 'm', 'priority': 100}
    cfg['events'] = mastercfg.ev(
        ('app+', 'id'), ('app+', 'big'), ('app+', 'mid'),
        ('app-', 0), ('app-', 1),
        ('idg', 'g', 1), ('idg', 'g', 2), ('idg', 'g', 3), ('idg', 'g', 0),
        ('noop',), ('restart',),
    )
    return cfg


class CrashSpec(c10.Spec):
    """The crash-point enumeration of C10 with the identity monitors: the
    identities a newly elected master restores from a half-published cycle
    are unique, in range and held by the placed."""
    exception_clause = 'cycle-failed'


def _m1c():
    """A group of one: its identity moves, within one cycle, from an
    instance that loses its server to a pending one; the master dies at
    every storage write of that cycle and a new master takes over."""
    cfg = _m1()
    cfg['crash_in_handlers'] = True
    # ... and then a further member of the group arrives
    cfg['after_crash'] = [('app+', 'id', True),
                          (('pres+', 's1', 0, True), ('app+', 'id', True))]
    cfg['seeds'] = [
        (('app+', 'id', True), ('app+', 'ib', True)),
        (('app+', 'id', True), ('app+', 'id', True)),
        # the holder arrived AFTER the pending member that will take over
        # (which did not fit the only server up when it arrived)
        (('pres-', 's0', True), ('pres-', 's1', True), ('app+', 'ib', True),
         ('app+', 'id', True), ('pres+', 's0', 0, True)),
    ]
    cfg['events'] = mastercfg.ev(
        ('app+', 'id'), ('app-', 0), ('app-', 1),
        ('pres-', 's0'), ('pres-', 's1'), ('pres-', 's2'),
        ('pres+', 's0', 0), ('pres+', 's1', 0),
        ('idg', 'g', 2), ('idg', 'g', 0), ('restart',),
    )
    return cfg


def configs(ctx):
    if ctx.quick:
        return [('K4', _k4(), 4, 2), ('K4f', _k4f(), 3, 1),
                ('M1', _m1(), 3, 1, Spec),
                ('M4', _m4(), 5, 0, Spec),
                ('M1-crash', _m1c(), 1, 1, CrashSpec)]
    return [('K4', _k4(), 6, 2), ('K4f', _k4f(), 5, 1),
            ('M1', _m1(), 5, 2, Spec),
            ('M4', _m4(), 8, 1, Spec),
            ('M1-crash', _m1c(), 3, 1, CrashSpec)]


RULE = ('BFS over histories of arrivals/removals/evictions/server failure/'
        'blacklisting/group count changes with <= 2 "no cycle" deviations; '
        'non-trivial transitions are cycles after which some identity is held')
NT = ['c05_cycles_with_held_identity']


def run(ctx):
    return _cellprop.run_configs(ctx, configs(ctx), NT, RULE,
                                 _cellprop.BASE_ASSUMPTIONS)


def replay(ctx, data):
    return _cellprop.replay_config(ctx, configs(ctx), data)
