"""C02 - an instance that fits an eligible up server is not left pending."""
from mc import statex
from mc.props import _cellprop, _masterprop
from mc.worlds import cellcfg, cellmon, mastercfg, mastermon
from mc.worlds.cellcfg import T1, T2

BUDGET = {'quick': 600, 'thorough': 2400}
# (World-B configuration M2 iterates sets of server names: the thorough tier
# repeats it under every hash seed; the World-A configurations are run once)
DAY = 24 * 3600


class ProbeSpec(_cellprop.CellSpec):
    def probe(self, hist):
        import collections
        stats = collections.Counter()
        viol = []
        w = statex.build(self, hist)
        w.apply(('noop', True))
        _pre, res, _q = w.last_cycle
        if any(b != a or eb != ea for (_n, b, eb, a, ea) in res):
            stats['c02_states_not_quiescent'] += 1
            return viol, dict(stats)
        stats['c02_states_quiescent'] += 1
        suffix0 = (('noop', True),)
        for idx in range(len(self.cfg['probes'])):
            w2 = statex.build(self, tuple(hist) + suffix0)
            mark = len(w2.viol)
            before = collections.Counter(w2.stats)
            ev = ('probe', idx, True)
            ok, exc = statex.step(self, w2, ev)
            delta = collections.Counter(w2.stats)
            delta.subtract(before)
            stats.update(delta)
            if not ok:
                stats['impl_exceptions'] += 1
                continue
            for v in w2.viol[mark:]:
                v = dict(v)
                v['suffix'] = suffix0 + (ev,)
                viol.append(v)
        return viol, {k: v for k, v in stats.items() if v}


def _k1():
    cfg = cellcfg.k1()
    cfg['monitors'] = [cellmon.mon_c02_aggregates]
    cfg['allow_nocycle'] = False
    # two instances of one shape class with incomparable, unsatisfiable
    # demands (the feasibility tracker's shortcut is keyed by shape class)
    cfg['templates']['wa'] = {'prio': 50, 'demand': [12, 1, 1], 'aff': 'w'}
    cfg['templates']['wb'] = {'prio': 50, 'demand': [1, 12, 1], 'aff': 'w'}
    cfg['events'] = cellcfg.ev(
        ('add', 'sm'), ('add', 'sk'), ('add', 'ks'), ('add', 'hi'),
        ('add', 'lo'), ('add', 'wa'), ('add', 'wb'),
        ('rm', 0), ('rm', 1), ('prio', 0, 100),
        ('down', 's0'), ('up', 's0'), ('down', 's1'), ('up', 's1'),
        ('frz', 's2', -1), ('up', 's2'),
        ('srm', 's0'), ('sadd', 's0', 0), ('sadd', 's0', 1),
        ('srm', 's2'), ('sadd', 's2', 0),
        ('idg', 'g', 2),
    )
    cfg['probes'] = [
        {'demand': [10, 10, 10], 'aff': 'x', 'rank': 100},
        {'demand': [10, 4, 10], 'aff': 'x', 'rank': 50},
        {'demand': [4, 10, 10], 'aff': 'x', 'rank': 150},
        {'demand': [3, 3, 3], 'aff': 'a', 'rank': 150, 'prio': 1},
        {'demand': [2, 6, 2], 'aff': 'c', 'rank': 100, 'idg': 'g'},
        {'demand': [6, 2, 2], 'aff': 'b', 'rank': 100, 'lease': DAY},
        {'demand': [8, 8, 8], 'aff': 'e', 'rank': 150, 'prio': 1},
        {'demand': [1, 1, 1], 'aff': 'x', 'rank': 100, 'lease': 30 * DAY},
        {'demand': [2, 2, 2], 'aff': 'w', 'rank': 150},
    ]
    return cfg


def _k2():
    cfg = cellcfg.k2()
    cfg['monitors'] = [cellmon.mon_c02_aggregates]
    cfg['allow_nocycle'] = False
    cfg['templates']['u2'] = {'prio': 60, 'demand': [6, 6, 6], 'aff': 'd',
                              'alloc': 'a', 'traits': T2}
    cfg['events'] = cellcfg.ev(
        ('add', 'pl'), ('add', 't1'), ('add', 'p2'), ('add', 't2'),
        ('add', 'u2'), ('add', 'hi'),
        ('rm', 0), ('rm', 1),
        ('down', 's0'), ('up', 's0'), ('down', 's3'), ('up', 's3'),
        ('srm', 's0'), ('sadd', 's0', 0), ('sadd', 's0', 1),
        ('srm', 's1'), ('sadd', 's1', 1), ('srm', 's3'), ('sadd', 's3', 0),
    )
    cfg['probes'] = [
        {'demand': [6, 6, 6], 'aff': 'd', 'rank': 150, 'label': '_default'},
        {'demand': [3, 3, 3], 'aff': 'x', 'rank': 100, 'label': '_default',
         'traits': T1},
        {'demand': [2, 6, 2], 'aff': 'c', 'rank': 50, 'label': 'p2',
         'traits': T1 | T2},
        {'demand': [10, 10, 10], 'aff': 'x', 'rank': 100, 'label': 'p2'},
        {'demand': [10, 6, 10], 'aff': 'e', 'rank': 100, 'label': '_default'},
        {'demand': [6, 10, 10], 'aff': 'x', 'rank': 150, 'label': 'p2',
         'traits': T1},
        {'demand': [6, 6, 6], 'aff': 'd', 'rank': 150, 'label': 'p2',
         'traits': T2},
    ]
    return cfg


def _k3():
    lim = {'rack': 1, 'cell': 2}
    cfg = cellcfg.k3(lim)
    cfg['monitors'] = [cellmon.mon_c02_aggregates]
    cfg['allow_nocycle'] = False
    cfg['events'] = cellcfg.ev(
        ('add', 'la'), ('add', 'lb'), ('add', 'fill'), ('add', 'mid'),
        ('rm', 0), ('rm', 1),
        ('down', 's0'), ('up', 's0'), ('down', 's2'), ('up', 's2'),
        ('srm', 's1'), ('sadd', 's1', 0), ('rld',),
    )
    cfg['probes'] = [
        {'demand': [3, 3, 3], 'aff': 'lim', 'limits': lim, 'rank': 100},
        {'demand': [3, 3, 3], 'aff': 'lim', 'limits': lim, 'rank': 150},
        {'demand': [10, 10, 10], 'aff': 'lim', 'limits': lim, 'rank': 50},
        {'demand': [7, 7, 7], 'aff': 'x', 'rank': 100},
        {'demand': [10, 10, 10], 'aff': 'fill', 'rank': 150, 'prio': 1},
        # same affinity, same limit VALUES, declared for other levels (two
        # manifests may name one affinity and declare different limits): a
        # pending 'lim' instance blocked by the rack / cell limit says nothing
        # about this one
        {'demand': [3, 3, 3], 'aff': 'lim', 'limits': {'server': 1, 'pod': 2},
         'rank': 150},
        {'demand': [6, 6, 6], 'aff': 'lim', 'limits': {'pod': 1, 'rack': 2},
         'rank': 150},
    ]
    return cfg


def _k5():
    """Leases next to reboot dates: a leased instance can be pending only
    because of server lifetime; probes of the same shape class with a shorter
    or no lease must still find the short-lived server."""
    cfg = cellcfg.k5()
    cfg['monitors'] = [cellmon.mon_c02_aggregates]
    cfg['idgroups'] = {}
    cfg['allow_nocycle'] = False
    cfg['events'] = cellcfg.ev(
        ('add', 'l1'), ('add', 'l7'), ('add', 'nl'), ('add', 'hi'),
        ('rm', 0), ('rm', 1),
        ('down', 's1'), ('up', 's1'),
        ('tick', DAY // 2), ('tick', 3 * DAY),
    )
    cfg['probes'] = [
        {'demand': [6, 2, 2], 'aff': 'b', 'rank': 100},
        {'demand': [6, 3, 3], 'aff': 'b', 'rank': 100, 'lease': DAY // 2},
        {'demand': [3, 3, 3], 'aff': 'a', 'rank': 100},
        {'demand': [3, 3, 3], 'aff': 'a', 'rank': 100, 'lease': 7 * DAY},
        {'demand': [10, 10, 10], 'aff': 'd', 'rank': 100, 'lease': DAY // 2},
        {'demand': [6, 6, 6], 'aff': 'c', 'rank': 150, 'lease': DAY},
    ]
    return cfg


class MasterProbeSpec(_masterprop.MasterSpec):
    """World B: no probes, the aggregate clause after every cycle."""
    probe = None


def _m2():
    """World B: partition / trait / capacity changes of registered servers
    through the real Loader (reload_server, adjust_presence, load_cell);
    the aggregates of racks and cell must follow."""
    cfg = mastercfg.m2()
    cfg['cellmonitors'] = [cellmon.mon_c02_aggregates]
    cfg['monitors'] = [mastermon.mon_c02_zk]
    cfg['allow_nocycle'] = False
    # a server that starts offering a trait nobody offered (or listed) before
    cfg['servers']['s1']['variants'].append(
        {'cap': ['10M', '6%', '10M'], 'partition': None,
         'traits': ['t1', 'nosuch']})
    cfg['events'] = mastercfg.ev(
        ('app+', 'pl'), ('app+', 't1'), ('app+', 'tx'), ('app-', 0),
        ('srv', 's1', 2),
        ('srv', 's0', 1), ('srv', 's0', 2), ('srv', 's0', 0),
        ('srv', 's1', 1), ('srv', 's1', 0),
        ('pres-', 's0'), ('pres+', 's0', 1), ('pres+', 's0', 0),
        ('pres-', 's2'), ('pres+', 's2', 0),
        ('pres-', 's3'), ('pres+', 's3', 0),
        ('cell-', 'rack:1'), ('cell+', 'rack:1'),
        ('noop',), ('restart',),
    )
    return cfg


def configs(ctx):
    if ctx.quick:
        return [('K1', _k1(), 4, 0), ('K2', _k2(), 4, 0), ('K3', _k3(), 4, 0),
                ('K5', _k5(), 4, 0), ('M2', _m2(), 3, 0, MasterProbeSpec)]
    return [('K1', _k1(), 6, 0), ('K2', _k2(), 6, 0), ('K3', _k3(), 6, 0),
            ('K5', _k5(), 6, 0), ('M2', _m2(), 5, 0, MasterProbeSpec)]


RULE = ('BFS over histories (servers down/up/removed/re-added, instances '
        'removed, pressure); at every distinct quiescent state each probe '
        'template is submitted to a dedicated root-level allocation and the '
        'next cycle is compared with a leaf-scan oracle; non-trivial = probes '
        'for which the oracle says "fits"')
NT = ['c02_probes_fitting', 'c02_probes_not_fitting', 'c02_states_quiescent']


def run(ctx):
    out = _cellprop.run_configs(ctx, configs(ctx), NT, RULE,
                                _cellprop.BASE_ASSUMPTIONS + [
        'probes go to a dedicated uncapped allocation directly under the '
        'partition root so that the order of all other instances is unchanged '
        '(soundness argument in DESIGN C02)'], spec_cls=ProbeSpec)
    return out


def replay(ctx, data):
    return _cellprop.replay_config(ctx, configs(ctx), data, spec_cls=ProbeSpec)
