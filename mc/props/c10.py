"""C10 - a master crash at any point never leaves an instance placed twice."""
import collections

from mc import statex
from mc.props import _cellprop, _masterprop
from mc.worlds import mastercfg, mastermon

BUDGET = {'quick': 600, 'thorough': 2400}


class Spec(_masterprop.MasterSpec):
    """BFS over World-B histories; at every distinct state, for every enabled
    event, the publication step that follows it (reschedule, or the start-up
    of a new master) is cut before each of its storage writes."""
    exception_clause = None

    def probe(self, hist):
        stats = collections.Counter()
        viol = []
        base = statex.build(self, hist)
        if base.dead:
            return viol, {}
        menu = [e for e in base.enabled() if e[-1]]
        for e in menu:
            extra = ()
            if e[0] == 'restart':
                pre = ()
                step = 'restart'
            elif self.cfg.get('crash_in_handlers'):
                # thorough: the master may also die inside the event handlers
                # (process_events deleting event nodes, remove_app, reload /
                # restore of a server), not only while publishing the cycle
                pre = ()
                step = 'event'
                extra = (tuple(e),)
            else:
                pre = (tuple(e[:-1]) + (False,),)
                step = 'cycle'
            w = statex.build(self, tuple(hist) + pre)
            ok, n = self._count(w, step, extra[0] if extra else None)
            if not ok:
                stats['impl_exceptions'] += 1
                continue
            stats['c10_steps'] += 1
            if n > 2:
                stats['c10_steps_with_placement_writes'] += 1
            for k in range(n):
                ev = ('crash', step, k) + extra + (True,)
                w2 = statex.build(self, tuple(hist) + pre)
                mark = len(w2.viol)
                before = collections.Counter(w2.stats)
                ok, _exc = statex.step(self, w2, ev)
                delta = collections.Counter(w2.stats)
                delta.subtract(before)
                stats.update(delta)
                if not ok:
                    stats['impl_exceptions'] += 1
                    continue
                for v in w2.viol[mark:]:
                    v = dict(v)
                    v['suffix'] = pre + (ev,)
                    viol.append(v)
                if w2.viol[mark:] or w2.dead:
                    continue
                # what the new master does next with the state it restored
                for follow in self.cfg.get('after_crash', ()):
                    # one event, or a short sequence of events
                    seq = follow if isinstance(follow[0], tuple) \
                        else (follow,)
                    w3 = statex.build(self, tuple(hist) + pre + (ev,))
                    done = ()
                    for fev in seq:
                        if w3.dead or fev not in w3.enabled():
                            break
                        mark3 = len(w3.viol)
                        ok, exc = statex.step(self, w3, fev)
                        done += (fev,)
                        stats['c10_follow_ups'] += 1
                        if not ok:
                            if self.exception_clause:
                                viol.append({
                                    'clause': self.exception_clause,
                                    'site': exc['site'], 'detail': exc,
                                    'suffix': pre + (ev,) + done})
                            break
                        for v in w3.viol[mark3:]:
                            v = dict(v)
                            v['suffix'] = pre + (ev,) + done
                            viol.append(v)
                        if w3.viol[mark3:]:
                            break
        return viol, {k: v for k, v in stats.items() if v}

    @staticmethod
    def _count(w, step, event=None):
        try:
            return True, w.count_writes(step, event)
        except Exception:  # pylint: disable=broad-except
            return False, 0


def _m1(quick):
    cfg = mastercfg.m1()
    cfg['crash_in_handlers'] = True
    cfg['monitors'] = [mastermon.mon_c09]
    cfg['allow_nocycle'] = True
    # non-initial start states (DESIGN 2.2): two placed instances, pressure
    cfg['seeds'] = [
        (),
        (('app+', 'id', True), ('app+', 'id', True)),
        (('app+', 'sm', True), ('app+', 'hi', True), ('app+', 'hi', True)),
        (('app+', 'sm', True), ('app+', 'sm', True), ('app+', 'sm', True)),
    ]
    cfg['events'] = mastercfg.ev(
        ('app+', 'sm'), ('app+', 'id'), ('app+', 'hi'), ('app+', 'on'),
        ('app-', 0), ('prio', 0, 100),
        ('pres-', 's0'), ('pres+', 's0', 0), ('pres+', 's0', 1),
        ('pres-', 's1'), ('pres+', 's1', 0), ('pres-', 's2'), ('pres+', 's2', 0),
        ('srv', 's0', 1), ('srv-', 's1'), ('srv+', 's1', 0),
        ('idg', 'g', 1), ('idg', 'g', 2),
        ('state', 's0', 'frozen', 0), ('state', 's0', 'up', -1),
        ('cell-', 'rack:1'), ('cell+', 'rack:1'), ('cell-', 'rack:0'),
        ('tick', 40), ('noop',), ('restart',),
    )
    return cfg


def _m2():
    """Two partitions: an allocations event re-assigns a placed instance, the
    next cycle takes it off its server outside the placement loop and places
    it in the other partition."""
    cfg = mastercfg.m2()
    cfg['crash_in_handlers'] = True
    cfg['monitors'] = [mastermon.mon_c09]
    cfg['allow_nocycle'] = True
    cfg['seeds'] = [
        (),
        (('app+', 'pl', True), ('app+', 't1', True)),
    ]
    cfg['events'] = mastercfg.ev(
        ('app+', 'pl'), ('app-', 0),
        ('alloc', 1), ('alloc', 2), ('alloc', 0),
        ('srv', 's0', 1), ('srv', 's0', 0), ('srv', 's1', 1),
        ('pres-', 's0'), ('pres+', 's0', 0), ('noop',), ('restart',),
    )
    return cfg


def configs(ctx):
    if ctx.quick:
        return [('M1', _m1(True), 1, 1), ('M2', _m2(), 1, 1)]
    return [('M1', _m1(False), 3, 1), ('M2', _m2(), 3, 1)]


RULE = ('BFS over World-B histories; at every distinct state and for every '
        'enabled event the following publication step (reschedule, or '
        'load_model+init_schedule+first cycle of a new master) is cut before '
        'each storage write k; at the cut no instance may be recorded under '
        'two servers; a new master started on the cut state must complete '
        'start-up, pass its integrity check and publish a placement equal to '
        'its model; non-trivial = cuts inside steps that write placement '
        'records')
NT = ['c10_cuts', 'c10_steps_with_placement_writes']


def run(ctx):
    out = _cellprop.run_configs(ctx, configs(ctx), NT, RULE,
                                _masterprop.ASSUMPTIONS + [
        'crash = the master process stops before its k-th create/set/delete '
        'reaches ZooKeeper; writes are atomic and ordered (single client)'],
        spec_cls=Spec)
    cov = out['coverage']
    cov['crash_points'] = cov['nontrivial_counters'].get('c10_cuts', 0)
    cov['evaluations'] = cov['transitions'] + cov['crash_points']
    cov['traces_validated_against_impl'] = cov['evaluations']
    return out


def replay(ctx, data):
    return _cellprop.replay_config(ctx, configs(ctx), data, spec_cls=Spec)
