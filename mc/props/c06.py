"""C06 - the scheduling queue orders instances by rank, reservation, priority.

Bounded-exhaustive sweep (mc.boundx) of allocation trees x instance populations
against a reference written from the statement (mc/c06_model.py), plus a small
sweep through the real `Loader.load_allocations / load_app / find_assignment`
on an in-memory backend (mc/c06_loader.py) and a bounded-exhaustive sweep of
Loader histories that re-read priorities (mc/c06_reprio.py).  Nothing is sampled; the exact
products swept are listed in the evidence (`slices`, `loader_slice`).
"""
from mc import boundx
from mc import c06_model as M
from mc import c06_loader as L
from mc import c06_reprio as R

BUDGET = {'quick': 240, 'thorough': 3000}

# String-hash iteration order cannot reach the code under test: allocations,
# instances and servers are kept in insertion-ordered dicts
# (Allocation.apps / sub_allocations, Cell.apps, Bucket.children_by_name,
# Loader.assignments lists), the queue is built by sorted()/heapq.merge over
# keys that end in the distinct integer global_order, and the only set on the
# path (Server.labels) has one element.  Confirmed by comparing a sha256 of
# every observation of 71 664 quick-tier cases under hash seeds 17, 1000020
# and 4242: identical.
HASH_INSENSITIVE = True

RULE = ('a case (tree x population in arrival order) is non-trivial when it '
        'has at least two instances, i.e. when the order is constrained; the '
        'antecedents of the individual clauses are counted separately in '
        'nontrivial_counters and each must have fired')

ASSUMPTIONS = [
    'time.time is the virtual clock of mc/vclock.py (tick 2^-19 s): instances '
    'are created in arrival order and get distinct, increasing global_order',
    'priority-0 instances have infinite utilisation by definition (DESIGN '
    '5/C06): never within a reservation, always beyond a finite cap',
    'the boost clause is one-directional: an instance that is not within its '
    'reservation may carry either the plain or the boosted rank (the code '
    'also boosts the first instance crossing the reservation)',
    'a running instance is one that Server.put placed before the observed '
    'cycle; the cell has one up server of capacity 20/20/20 (larger than '
    'every population), so no eviction for capacity happens',
    'Allocation.utilization_queue is observed with the free capacity of an '
    'empty partition (zeros), Cell.schedule with the 20/20/20 server',
    'menus are integers with no zero demand dimension and non-negative rank '
    'adjustments (DESIGN 5/C06 X); rank and rank adjustment are independent '
    '(both 0..100 in etc/schema/common.json), so menus NB1 / NB and the '
    'Loader allocation t3 have rank adjustment > rank: the boosted rank '
    '"rank minus rank adjustment" is then negative and sorts before rank 0',
    'loader slice: the backend is an in-memory object with get / get_default '
    '/ list; servers are attached to the Loader cell by the harness',
    're-prioritisation slice: first-come is the order of the submit events; '
    'a priority re-read (manifest or assignment) through Loader.load_app / '
    'load_allocations + load_apps must not change it; histories start from '
    'an empty cell and have exactly the stated depth',
    'deep-tree slices: forests of 4-5 nodes up to depth 4-5 below the '
    'partition root with the reduced menus ND / ND2 / IZ',
]

MUST_FIRE = (
    'some_within_reservation', 'some_beyond_cap',
    'running_instance_beyond_cap', 'priority0_shares_rank',
    'two_or_more_ranks', 'allocation_with_2plus_instances',
    'pending_arrived_before_running_same_priority',
    'allocations_interleaved', 'fresh_world_cross_checks',
    'within_reservation_negative_boosted_rank',
    'negative_boosted_rank_competes_up_to_rank_0')


# Three written-out cases shown first in the evidence samples (they are run on
# the real code and judged like every swept case): a nested tree with a boost,
# a cap that evicts a running priority-0 instance and a low-rank sibling; the
# code's extra boost of the instance that crosses the reservation (tolerated);
# two sibling tenants of equal rank where the priority-0 instance of the less
# utilised one must still come last.
SHOWCASE = [
    M.make_case([-1, 0, -1],
                [([4, 2, 2], 100, 10, None), ([2, 2, 2], 100, 10, 1),
                 ([2, 2, 2], 50, 0, 2)],
                [(0, 1, (2, 1, 1), 1), (1, 0, (1, 1, 1), 1),
                 (2, 100, (3, 3, 3), 0), (1, 50, (2, 1, 1), 0)]),
    M.make_case([-1], [([2, 2, 2], 100, 10, None)],
                [(0, 1, (1, 1, 1), 0), (0, 1, (2, 1, 1), 0),
                 (0, 1, (1, 1, 1), 0)]),
    M.make_case([-1, -1],
                [([4, 2, 2], 100, 0, None), ([0, 0, 0], 100, 0, None)],
                [(0, 0, (1, 1, 1), 0), (1, 1, (3, 3, 3), 0)]),
]


def _showcase():
    samples, violations = [], []
    for case in SHOWCASE:
        obs = M.observe(case)
        M.confirmed(case, obs)
        bad, ref = M.check(case, obs)
        samples.append({
            'case': case, 'utilization_queue': obs[0],
            'handed_to_placement': obs[1], 'placed_after_cycle': obs[2],
            'reference (name, within, beyond_cap) per node': ref})
        for clause, site, detail in bad:
            detail = dict(detail)
            detail['case'] = case
            violations.append({'clause': clause, 'site': site,
                               'detail': detail, 'count': 1,
                               'replay': {'kind': 'tree', 'case': case}})
    return samples, violations


def run(ctx):
    tier = ctx.tier
    chunks = M.chunks(tier)
    slices = M.describe_slices(tier)
    total = sum(s['cases'] for s in slices)
    ctx.log('tree sweep: %d cases in %d chunks' % (total, len(chunks)))
    cap = ctx.budget_s * 0.9 if ctx.budget_s else None
    res = boundx.sweep(chunks, M.worker, workers=ctx.workers, time_cap=cap)
    ctx.log('tree sweep done: %d cases in %.1fs' % (res.cases, res.wall_s))
    if res.exhaustive and res.cases != total:
        raise RuntimeError('C06: swept %d cases, stated product has %d'
                           % (res.cases, total))
    lres = boundx.sweep(L.chunks(tier), L.worker, workers=ctx.workers)
    ctx.log('loader sweep done: %d cases in %.1fs' % (lres.cases, lres.wall_s))
    rres = boundx.sweep(R.chunks(tier), R.worker, workers=ctx.workers)
    ctx.log('re-prioritisation sweep done: %d histories in %.1fs'
            % (rres.cases, rres.wall_s))
    rdesc = R.describe(tier)
    if rres.cases != rdesc['histories']:
        raise RuntimeError('C06: swept %d histories, stated %d'
                           % (rres.cases, rdesc['histories']))
    counters = dict(res.counters)
    for k, v in lres.counters.items():
        counters['loader_' + k] = v
    for k, v in rres.counters.items():
        counters['reprio_' + k] = v
    # only a silent run can be vacuous (a changed tree that is reported may
    # legitimately starve a counter)
    silent = not (res.violations or lres.violations or rres.violations)
    for k in R.MUST_FIRE:
        if silent and not counters.get('reprio_' + k):
            raise RuntimeError('C06: vacuous re-prioritisation sweep, %s '
                               'never fired' % k)
    if res.exhaustive and silent:
        for k in MUST_FIRE:
            if not counters.get(k):
                raise RuntimeError('C06: vacuous sweep, %s never fired' % k)
    for k in L.MUST_FIRE:
        if silent and not counters.get('loader_' + k):
            raise RuntimeError('C06: vacuous loader sweep, %s never fired' % k)
    show, show_viol = _showcase()
    for v in show_viol:
        res.note(v)
    violations = (res.violation_list() + lres.violation_list() +
                  rres.violation_list())
    cases = res.cases + lres.cases + rres.cases + len(SHOWCASE)
    entries = (counters.get('queue_entries', 0) +
               counters.get('loader_queue_entries', 0) +
               counters.get('reprio_queue_entries', 0))
    cov = {
        'states': cases,
        'transitions': entries,
        'traces_validated_against_impl': cases,
        'executions': cases,
        'evaluations': (counters.get('judgements', 0) +
                        counters.get('loader_judgements', 0) +
                        counters.get('reprio_judgements', 0)),
        'distinct_nontrivial': (res.nontrivial + lres.nontrivial +
                                rres.nontrivial),
        'rule': RULE,
        'what_is_counted': {
            'states': 'distinct inputs (tree, population in arrival order), '
                      'each run once on the real code',
            'transitions': 'queue entries produced by the real code and '
                           'examined (utilization_queue + order handed to '
                           '_find_placements)',
            'evaluations': 'observed orders judged against the reference'},
        'nontrivial_counters': counters,
        'samples': (show + res.samples[:3] + lres.samples[:2] +
                    rres.samples[:2]),
        'exhaustive': bool(res.exhaustive and lres.exhaustive and
                           rres.exhaustive),
        'caps_hit': res.caps_hit + lres.caps_hit + rres.caps_hit,
        'slices': slices,
        'node_menus': M.NODE_MENUS,
        'instance_menus': {k: [list(map(_plain, v)) for v in m]
                           for k, m in M.INST_MENUS.items()},
        'loader_slice': L.describe(tier),
        'reprio_slice': rdesc,
        'clauses': [
            'each-instance-exactly-once', 'ranks-non-decreasing',
            'allocation-priority-order', 'priority-zero-last-in-rank',
            'within-reservation-boosted-rank', 'beyond-cap-unplaced-rank',
            'beyond-cap-not-scheduled', 'uncapped-given-unplaced-rank',
            'rank-not-of-allocation', 'loader-assignment'],
        'chunks': [res.chunks_done + lres.chunks_done,
                   res.chunks_total + lres.chunks_total],
        'sweep_wall_s': round(res.wall_s + lres.wall_s, 1),
    }
    # dynamic slice: exactly-once while instances are moved between
    # allocations / re-prioritised / removed (statex over World-A histories)
    from mc import c06_moves
    moves = c06_moves.run_moves(ctx)
    mc = moves['coverage']
    cov['moves_slice'] = {
        'states': mc['states'], 'transitions': mc['transitions'],
        'configs': mc['configs'], 'caps_hit': mc['caps_hit'],
        'nontrivial_counters': mc['nontrivial_counters'],
        'samples': mc['samples'][:2],
    }
    cov['states'] += mc['states']
    cov['transitions'] += mc['transitions']
    cov['evaluations'] += mc['transitions']
    cov['traces_validated_against_impl'] += mc['transitions']
    if mc['caps_hit']:
        cov['exhaustive'] = False
        cov.setdefault('caps_hit', []).extend(mc['caps_hit'])
    violations = violations + moves['violations']
    return {'coverage': cov, 'violations': violations,
            'assumptions': ASSUMPTIONS + [
                'dynamic exactly-once slice: World A (mc/worlds/cellworld.py) '
                'K2 with a third allocation, moves between allocations, '
                'bounded depth/deviations in coverage.moves_slice']}


def _plain(x):
    return list(x) if isinstance(x, tuple) else x


def replay(ctx, data):
    if 'config' in data and 'history' in data:
        from mc import c06_moves
        return c06_moves.replay_moves(ctx, data)
    if data.get('kind') == 'loader':
        out = L.replay_case(data['case'])
    elif data.get('kind') == 'reprio':
        out = R.replay_case(data['case'])
    else:
        case = data['case']
        obs = M.observe(case)
        M.confirmed(case, obs)
        bad, _ref = M.check(case, obs)
        out = []
        seen = set()
        for clause, site, detail in bad:
            if (clause, site) in seen:
                continue
            seen.add((clause, site))
            detail = dict(detail)
            detail['case'] = case
            detail['queue'] = obs[0]
            detail['handed_to_placement'] = obs[1]
            detail['placed_after_cycle'] = obs[2]
            out.append({'clause': clause, 'site': site, 'detail': detail,
                        'count': 1, 'replay': data})
    return {'coverage': {}, 'violations': out}
