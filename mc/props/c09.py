"""C09 - the published placement equals the scheduler's model after every cycle."""
from mc.props import _cellprop, _masterprop
from mc.worlds import mastercfg, mastermon

BUDGET = {'quick': 600, 'thorough': 2400}


class Spec(_masterprop.MasterSpec):
    exception_clause = 'cycle-failed'


def _m1():
    cfg = mastercfg.m1()
    cfg['monitors'] = [mastermon.mon_c09]
    # deviation 'S': the master's watches fire between the two writes of one
    # admin API call (the calls below go through the real masterapi)
    cfg['split_kinds'] = ('alloc', 'idg', 'idg-', 'cell-', 'cell+', 'prio')
    cfg['events'] = mastercfg.ev(
        ('app+', 'sm'), ('app+', 'id'), ('app+', 'hi'), ('app+', 'on'),
        ('app+', 'ls'),
        ('app-', 0), ('app-', 1), ('prio', 0, 100),
        ('pres-', 's0'), ('pres+', 's0', 0), ('pres+', 's0', 1),
        ('pres-', 's1'), ('pres+', 's1', 0),
        ('srv', 's0', 1), ('srv', 's0', 0), ('srv-', 's1'), ('srv+', 's1', 0),
        ('alloc', 1), ('alloc', 0),
        ('idg', 'g', 1), ('idg', 'g', 2), ('idg-', 'g'),
        ('state', 's0', 'frozen', -1), ('state', 's0', 'frozen', 0),
        ('state', 's0', 'up', -1), ('state', 's1', 'down', -1),
        ('bl', 1), ('bl', 0),
        ('cell-', 'rack:0'), ('cell+', 'rack:0'),
        ('blk', 's0', 1), ('blk', 's0', 0),
        ('tick', 40), ('noop',), ('restart',),
        ('dup', 0, 's0'), ('dup', 0, 's1'),
    )
    return cfg


def _m4():
    cfg = mastercfg.m4()
    cfg['monitors'] = [mastermon.mon_c09]
    # an identity holder evicted first (not enough room), then a bigger
    # instance (enough): the holder comes back in place within the cycle
    cfg['templates']['big'] = {'memory': '8M', 'cpu': '8%', 'disk': '8M',
                               'affinity': 'f', 'priority': 60}
    cfg['templates']['mid'] = {'memory': '8M', 'cpu': '8%', 'disk': '8M',
                               'affinity': 'm', 'priority': 100}
    cfg['events'] = mastercfg.ev(
        ('app+', 'id'), ('app+', 'ls'), ('app+', 'big'), ('app+', 'mid'),
        ('app-', 0), ('app-', 1),
        ('idg', 'g', 1), ('idg', 'g', 2), ('idg', 'g', 3),
        ('pres-', 's0'), ('pres+', 's0', 0), ('srv', 's0', 1),
        ('noop',), ('restart',),
    )
    return cfg


def _m2():
    """Two partitions: an allocations event moves a placed instance to the
    tenant of the other partition (the scheduler takes it off its server at
    the start of the next cycle, outside the placement loop)."""
    cfg = mastercfg.m2()
    cfg['monitors'] = [mastermon.mon_c09]
    cfg['allow_nocycle'] = False
    cfg['events'] = mastercfg.ev(
        ('app+', 'pl'), ('app+', 't1'), ('app+', 'hi'), ('app-', 0),
        ('alloc', 1), ('alloc', 2), ('alloc', 0),
        ('srv', 's0', 1), ('srv', 's0', 0), ('srv', 's1', 1),
        ('pres-', 's0'), ('pres+', 's0', 0), ('noop',), ('restart',),
    )
    return cfg


def _late():
    """Late watch delivery (deviation 'L'): a children list captured when the
    change happened is processed after later changes reached ZooKeeper."""
    cfg = mastercfg.m1()
    cfg['monitors'] = [mastermon.mon_c09]
    cfg['allow_late'] = True
    cfg['allow_nocycle'] = False
    cfg['events'] = mastercfg.ev(
        ('app+', 'sm'), ('app+', 'id'), ('app-', 0), ('app-', 1),
        ('prio', 0, 100), ('prio', 1, 1), ('pres-', 's0'), ('pres+', 's0', 0),
        ('idg', 'g', 1), ('noop',), ('restart',),
    )
    return cfg


def configs(ctx):
    if ctx.quick:
        return [('M1', _m1(), 3, 1, Spec, 2.0), ('M4', _m4(), 5, 0, Spec, 1.0),
                ('M2', _m2(), 4, 0, Spec, 1.0),
                ('M1-lateq', _late(), 4, 1, Spec, 1.0)]
    late = _m1()
    late['allow_late'] = True
    return [('M1', _m1(), 5, 1, Spec, 2.0), ('M4', _m4(), 8, 1, Spec, 1.0),
            ('M2', _m2(), 5, 1, Spec, 1.0),
            ('M1-late', late, 4, 1, Spec, 1.0)]


RULE = ('BFS over histories of ZooKeeper-level events, each followed by a '
        'master cycle (<= 1 skipped cycle), incl. master restarts; after '
        'every init_schedule()/reschedule() the whole /placement tree is '
        'dumped and compared with Master.cell; non-trivial = cycles after '
        'which at least one instance is placed')
NT = ['c09_cycles_with_placed']


def run(ctx):
    return _cellprop.run_configs(ctx, configs(ctx), NT, RULE,
                                 _masterprop.ASSUMPTIONS, spec_cls=Spec)


def replay(ctx, data):
    return _cellprop.replay_config(ctx, configs(ctx), data, spec_cls=Spec)
