"""C13 - a container is running or in cleanup, never both, and follows the cache.

Explicit-state BFS (mc.statex) over histories of node events applied to the
real AppCfgMgr / Cleanup.invoke / MonitorContainerCleanup on a real temporary
directory (mc/c13_world.py).  See DESIGN 5/C13.
"""
import collections
import time

from mc import statex
from mc import c13_world as W

BUDGET = {'quick': 60, 'thorough': 570}

# events whose last element is the "notification delivered at once" flag;
# leaving it queued (0) is one deviation (DESIGN 2.2)
_FLAGGED = ('rdy', 'put', 'del', 'rep', 'fin')


class Lazy:
    """World handle given to statex: records the history and materialises the
    real world on first use, so that the successors of one replay-built state
    can start from a directory-tree checkpoint of that replay."""

    def __init__(self, spec):
        self.__dict__['_spec'] = spec
        self.__dict__['_hist'] = []
        self.__dict__['_w'] = None

    def real(self):
        if self._w is None:
            self.__dict__['_w'] = self._spec.materialise(tuple(self._hist))
        return self._w

    def __getattr__(self, name):
        return getattr(self.real(), name)


XCHECK_EVERY = 97       # every 97th successor is re-built by full replay


class NodeSpec(statex.Spec):
    def __init__(self, cfg, checkpoints=True):
        self.cfg = cfg
        self.checkpoints = checkpoints
        self._ck = None         # (history, token) of the last expanded state
        self._n = 0
        self.xchecks = 0

    def new_world(self):
        return Lazy(self)

    def replayed(self, hist):
        w = W.NodeWorld(self.cfg)
        for ev in hist:
            w.apply(tuple(ev))
        return w

    def materialise(self, hist):
        if self.checkpoints and self._ck is not None \
                and self._ck[0] == hist:
            return W.NodeWorld(self.cfg, token=self._ck[1])
        return self.replayed(hist)

    def apply(self, world, event):
        event = tuple(event)
        if world._w is not None:
            world._w.apply(event)
        world._hist.append(event)

    def enabled(self, world):
        w = world.real()
        menu = w.enabled()
        hist = tuple(world._hist)
        if self.checkpoints and (self._ck is None or self._ck[0] != hist):
            self._ck = (hist, w.checkpoint())
        return menu

    def canon(self, world):
        w = world.real()
        c = w.canon()
        self._n += 1
        if self.checkpoints and self._n % XCHECK_EVERY == 0:
            keys = sorted({(v['clause'], v['site']) for v in w.viol})
            w2 = self.replayed(tuple(world._hist))
            keys2 = sorted({(v['clause'], v['site']) for v in w2.viol})
            if w2.canon() != c or keys != keys2:
                raise statex.HarnessError(
                    'checkpoint and full replay disagree on %r'
                    % (world._hist,))
            w2.stats.clear()
            w.stats['checkpoint_crosschecks'] += 1
        return c

    def dev_cost(self, event):
        if event[0] == 'dlv':
            return 1 if len(event) > 1 else 0       # crash point
        return 1 if event[0] in _FLAGGED and event[-1] != 1 else 0

    def probe(self, history):
        hist = tuple(tuple(e) for e in history)
        w = self.replayed(hist)
        st = {'states_probed': 1}
        if w.two_generations():
            st['states_with_two_generations'] = 1
        if w.fifo:
            st['states_with_pending_notifications'] = 1
        if self.checkpoints:
            self._ck = (hist, w.checkpoint())
        return [], st


def configs(ctx, salt=None):
    """[(name, cfg, depth, max_deviations, share of the time budget)].  The
    deviation-free search comes first so that a violation that needs no
    deviation is reported with a deviation-free history."""
    if salt is None:
        salt = W.choose_salt()
    if ctx.quick:
        cfg = {'salt': salt, 'keys': ('a', 'b'),
               'maxgen': {'a': 2, 'b': 2},
               'bad': {'a': (0,), 'b': (0, 1)},
               'fin': ('exit',), 'late_tomb': False, 'boot': True,
               'rep': True, 'crash_points': 2}
        return [('N2x2-dev0', cfg, 7, 0, 0.3), ('N2x2-dev2', cfg, 6, 2, 0.7)]
    cfg = {'salt': salt, 'keys': ('a', 'b'),
           'maxgen': {'a': 2, 'b': 2},
           'bad': {'a': (0,), 'b': (0, 1)},
           'fin': ('exit', 'abort', 'oom'), 'late_tomb': True, 'boot': True,
           'rep': True, 'crash_points': 3}
    return [('N2x2-dev0', cfg, 10, 0, 0.25), ('N2x2-dev2', cfg, 9, 2, 0.75)]


RULE = ('BFS over histories of node events (cache put/del by eventmgr x '
        '{notification delivered at once, queued}, FIFO delivery, .ready '
        'flips, manager restart, node boot, container finish, cleanup '
        'completion); non-trivial = distinct states in which two generations '
        'of one instance coexist under apps/ (states_with_two_generations); '
        'syncs with two generations and both iteration orders are counted '
        'separately')

ASSUMPTIONS = [
    'appcfg.configure.configure replaced by a stand-in doing its observable '
    'part (reads the event file, real gen_uniqueid/manifest_unique_name, '
    'creates apps/<unique>/data, raises ContainerSetupError for manifests '
    'marked bad, returns None when the event file is gone); runtime.finish '
    'replaced by its last step (rmtree of the container directory); '
    'supervisor.control_svscan is a no-op',
    'os.stat of cache files as seen by treadmill.appcfg is virtualised: '
    '(st_ino, st_ctime) is a function of (instance, generation, salt), so two '
    'generations get distinct unique ids; the salt is chosen per hash seed so '
    'that the set-iteration loop of _synchronize visits instance a older '
    'generation first and instance b newer generation first (both orders '
    'measured > 0)',
    'no threads, no inotify: the dirwatch queue is a FIFO kept by the harness; '
    'cache files removed by the manager itself (failed configure) enqueue '
    'their own deleted notification; a manager restart drops the queue; an '
    'exception escaping a handler is a process crash followed by a restart',
    'granularity: one handler call is atomic (the manager is single-threaded; '
    'other processes only rename/unlink); preemption inside a handler is '
    'outside',
    'boot = run_real.sh (rm running/* cleanup/*, .ready removed) followed by '
    'a fresh manager: the start-up case of the _synchronize docstring',
    'bounds: 2 instances x <= 2 generations, <= 2 undelivered-notification '
    'deviations per history, at most one unprocessed tombstone per instance',
]


def observe(spec, history):
    w = spec.replayed([tuple(e) for e in history])
    keys = sorted({(v['clause'], v['site']) for v in w.viol})
    return keys, statex.digest(w.canon())


def confirm(spec, hist, clause, site):
    o1 = observe(spec, hist)
    o2 = observe(spec, hist)
    if o1 != o2:
        raise statex.HarnessError('non-deterministic replay of %r' % (hist,))
    if (clause, site) not in o1[0]:
        raise statex.HarnessError(
            'violation %s/%s not reproduced by replay of %r (got %r)'
            % (clause, site, hist, o1[0]))


def run(ctx):
    W.make_run_root()
    try:
        return _run(ctx)
    finally:
        W.drop_run_root()


def _run(ctx):
    cov = {'states': 0, 'transitions': 0, 'samples': [], 'caps_hit': [],
           'configs': {}, 'nontrivial_counters': {}}
    violations = []
    cfgs = configs(ctx)
    exhaustive = True
    t_start = time.perf_counter()
    spent_share = 0.0
    for name, cfg, depth, max_dev, share in cfgs:
        spec = NodeSpec(cfg)
        spent_share += share
        # what an earlier configuration did not use is passed on
        cap = ctx.budget_s * 0.85 * spent_share - \
            (time.perf_counter() - t_start)
        res = statex.bfs(spec, depth, max_dev=max_dev, workers=ctx.workers,
                         time_cap=max(cap, 5.0),
                         progress=lambda m, n=name: ctx.log(n + ' ' + m),
                         chunk=8)
        cov['states'] += res.states
        cov['transitions'] += res.transitions
        cov['configs'][name] = {
            'cfg': cfg, 'depth_requested': depth,
            'depth_completed': res.depth_completed,
            'max_deviations': max_dev, 'states': res.states,
            'transitions': res.transitions, 'level_sizes': res.level_sizes,
            'space_exhausted': res.exhausted, 'wall_s': round(res.wall_s, 1)}
        exhaustive = exhaustive and not res.caps_hit
        cov['caps_hit'].extend('%s: %s' % (name, c) for c in res.caps_hit)
        for k, v in res.stats.items():
            cov['nontrivial_counters'][k] = \
                cov['nontrivial_counters'].get(k, 0) + v
        for s in res.samples[-3:]:
            cov['samples'].append({'config': name, 'history': s})
        for e in res.exceptions[:2]:
            cov.setdefault('impl_exception_samples', []).append(
                {'config': name, 'history': e['history'], 'exc': e['exc']})
        for v in res.violations.values():
            confirm(spec, v['history'], v['clause'], v['site'])
            violations.append({
                'clause': v['clause'], 'site': v['site'],
                'detail': v['detail'], 'count': v['count'],
                'replay': {'config': name, 'salt': cfg['salt'],
                           'history': v['history']}})
    nt = cov['nontrivial_counters']
    cov['depth_completed'] = min(c['depth_completed']
                                 for c in cov['configs'].values())
    cov['executions'] = cov['transitions']
    cov['traces_validated_against_impl'] = cov['transitions']
    cov['evaluations'] = nt.get('events', 0)
    cov['distinct_nontrivial'] = nt.get('states_with_two_generations', 0)
    cov['states_with_two_generations'] = nt.get(
        'states_with_two_generations', 0)
    cov['rule'] = RULE
    cov['exhaustive'] = exhaustive
    cov['impl_exceptions'] = nt.get('impl_exceptions', 0)
    for k in ('states_with_two_generations', 'syncs_with_two_generations',
              'syncs_two_gens_older_first', 'syncs_two_gens_newer_first',
              'sync_unchanged_running_checked', 'sync_uncached_checked',
              'sync_cached_checked', 'cleanups_completed', 'finishes'):
        if nt.get(k, 0) == 0:
            raise statex.HarnessError('vacuous run: counter %s is 0' % k)
    return {'coverage': cov, 'violations': violations,
            'assumptions': ASSUMPTIONS}


def replay(ctx, data):
    W.make_run_root()
    try:
        cfgs = {name: cfg for name, cfg, _d, _m, _s in
                configs(ctx, salt=data.get('salt'))}
        spec = NodeSpec(cfgs[data['config']])
        hist = [tuple(e) for e in data['history']]
        w = spec.replayed(hist)
        seen = collections.OrderedDict()
        for v in w.viol:
            seen.setdefault((v['clause'], v['site']), v)
        return {'coverage': {}, 'violations': [
            {'clause': c, 'site': s, 'detail': v['detail']}
            for (c, s), v in seen.items()]}
    finally:
        W.drop_run_root()
