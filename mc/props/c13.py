"""C13 - a container is running or in cleanup, never both, and follows the cache.

Explicit-state BFS (mc.statex) over histories of node events applied to the
real AppCfgMgr / Cleanup.invoke / MonitorContainerCleanup on a real temporary
directory (mc/c13_world.py).  See DESIGN 5/C13.
"""
import collections
import time

from mc import statex
from mc import c13_world as W

BUDGET = {'quick': 240, 'thorough': 1500}

# events whose last element is the "notification delivered at once" flag;
# leaving it queued (0) is one deviation (DESIGN 2.2)
_FLAGGED = ('rdy', 'put', 'del', 'rep', 'fin')


def _keys(w):
    return sorted({(v['clause'], v['site']) for v in w.viol})


class Lazy:
    """World handle given to statex: records the history and materialises the
    real world on first use, so that the successors of one replay-built state
    can start from a directory-tree checkpoint of that replay."""

    def __init__(self, spec):
        self.__dict__['_spec'] = spec
        self.__dict__['_hist'] = []
        self.__dict__['_w'] = None

    def real(self):
        if self._w is None:
            self.__dict__['_w'] = self._spec.materialise(tuple(self._hist))
        return self._w

    def __getattr__(self, name):
        return getattr(self.real(), name)


# bisimulation spot-check of the canonical key (DESIGN 2.2), when the engine
# offers it: every pair of histories merged at depth <= 3 must have the same
# menu and pairwise-merging successors with the same verdicts
BISIM = ({'bisim_depth': 3}
         if 'bisim_depth' in statex.bfs.__code__.co_varnames else {})
XCHECK_EVERY = 97       # every 97th successor is re-built by full replay


class NodeSpec(statex.Spec):
    def __init__(self, cfg, checkpoints=True):
        self.cfg = cfg
        self.checkpoints = checkpoints
        self._ck = None         # (history, token) of the last expanded state
        self._n = 0
        self.xchecks = 0

    def new_world(self):
        return Lazy(self)

    def replayed(self, hist):
        w = W.NodeWorld(self.cfg)
        for ev in hist:
            w.apply(tuple(ev))
        return w

    def materialise(self, hist):
        if self.checkpoints and self._ck is not None \
                and self._ck[0] == hist:
            return W.NodeWorld(self.cfg, token=self._ck[1])
        return self.replayed(hist)

    def apply(self, world, event):
        event = tuple(event)
        if world._w is not None:
            self._n += 1
            hist = tuple(world._hist)
            if self.checkpoints and self._n % XCHECK_EVERY == 0 \
                    and self._ck is not None and self._ck[0] == hist:
                # cross-check: the successor computed from the checkpoint
                # must equal the one built by replaying the whole history
                w2 = self.replayed(hist + (event,))
                c2, k2 = w2.canon(), _keys(w2)
                w = W.NodeWorld(self.cfg, token=self._ck[1])
                world.__dict__['_w'] = w
                w.apply(event)
                if w.canon() != c2 or _keys(w) != k2:
                    raise statex.HarnessError(
                        'checkpoint and full replay disagree on %r'
                        % (hist + (event,),))
                w.stats['checkpoint_crosschecks'] += 1
            else:
                world._w.apply(event)
        world._hist.append(event)

    def enabled(self, world):
        w = world.real()
        if w.viol:
            # a state in which an invariant is already violated is terminal:
            # what happens after it is a consequence, not a new finding
            return []
        menu = w.enabled()
        hist = tuple(world._hist)
        if self.checkpoints and (self._ck is None or self._ck[0] != hist):
            ck = w.checkpoint()
            self._ck = (hist, ck) if ck is not None else None
        return menu

    def canon(self, world):
        return world.real().canon()

    def dev_cost(self, event):
        if event[0] == 'dlv':
            return 1 if len(event) > 1 else 0       # crash point
        if event[0] == 'clf':
            return 1                                # finish() fails
        return 1 if event[0] in _FLAGGED and event[-1] != 1 else 0

    def probe(self, history):
        hist = tuple(tuple(e) for e in history)
        w = self.replayed(hist)
        st = {'states_probed': 1}
        if w.two_generations():
            st['states_with_two_generations'] = 1
        if w.fifo:
            st['states_with_pending_notifications'] = 1
        if self.checkpoints:
            ck = w.checkpoint()
            self._ck = (hist, ck) if ck is not None else None
        return [], st


def configs(ctx, salt=None):
    """[(name, cfg, depth, max_deviations, share of the time budget)].  The
    deviation-free search comes first so that a violation that needs no
    deviation is reported with a deviation-free history."""
    if salt is None:
        salt = W.choose_salt()
    base = {'salt': salt, 'keys': ('a', 'b'), 'maxgen': {'a': 2, 'b': 2},
            'bad': {'a': (0,), 'b': (0, 1)}, 'late_tomb': False,
            'boot': True, 'rep': True, 'split_cln': True}
    # one instance, the tombstone monitor lagging behind (its queue is a
    # second FIFO): the monitor names what it moves by instance.  Only plain
    # exits here: a lagging SIGABRT tombstone makes the monitor create a
    # real directory under running/ (flag_aborted on a vanished link), which
    # is a defect of the monitor but not a link, hence not C13
    tomb = {'salt': salt, 'keys': ('a',), 'maxgen': {'a': 2, 'b': 0},
            'bad': {'a': (0,)}, 'late_tomb': True, 'boot': False,
            'rep': False, 'crash_points': 0, 'ino_reuse': True}
    # one instance, Cleanup.invoke in two steps (finish; unlink) and the
    # manager killed between creating a container directory and linking it:
    # a resynchronisation that falls inside the cleanup of the older
    # generation while a newer one sits under apps/ without any link
    cln = {'salt': salt, 'keys': ('a',), 'maxgen': {'a': 2, 'b': 0},
           'bad': {'a': (0,)}, 'late_tomb': False, 'boot': False,
           'rep': True, 'crash_points': 1, 'split_cln': True,
           'fin': {'a': ('exit',)}, 'ino_reuse': True, 'fail_cln': True}
    if ctx.quick:
        cfg = dict(base, fin={'a': ('exit', 'abort'), 'b': ('oom',)},
                   crash_points=2)
        tomb = dict(tomb, fin={'a': ('exit',)})
        return [('N2x2-dev0', cfg, 7, 0, 0.2),
                ('N1x2-tomb', tomb, 8, 1, 0.1),
                ('N1x2-cln', cln, 9, 1, 0.15),
                ('N2x2-dev2', cfg, 6, 2, 0.55)]
    kinds = ('exit', 'abort', 'oom')
    cfg = dict(base, fin={'a': kinds, 'b': kinds}, crash_points=3)
    tomb = dict(tomb, fin={'a': ('exit',)})
    return [('N2x2-dev0', cfg, 10, 0, 0.2),
            ('N1x2-tomb', tomb, 10, 2, 0.1),
            ('N1x2-cln', cln, 11, 2, 0.1),
            ('N2x2-dev2', cfg, 9, 2, 0.6)]


RULE = ('BFS over histories of node events: cache file put / deleted / '
        'replaced in place by eventmgr, each x {dirwatch notification '
        'delivered at once, left in the FIFO (1 deviation), delivered and the '
        'manager killed after its k-th link operation (1 deviation)}; FIFO '
        'head delivery; .ready created/touched/deleted; manager restart; node '
        'boot; container finish (exit/abort/oom) with the monitor move at once '
        'or (config N1x2-tomb) later; completion of the cleanup of a given '
        'link, in two steps, or (config N1x2-cln, 1 deviation) failing inside '
        'finish() with the container directory still present.  non-trivial = distinct expanded states in which two '
        'generations of one instance coexist under apps/ '
        '(states_with_two_generations, counted over expanded states); syncs with '
        'two generations and both '
        'iteration orders are counted separately')

ASSUMPTIONS = [
    'seam: appcfg.configure.configure replaced by a stand-in doing its '
    'observable part (reads the event file, real gen_uniqueid / '
    'manifest_unique_name, creates apps/<unique>/data, raises '
    'ContainerSetupError for manifests marked bad, returns None when the event '
    'file is gone); runtime.get_runtime(...).finish() replaced by its last '
    'step (rmtree of the container directory); supervisor.control_svscan is a '
    'no-op; everything that moves a link is treadmill code (AppCfgMgr '
    'handlers, fs.replace/symlink_safe, MonitorContainerCleanup.execute, '
    'Cleanup.invoke)',
    'os.stat of cache files as seen by treadmill.appcfg is virtualised: '
    '(st_ino, st_ctime) is a function of (instance, generation, salt): all '
    'ctimes lie within one second, generations differ in inode and sub-second '
    'ctime (N2x2) or - inode re-used by the file system - in the sub-second '
    'ctime only (N1x2-tomb, N1x2-cln), so two generations get distinct unique '
    'ids on the unchanged tree; the salt is chosen per hash seed so '
    'that the set-iteration loop of _synchronize visits instance a older '
    'generation first and instance b newer generation first (both orders '
    'measured > 0, else the run fails as vacuous)',
    'no threads, no inotify: the dirwatch queue is a FIFO kept by the harness '
    '(created for IN_CREATE/IN_MOVED_TO, deleted for IN_DELETE, modified for a '
    're-opened .ready; dot files other than .ready are ignored by the manager '
    'and not queued); cache files removed by the manager itself (failed '
    'configure) enqueue their own deleted notification; a manager restart '
    'drops the queue; an exception escaping a handler is a process crash '
    'followed by a restart (counted, not a verdict)',
    'granularity: a handler call is atomic except for the enumerated crash '
    'points (manager killed right after its k-th symlink/rename/unlink under '
    'running/ or cleanup/, k <= crash_points); the every-state clauses are '
    'evaluated after every handler call and at every crash point; links whose '
    'name starts with a dot (temporary links of fs.symlink_safe) are not '
    'links for s6-svscan / the cleanup service and are ignored by the oracle',
    'boot = run_real.sh (rm -f running/* cleanup/*, .ready removed) followed '
    'by a fresh manager: the start-up case of the _synchronize docstring',
    'successors of a replay-built state are computed from a directory-tree + '
    'field checkpoint of that replay instead of replaying the history once per '
    'successor; every 97th successor is cross-checked against a full replay '
    '(checkpoint_crosschecks), and every reported violation is re-executed '
    'twice by full replay in fresh directories',
    'canonical state: cache entries (generation, bad flag, generations used, '
    'directory order), .ready, apps/ with container ids renamed to (instance, '
    'generation) and their data/ flag files, running/ and cleanup/ links '
    '(names normalised, temp names -> .tmp, non-links listed apart) with the '
    'site that made each, pending notification FIFO, pending tombstones, '
    'AppCfgMgr._is_active; validated by the engine\'s bisimulation spot-check '
    '(all pairs of histories merged at depth <= 3: same menu, pairwise-merging '
    'successors, same verdicts)',
    'pruned transitions (cannot change anything but the position of no-op '
    'notifications): instance events crash-point variants while the manager is '
    'inactive, touching .ready while it is active, restart of an inactive '
    'manager with an empty queue',
    'bounds: 2 instances x <= 2 generations, <= 2 deviations per history '
    '(undelivered notification, crash point, lagging tombstone), at most one '
    'unprocessed tombstone per instance; depth per configuration in '
    'coverage.configs',
]


def observe(spec, history):
    w = spec.replayed([tuple(e) for e in history])
    keys = sorted({(v['clause'], v['site']) for v in w.viol})
    return keys, statex.digest(w.canon())


def confirm(spec, hist, clause, site):
    o1 = observe(spec, hist)
    o2 = observe(spec, hist)
    if o1 != o2:
        raise statex.HarnessError('non-deterministic replay of %r' % (hist,))
    if (clause, site) not in o1[0]:
        raise statex.HarnessError(
            'violation %s/%s not reproduced by replay of %r (got %r)'
            % (clause, site, hist, o1[0]))


def run(ctx):
    W.make_run_root()
    try:
        return _run(ctx)
    finally:
        W.drop_run_root()


def _run(ctx):
    cov = {'states': 0, 'transitions': 0, 'samples': [], 'caps_hit': [],
           'configs': {}, 'nontrivial_counters': {}}
    violations = []
    cfgs = configs(ctx)
    exhaustive = True
    t_start = time.perf_counter()
    spent_share = 0.0
    for name, cfg, depth, max_dev, share in cfgs:
        spec = NodeSpec(cfg)
        spent_share += share
        # what an earlier configuration did not use is passed on
        cap = ctx.budget_s * (0.45 if ctx.quick else 0.85) * spent_share - \
            (time.perf_counter() - t_start)

        def progress(msg, n=name, sp=spec, last=depth):
            ctx.log(n + ' ' + msg)
            if msg.startswith('depth %d:' % last):
                # the states of the last level are not expanded: do not
                # replay each of them only to count two-generation states
                # (states_with_two_generations then covers expanded states)
                sp.probe = None

        res = statex.bfs(spec, depth, max_dev=max_dev, workers=ctx.workers,
                         time_cap=max(cap, 5.0), progress=progress,
                         chunk=8, **BISIM)
        cov['states'] += res.states
        cov['transitions'] += res.transitions
        cov['configs'][name] = {
            'cfg': cfg, 'depth_requested': depth,
            'depth_completed': res.depth_completed,
            'max_deviations': max_dev, 'states': res.states,
            'transitions': res.transitions, 'level_sizes': res.level_sizes,
            'space_exhausted': res.exhausted, 'wall_s': round(res.wall_s, 1),
            'bisim_pairs_checked': getattr(res, 'bisim_pairs', 0)}
        exhaustive = exhaustive and not res.caps_hit
        cov['caps_hit'].extend('%s: %s' % (name, c) for c in res.caps_hit)
        for k, v in res.stats.items():
            cov['nontrivial_counters'][k] = \
                cov['nontrivial_counters'].get(k, 0) + v
        for s in res.samples[-3:]:
            cov['samples'].append({'config': name, 'history': s})
        for e in res.exceptions[:2]:
            cov.setdefault('impl_exception_samples', []).append(
                {'config': name, 'history': e['history'], 'exc': e['exc']})
        for v in res.violations.values():
            confirm(spec, v['history'], v['clause'], v['site'])
            violations.append({
                'clause': v['clause'], 'site': v['site'],
                'detail': v['detail'], 'count': v['count'],
                'replay': {'config': name, 'salt': cfg['salt'],
                           'history': v['history']}})
    nt = cov['nontrivial_counters']
    cov['depth_completed'] = min(c['depth_completed']
                                 for c in cov['configs'].values())
    cov['executions'] = cov['transitions']
    cov['traces_validated_against_impl'] = cov['transitions']
    cov['evaluations'] = cov['transitions'] + nt.get('syncs', 0)
    cov['distinct_nontrivial'] = nt.get('states_with_two_generations', 0)
    cov['rule'] = RULE
    cov['exhaustive'] = exhaustive
    cov['impl_exceptions'] = nt.get('impl_exceptions', 0)
    for k in ('states_with_two_generations', 'syncs_with_two_generations',
              'syncs_two_gens_older_first', 'syncs_two_gens_newer_first',
              'sync_unchanged_running_checked', 'sync_uncached_checked',
              'sync_cached_checked', 'sync_finished_checked',
              'cleanups_completed', 'finishes', 'boots',
              'manager_killed_mid_handler', 'checkpoint_crosschecks',
              'quiescent_states_checked'):
        # (only a silent run can be vacuous: a changed tree that is reported
        # may legitimately starve a counter)
        if nt.get(k, 0) == 0 and not violations:
            raise statex.HarnessError('vacuous run: counter %s is 0' % k)
    return {'coverage': cov, 'violations': violations,
            'assumptions': ASSUMPTIONS}


def replay(ctx, data):
    W.make_run_root()
    try:
        cfgs = {name: cfg for name, cfg, _d, _m, _s in
                configs(ctx, salt=data.get('salt'))}
        spec = NodeSpec(cfgs[data['config']])
        hist = [tuple(e) for e in data['history']]
        w = spec.replayed(hist)
        seen = collections.OrderedDict()
        for v in w.viol:
            seen.setdefault((v['clause'], v['site']), v)
        return {'coverage': {}, 'violations': [
            {'clause': c, 'site': s, 'detail': v['detail']}
            for (c, s), v in seen.items()]}
    finally:
        W.drop_run_root()
