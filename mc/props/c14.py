"""C14 - node VIPs, firewall rules and endpoint specs have exactly one owner.

(a) statex BFS over operation sequences of 2 (quick) / 3 (thorough) owners on
    the real VipMgr (/30 and /29), RuleMgr, EndpointsMgr and
    NetworkResourceService, on run-private temp directories, against a dict
    reference `entry -> owner` (mc/c14_seq.py); the network service also
    with every external call (netdev / iptables) of on_create_request /
    on_delete_request failing, followed by retry / delete / restart
    (mc/c14_flt.py);
(b) mc.ilv: all interleavings (system-call granularity) of two processes
    using the same RuleMgr / EndpointsMgr directory (mc/c14_ilv.py).
"""
import itertools
import time

from mc import boundx
from mc import ilv
from mc import statex
from mc import c14_seq as seq
from mc import c14_flt as flt
from mc import c14_ilv as cilv

BUDGET = {'quick': 240, 'thorough': 600}

# Ownership decisions never iterate a Python set/dict of strings: the managers
# walk os.listdir() results and compare link targets.  The only set iteration
# (`set(_SET_BY_ENVIRONMENT.values())` in NetworkResourceService) orders
# ip-set calls, which this property does not observe.
HASH_INSENSITIVE = True

# two incarnations of one instance, an owner whose basename equals the app
# name of the specs (the boundary create_spec once compared against), another
# instance
SPEC_OWNERS = [seq.UNIQUE_NAMES[0], seq.UNIQUE_NAMES[1], 'proid.a#1',
               seq.UNIQUE_NAMES[2]]
P30 = ['192.168.0.1', '192.168.0.2', '192.168.0.0', '192.168.0.9']
P29 = ['192.168.0.1', '192.168.0.6', '192.168.0.8']


def seq_configs(quick):
    n = 2 if quick else 3
    own = seq.UNIQUE_NAMES[:n]
    d = 6 if quick else 9
    return [
        # name, cfg, depth, share of the sequential budget
        ('vip/30', seq.vip_cfg('192.168.0.0/30', own, P30), d, 1),
        ('vip/29', seq.vip_cfg('192.168.0.0/29', own, P29),
         7, 6),
        ('vip-pools 2x/30 one dir',
         seq.vip_pools_cfg(['10.8.0.0/30', '10.9.0.0/30'], own),
         9, 2),
        ('rules', seq.rule_cfg(own), d, 1),
        ('specs', seq.spec_cfg(SPEC_OWNERS[:n + 1]), d + 1, 1),
        ('specs unlink_all filters',
         seq.spec_filter_cfg(seq.UNIQUE_NAMES[:2]), 6, 1),
        ('netsvc/30', seq.netsvc_cfg('192.168.0.0/30', n), d, 1),
        ('netsvc/29', seq.netsvc_cfg('192.168.0.0/29', n), d, 1),
        # every external call of on_create_request / on_delete_request may
        # fail, at most `max_dev` failures per history, followed by retry /
        # delete / restart; the bounded spaces saturate before depth 7
        ('netsvc+faults/30',
         flt.netsvc_fault_cfg('192.168.0.0/30', n, 2), 7 if quick else 8,
         2 if quick else 4),
        ('netsvc+faults/29',
         flt.netsvc_fault_cfg('192.168.0.0/29', n, 2 if quick else 1),
         7 if quick else 8, 2),
    ]


def ilv_plan(quick):
    """(name, kind, max ops per process, two-entry menu?, owner-vanishes op?,
    preemption bound or None = unbounded)"""
    if quick:
        return [('rules<=2', 'rule', 2, False, True, None),
                ('specs<=2', 'spec', 2, False, True, 2)]
    return [('rules<=2', 'rule', 2, False, True, None),
            ('specs<=2', 'spec', 2, False, True, None),
            ('rules<=2 two entries', 'rule', 2, True, True, None),
            ('rules<=3', 'rule', 3, False, True, 2),
            ('specs<=3', 'spec', 3, False, False, 1)]


# ---------------------------------------------------------------------------
# ilv sweep

def _length_classes(maxlen, done_upto):
    """(n0, n1) program lengths, simplest first, skipping classes already
    covered by an earlier plan entry with the same menu."""
    out = [(a, b) for a in range(1, maxlen + 1) for b in range(1, maxlen + 1)
           if max(a, b) > done_upto]
    return sorted(out, key=lambda ab: (ab[0] + ab[1], ab))


def ilv_chunks(plan):
    chunks = []
    done = {}
    for name, kind, maxlen, wide, van, bound in plan:
        key = (kind, wide, van)
        for n0, n1 in _length_classes(maxlen, done.get(key, 0)):
            m0, m1 = cilv.op_menus(kind, wide, van)
            total = len(m0) ** n0 * len(m1) ** n1
            slices = max(1, min(64, total // 40))
            for ini in range(len(cilv.INITS[kind])):
                for s in range(slices):
                    chunks.append((name, kind, wide, bound, ini, n0, n1, s,
                                   slices, van))
        if bound is None:
            done[key] = max(done.get(key, 0), maxlen)
    return chunks


def _chunk_cases(chunk):
    _name, kind, wide, _bound, ini, n0, n1, s, slices, van = chunk
    m0, m1 = cilv.op_menus(kind, wide, van)
    prods = itertools.product(itertools.product(m0, repeat=n0),
                              itertools.product(m1, repeat=n1))
    for i, (p0, p1) in enumerate(prods):
        if i % slices == s:
            yield {'kind': kind, 'init': cilv.INITS[kind][ini],
                   'progs': [list(p0), list(p1)]}


def ilv_worker(chunk):
    name, bound = chunk[0], chunk[3]
    out = {'cases': 0, 'nontrivial': 0, 'states': 0, 'violations': [],
           'samples': [], 'counters': {}}
    cnt = out['counters']
    found = {}
    for case in _chunk_cases(chunk):
        res, viol, nontrivial = cilv.run_case(case, max_preemptions=bound)
        out['cases'] += 1
        out['states'] += 1
        out['nontrivial'] += nontrivial
        cnt['runs'] = cnt.get('runs', 0) + res.runs
        cnt['steps'] = cnt.get('steps', 0) + res.steps
        cnt['deadlocks'] = cnt.get('deadlocks', 0) + res.deadlocks
        cnt['%s: cases' % name] = cnt.get('%s: cases' % name, 0) + 1
        cnt['%s: runs' % name] = cnt.get('%s: runs' % name, 0) + res.runs
        if not res.unbounded:
            cnt['%s: children beyond bound' % name] = cnt.get(
                '%s: children beyond bound' % name, 0) + res.pruned
        for k, v in res.by_preemptions.items():
            key = 'preemptions=%02d' % k
            cnt[key] = cnt.get(key, 0) + v
        if res.caps_hit:
            cnt['explore_caps'] = cnt.get('explore_caps', 0) + 1
        for v in viol:
            key = (v['clause'], v['api'])
            rank = (len(case['progs'][0]) + len(case['progs'][1]),
                    len(v['schedule']))
            cur = found.get(key)
            total = v['count'] + (cur[1]['count'] if cur else 0)
            if cur is None or rank < cur[0]:
                found[key] = cur = [rank, {
                    'clause': v['clause'], 'site': v['api'],
                    'detail': dict(v['detail'], case=cilv.signature(case)),
                    'replay': {'part': 'ilv', 'case': case,
                               'schedule': v['schedule']}}]
            cur[1]['count'] = total
        if len(out['samples']) < 1 and nontrivial:
            out['samples'].append({'ilv_case': cilv.signature(case),
                                   'interleavings': res.runs})
    out['violations'] = [v for _r, v in sorted(found.values(),
                                               key=lambda rv: rv[0])]
    return out


def confirm_ilv(v):
    rp = v['replay']
    a = cilv.replay_case(rp['case'], rp['schedule'])
    b = cilv.replay_case(rp['case'], rp['schedule'])
    if a[1] != b[1]:
        raise statex.HarnessError('non-deterministic replay of %r'
                                  % (rp,))
    if (v['clause'], v['site']) not in {(x['clause'], x['api'])
                                        for x in a[0]}:
        raise statex.HarnessError('violation %s/%s not reproduced by %r'
                                  % (v['clause'], v['site'], rp))


# ---------------------------------------------------------------------------
# sequential part

def confirm_seq(spec, hist, clause, site):
    def obs():
        w = statex.build(spec, [tuple(e) for e in hist])
        return (sorted({(x['clause'], x['site']) for x in w.viol}),
                statex.digest(spec.canon(w)))
    o1, o2 = obs(), obs()
    if o1 != o2:
        raise statex.HarnessError('non-deterministic replay of %r' % (hist,))
    if (clause, site) not in o1[0]:
        raise statex.HarnessError('violation %s/%s not reproduced by %r'
                                  % (clause, site, hist))


NONTRIVIAL_SEQ = ('alloc_contended', 'release_by_non_owner',
                  'gc_with_orphans')

RULE = ('sequential: BFS transitions in which an allocate met an entry held '
        'by another owner, a release was attempted by a non-owner, or a '
        'collection ran with at least one orphaned entry present; '
        'concurrent: complete interleavings in which both processes issued '
        'system calls on one and the same entry')


def run(ctx):
    ilv.selftest()
    t0 = time.perf_counter()
    seq.make_root()
    try:
        return _run(ctx, t0)
    finally:
        seq.drop_root()


def _run(ctx, t0):
    cov = {'states': 0, 'transitions': 0, 'executions': 0, 'samples': [],
           'caps_hit': [], 'configs': {}, 'nontrivial_counters': {},
           'exhaustive': True}
    violations = []
    cfgs = seq_configs(ctx.quick)
    seq_budget = ctx.budget_s * 0.45
    shares = sum(c[3] for c in cfgs)
    nontrivial = 0
    for name, cfg, depth, share in cfgs:
        spec = seq.Spec(cfg)
        res = statex.bfs(spec, depth, max_dev=cfg.get('max_dev', 0),
                         workers=ctx.workers, chunk=32,
                         time_cap=seq_budget * share / shares,
                         progress=None)
        cov['states'] += res.states
        cov['transitions'] += res.transitions
        cov['executions'] += res.transitions
        cov['configs'][name] = {
            'depth_requested': depth, 'depth_completed': res.depth_completed,
            'states': res.states, 'transitions': res.transitions,
            'level_sizes': res.level_sizes,
            'space_exhausted': res.exhausted,
            'owners': cfg['owners'],
            'events': len(cfg['events']) if cfg['events'] else 'state-dependent',
            'wall_s': round(res.wall_s, 1)}
        if 'points' in cfg:
            cov['configs'][name].update(
                faults_per_history=cfg['max_dev'],
                fault_points={k: ['%s#%d' % (f, i) for f, i in v]
                              for k, v in cfg['points'].items()},
                fault_points_source=cfg['points_source'])
        ctx.log('%s: depth %d states %d transitions %d exhausted=%s %.1fs'
                % (name, res.depth_completed, res.states, res.transitions,
                   res.exhausted, res.wall_s))
        if res.caps_hit:
            cov['caps_hit'].extend('%s: %s' % (name, c) for c in res.caps_hit)
            cov['exhaustive'] = False
        for k, v in res.stats.items():
            cov['nontrivial_counters'][k] = \
                cov['nontrivial_counters'].get(k, 0) + v
        if res.samples:
            cov['samples'].append({'config': name,
                                   'history': res.samples[-1]})
        for v in res.violations.values():
            confirm_seq(spec, v['history'], v['clause'], v['site'])
            violations.append({
                'clause': v['clause'], 'site': v['site'],
                'detail': v['detail'], 'count': v['count'],
                'replay': {'part': 'seq', 'config': name,
                           'history': v['history']}})
    for k in NONTRIVIAL_SEQ + ('alloc_free', 'release_by_owner',
                               'gc_with_live_entries', 'alloc_exhausted',
                               'pick_outside', 'create_again',
                               'restart_with_owner_gone',
                               'init_while_other_pool_has_live_owner',
                               'filtered_release_next_to_unaddressed',
                               'ownerless_release',
                               'release_with_empty_owner_of_held_entry',
                               'alloc_next_to_other_pool',
                               'fault_fired_in_create',
                               'fault_fired_in_delete',
                               'create_retry_after_fault',
                               'delete_after_failed_create',
                               'restart_after_fault'):
        if cov['nontrivial_counters'].get(k, 0) == 0 and not violations:
            raise statex.HarnessError('vacuous run: counter %s is 0' % k)
    nontrivial += sum(cov['nontrivial_counters'][k] for k in NONTRIVIAL_SEQ)
    open_ = [c['depth_completed'] for c in cov['configs'].values()
             if not c['space_exhausted']]
    cov['depth_completed'] = min(open_) if open_ else max(
        c['depth_completed'] for c in cov['configs'].values())
    cov['depth_note'] = ('depth_completed = smallest completed depth among '
                         'the configs whose state space was NOT exhausted '
                         '(the others saturated earlier, see configs)')

    # concurrent part
    plan = ilv_plan(ctx.quick)
    chunks = ilv_chunks(plan)
    left = max(10.0, ctx.budget_s * 0.92 - (time.perf_counter() - t0))
    sw = boundx.sweep(chunks, ilv_worker, workers=ctx.workers, time_cap=left)
    runs = sw.counters.get('runs', 0)
    if (runs == 0 or sw.nontrivial == 0) and not sw.violations:
        raise statex.HarnessError('vacuous interleaving exploration')
    if sw.counters.get('explore_caps'):
        raise statex.HarnessError('per-case cap hit unexpectedly')
    cov['states'] += sw.cases
    cov['transitions'] += sw.counters.get('steps', 0)
    cov['executions'] += runs
    cov['ilv'] = {
        'plan': [{'name': n, 'kind': k, 'max_ops_per_process': m,
                  'two_entries': w, 'owner_vanishes_op': v,
                  'preemption_bound': 'unbounded' if b is None else b}
                 for n, k, m, w, v, b in plan],
        'cases': sw.cases, 'interleavings': runs,
        'scheduling_steps': sw.counters.get('steps', 0),
        'interleavings_touching_one_entry_from_both_sides': sw.nontrivial,
        'deadlocks': sw.counters.get('deadlocks', 0),
        'by_preemptions': {k: v for k, v in sorted(sw.counters.items())
                           if k.startswith('preemptions=')},
        'per_plan': {k: v for k, v in sorted(sw.counters.items())
                     if ': ' in k},
        'chunks': '%d/%d' % (sw.chunks_done, sw.chunks_total),
        'wall_s': round(sw.wall_s, 1),
        'menus_two_entries (single-entry plans use the ops on entry 0 only)':
        {k: [[cilv.tok(o) for o in m]
                      for m in cilv.op_menus(k, True)]
                  for k in ('rule', 'spec')},
        'initial_states': {k: [i['name'] for i in v]
                           for k, v in cilv.INITS.items()},
    }
    cov['preemption_bound'] = (
        'unbounded for every plan entry except those with a numeric '
        'preemption_bound in coverage.ilv.plan')
    ctx.log('ilv: %d cases, %d interleavings, %.1fs'
            % (sw.cases, runs, sw.wall_s))
    if not sw.exhaustive:
        cov['exhaustive'] = False
        cov['caps_hit'].extend('ilv: ' + c for c in sw.caps_hit)
    cov['samples'] = sw.samples[:3] + cov['samples'][:3] + \
        cov['samples'][3:]
    for v in sw.violation_list():
        confirm_ilv(v)
        violations.append(v)
    nontrivial += sw.nontrivial
    cov['traces_validated_against_impl'] = cov['executions']
    cov['evaluations'] = cov['executions']
    cov['distinct_nontrivial'] = nontrivial
    cov['rule'] = RULE
    return {'coverage': cov, 'violations': violations,
            'assumptions': ASSUMPTIONS}


def replay(ctx, data):
    seq.make_root()
    try:
        if data.get('part') == 'ilv':
            viol, _obs = cilv.replay_case(data['case'], data['schedule'])
            return {'coverage': {}, 'violations': [
                {'clause': v['clause'], 'site': v['api'],
                 'detail': v['detail']} for v in viol]}
        cfgs = {n: c for n, c, _d, _s in seq_configs(ctx.quick)}
        spec = seq.Spec(cfgs[data['config']])
        w = statex.build(spec, [tuple(e) for e in data['history']])
        seen = {}
        for v in w.viol:
            seen.setdefault((v['clause'], v['site']), v)
        return {'coverage': {}, 'violations': [
            {'clause': c, 'site': s, 'detail': v['detail']}
            for (c, s), v in seen.items()]}
    finally:
        seq.drop_root()


ASSUMPTIONS = [
    'real VipMgr / RuleMgr / EndpointsMgr / NetworkResourceService code on '
    'run-private temp directories (tmpfs when available); an owner exists '
    'iff its path under resources/ resp. apps/ exists',
    'NetworkResourceService: netdev, iptables and subproc are recorders with '
    'kernel-like minimal semantics (a veth exists between add and del, '
    'carries its alias, sits on the bridge); the CIDR is narrowed to a /30 '
    'resp. /29 through a subclass attribute; a restart is initialize + '
    'on_create_request for every surviving request + synchronize, the order '
    'of ResourceService._run',
    'NetworkResourceService under faults (netsvc+faults configs): a fault is '
    'one call through the netdev / iptables seam raising (CalledProcessError, '
    'EIO for sysfs reads) WITHOUT having had its effect; the fault points '
    'are the (function, occurrence) pairs recorded from the real create / '
    'repeated create / delete paths at start-up; at most faults_per_history '
    'faults per history, none inside a restart; the exception becomes an '
    '_error reply and the service lives on (ResourceService._on_created / '
    '_on_deleted). A FAILED operation may leave the table unchanged, keep '
    'the one address it linked for a request that had none (provisional: '
    'never told to the requestor) and drop provisional addresses of its '
    'request; a restart may drop provisional addresses; a request left in '
    'its error state may be refused until it is deleted (not a C14 matter); '
    'completed operations are judged as without faults. A request whose '
    'delete failed is not re-submitted or deleted again before the restart '
    'that collects it (unique names are not reused, one removal '
    'notification per request)',
    'VipMgr.initialize / RuleMgr.initialize / EndpointsMgr.initialize are '
    'documented resets and modelled as such; VipMgr.initialize may remove '
    'only addresses of its own network (two pools with disjoint /30 networks '
    'share one vips directory in the vip-pools configuration, as in '
    'warpgate/policy_server)',
    'EndpointsMgr ownerless mode (owner=None): unlink_all without owner= is '
    'explored in its filtered forms as a purge of exactly the addressed specs '
    '(app, proto, endpoint equal to the filter); ownerless create_spec / '
    'unlink_spec (plain files, Windows) are not explored; create_spec on an '
    'entry already held by the caller may succeed or raise, the table must '
    'not change',
    'interleavings: every os.symlink/readlink/unlink/stat/lstat/listdir/'
    'rename/rmdir/path.exists and glob issued by the manager is a scheduling '
    'point; the managers hold no state besides their paths; garbage_collect '
    'and unlink_all are modelled as sequences of atomic per-entry steps over '
    'the listing they observed',
    'bounds: 2 (quick) / 3 (thorough) owners, 3 entries per table, depths '
    'and program lengths in coverage.configs / coverage.ilv',
]
