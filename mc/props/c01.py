"""C01 - no oversubscription, one server per instance, views agree, spellings."""
from mc.props import _cellprop
from mc.props import _masterprop
from mc.worlds import cellcfg, cellmon, mastercfg

BUDGET = {'quick': 60, 'thorough': 600}


def _k1():
    cfg = cellcfg.k1()
    cfg['monitors'] = [cellmon.mon_c01]
    cfg['events'] = cellcfg.ev(
        ('add', 'sm'), ('add', 'sk'), ('add', 'ks'), ('add', 'hi'),
        ('add', 'lo'),
        ('rm', 0), ('rm', 1), ('prio', 0, 100), ('prio', 1, 1),
        ('down', 's0'), ('up', 's0'), ('down', 's1'), ('up', 's1'),
        ('frz', 's0', -1),
        ('srm', 's0'), ('sadd', 's0', 0), ('sadd', 's0', 1),
        ('alloc', 'a', 1), ('alloc', 'a', 0),
        ('idg', 'g', 0), ('idg', 'g', 2),
        ('tick', 40), ('noop',),
    )
    return cfg


def _k2():
    cfg = cellcfg.k2()
    cfg['monitors'] = [cellmon.mon_c01]
    cfg['events'] = cellcfg.ev(
        ('add', 'pl'), ('add', 't1'), ('add', 'p2'), ('add', 't2'),
        ('add', 'hi'),
        ('rm', 0), ('prio', 1, 100), ('move', 0, 'b'), ('move', 1, 'b'),
        ('down', 's0'), ('up', 's0'), ('srm', 's0'), ('sadd', 's0', 0),
        ('sadd', 's0', 1), ('srm', 's1'), ('sadd', 's1', 1),
        ('alloc', 'a', 1), ('alloc', 'b', 1), ('noop',),
    )
    return cfg


def _m1():
    """World B: the same through ZooKeeper events (real Loader.reload_server,
    remove_server, restore_placement, restarts)."""
    cfg = mastercfg.m1()
    cfg['cellmonitors'] = [cellmon.mon_c01]
    cfg['events'] = mastercfg.ev(
        ('app+', 'sm'), ('app+', 'id'), ('app+', 'hi'), ('app+', 'on'),
        ('app-', 0), ('prio', 0, 100),
        ('pres-', 's0'), ('pres+', 's0', 0), ('pres+', 's0', 1),
        ('srv', 's0', 1), ('srv', 's0', 0), ('srv-', 's1'), ('srv+', 's1', 0),
        ('alloc', 1), ('idg', 'g', 1),
        ('state', 's0', 'frozen', 0), ('state', 's0', 'up', -1),
        ('tick', 40), ('noop',), ('restart',),
    )
    return cfg


def configs(ctx):
    if ctx.quick:
        return [('K1', _k1(), 4, 1, _cellprop.CellSpec, 2.0),
                ('M1', _m1(), 3, 0, _masterprop.MasterSpec, 1.0)]
    return [('K1', _k1(), 6, 2), ('K2', _k2(), 6, 1),
            ('M1', _m1(), 5, 1, _masterprop.MasterSpec)]


RULE = ('BFS over histories of cell events x {cycle, no cycle}; a transition '
        'is non-trivial when its cycle changed at least one placement '
        '(c01_cycles_with_moves); loaded-server checks are counted separately')


def run(ctx):
    out = _cellprop.run_configs(
        ctx, configs(ctx), ['c01_cycles_with_moves'], RULE,
        _cellprop.BASE_ASSUMPTIONS + _masterprop.ASSUMPTIONS[:2])
    return out


def replay(ctx, data):
    return _cellprop.replay_config(ctx, configs(ctx), data)
