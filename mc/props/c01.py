"""C01 - no oversubscription, one server per instance, views agree, spellings."""
from mc.props import _cellprop
from mc.props import _masterprop
from mc.worlds import cellcfg, cellmon, mastercfg, mastermon

BUDGET = {'quick': 600, 'thorough': 2400}


def _k1():
    cfg = cellcfg.k1()
    cfg['monitors'] = [cellmon.mon_c01]
    cfg['events'] = cellcfg.ev(
        ('add', 'sm'), ('add', 'sk'), ('add', 'ks'), ('add', 'hi'),
        ('add', 'lo'),
        ('rm', 0), ('rm', 1), ('prio', 0, 100), ('prio', 1, 1),
        ('down', 's0'), ('up', 's0'), ('down', 's1'), ('up', 's1'),
        ('frz', 's0', -1),
        ('srm', 's0'), ('sadd', 's0', 0), ('sadd', 's0', 1),
        ('alloc', 'a', 1), ('alloc', 'a', 0),
        ('idg', 'g', 0), ('idg', 'g', 2),
        ('tick', 40), ('noop',),
    )
    return cfg


def _k2():
    cfg = cellcfg.k2()
    cfg['monitors'] = [cellmon.mon_c01]
    cfg['events'] = cellcfg.ev(
        ('add', 'pl'), ('add', 't1'), ('add', 'p2'), ('add', 't2'),
        ('add', 'hi'),
        ('rm', 0), ('prio', 1, 100), ('move', 0, 'b'), ('move', 1, 'b'),
        ('down', 's0'), ('up', 's0'), ('srm', 's0'), ('sadd', 's0', 0),
        ('sadd', 's0', 1), ('srm', 's1'), ('sadd', 's1', 1),
        ('alloc', 'a', 1), ('alloc', 'b', 1), ('noop',),
    )
    return cfg


def _m1():
    """World B: the same through ZooKeeper events (real Loader.reload_server,
    remove_server, restore_placement, restarts)."""
    cfg = mastercfg.m1()
    cfg['cellmonitors'] = [cellmon.mon_c01]
    cfg['monitors'] = [mastermon.mon_c01_zk]
    # non-initial start states: a populated cell
    cfg['seeds'] = [(), (('app+', 'id', True), ('app+', 'id', True),
                         ('app+', 'hi', True))]
    cfg['events'] = mastercfg.ev(
        ('app+', 'sm'), ('app+', 'id'), ('app+', 'hi'), ('app+', 'on'),
        ('app-', 0), ('prio', 0, 100),
        ('pres-', 's0'), ('pres+', 's0', 0), ('pres+', 's0', 1),
        ('srv', 's0', 1), ('srv', 's0', 0), ('srv-', 's1'), ('srv+', 's1', 0),
        ('alloc', 1), ('idg', 'g', 1),
        ('state', 's0', 'frozen', 0), ('state', 's0', 'up', -1),
        ('cell-', 'rack:0'), ('cell+', 'rack:0'),
        ('tick', 40), ('noop',), ('restart',),
        ('dup', 0, 's0'), ('dup', 0, 's1'), ('dup', 1, 's2'),
    )
    return cfg


def _m7():
    """World B: cell buckets removed / inserted, a server moved below a
    bucket that is outside the cell, presence loss, with a small alphabet and
    deeper histories; plus late watch delivery."""
    cfg = mastercfg.m1()
    cfg['idgroups'] = {}
    cfg['buckets'] = [('rack:0', None), ('rack:1', None), ('rack:2', None)]
    cfg['out_of_cell'] = ('rack:2',)
    cfg['cellmonitors'] = [cellmon.mon_c01]
    cfg['monitors'] = [mastermon.mon_c01_zk]
    cfg['templates'] = {
        'sm': {'memory': '3M', 'cpu': '3%', 'disk': '3M', 'affinity': 'a',
               'data_retention_timeout': '30s'},
        'hi': {'memory': '10M', 'cpu': '10%', 'disk': '10M', 'affinity': 'c',
               'priority': 100},
    }
    cfg['allow_nocycle'] = False
    cfg['events'] = mastercfg.ev(
        ('app+', 'sm'), ('app+', 'hi'), ('app-', 0),
        ('pres-', 's0'), ('pres+', 's0', 0),
        ('cell-', 'rack:0'), ('cell+', 'rack:0'), ('cell+', 'rack:2'),
        ('srvp', 's0', 'rack:2'), ('srvp', 's0', 'rack:0'),
        ('noop',), ('restart',),
    )
    return cfg


def _late():
    cfg = mastercfg.m1()
    cfg['idgroups'] = {}
    cfg['cellmonitors'] = [cellmon.mon_c01]
    cfg['monitors'] = [mastermon.mon_c01_zk]
    cfg['allow_late'] = True
    cfg['allow_nocycle'] = False
    cfg['templates'] = {
        'sm': {'memory': '3M', 'cpu': '3%', 'disk': '3M', 'affinity': 'a'},
        'hi': {'memory': '10M', 'cpu': '10%', 'disk': '10M', 'affinity': 'c',
               'priority': 100},
    }
    cfg['events'] = mastercfg.ev(
        ('app+', 'sm'), ('app+', 'hi'), ('app-', 0), ('app-', 1),
        ('prio', 0, 100), ('prio', 1, 1), ('noop',),
    )
    return cfg


def _m3():
    """World B with terabyte-sized servers whose declared capacity changes by
    a few megabytes (relative change < 1e-5): large values, tiny deltas."""
    cfg = mastercfg.m1()
    cfg['idgroups'] = {}
    cfg['servers'] = {
        's0': {'parent': 'rack:0', 'variants': [
            {'cap': ['1048576M', '100%', '1048576M']},
            {'cap': ['1048570M', '100%', '1048576M']},
            {'cap': ['1048576M', '100%', '1048570M']}]},
        's1': {'parent': 'rack:1', 'variants': [
            {'cap': ['524288M', '100%', '1048576M']}]},
    }
    cfg['templates'] = {
        'big': {'memory': '262144M', 'cpu': '10%', 'disk': '262144M',
                'affinity': 'a'},
        'half': {'memory': '524288M', 'cpu': '10%', 'disk': '524288M',
                 'affinity': 'b'},
    }
    cfg['max_apps'] = 6
    cfg['cellmonitors'] = [cellmon.mon_c01]
    cfg['monitors'] = [mastermon.mon_c01_zk]
    cfg['allow_nocycle'] = False
    cfg['events'] = mastercfg.ev(
        ('app+', 'big'), ('app+', 'half'), ('app-', 0),
        ('srv', 's0', 1), ('srv', 's0', 2), ('srv', 's0', 0),
        ('pres-', 's0'), ('pres+', 's0', 1), ('restart',),
    )
    return cfg


def configs(ctx):
    if ctx.quick:
        return [('K1', _k1(), 4, 1, _cellprop.CellSpec, 2.0),
                ('K2', _k2(), 3, 1, _cellprop.CellSpec, 1.0),
                ('M1', _m1(), 3, 0, _masterprop.MasterSpec, 1.0),
                ('M3', _m3(), 5, 0, _masterprop.MasterSpec, 1.0),
                ('M7', _m7(), 5, 0, _masterprop.MasterSpec, 1.0),
                ('M1-late', _late(), 4, 1, _masterprop.MasterSpec, 1.0)]
    return [('K1', _k1(), 6, 2), ('K2', _k2(), 6, 1),
            ('M1', _m1(), 5, 1, _masterprop.MasterSpec),
            ('M3', _m3(), 9, 0, _masterprop.MasterSpec),
            ('M7', _m7(), 7, 0, _masterprop.MasterSpec),
            ('M1-late', _late(), 6, 1, _masterprop.MasterSpec)]


RULE = ('BFS over histories of cell events x {cycle, no cycle}; a transition '
        'is non-trivial when its cycle changed at least one placement '
        '(c01_cycles_with_moves); loaded-server checks are counted separately')


MEM_SPELL = [lambda g: '%dG' % g, lambda g: '%dM' % (g * 1024),
             lambda g: '%dK' % (g * 1024 * 1024), lambda g: '%dg' % g,
             lambda g: '%dm' % (g * 1024), lambda g: ' %dG ' % g,
             lambda g: '%dk' % (g * 1024 * 1024)]
CPU_SPELL = [lambda c: '%d%%' % c, lambda c: '%d' % c, lambda c: c,
             lambda c: ' %d%% ' % c]
SPELL_HISTORY = (('app+', 'a', True), ('app+', 'b', True), ('app+', 'c', True),
                 ('pres-', 's0', True), ('app+', 'a', True),
                 ('pres+', 's0', 0, True), ('app-', 0, True),
                 ('restart', True))


def _spell_cfg(ms, cs, ds):
    cfg = mastercfg.m1()
    for name, (m, c, d) in (('s0', (10, 100, 10)), ('s1', (10, 100, 10)),
                            ('s2', (10, 40, 10))):
        cfg['servers'][name]['variants'] = [
            {'cap': [MEM_SPELL[ms](m), CPU_SPELL[cs](c), MEM_SPELL[ds](d)]}]
    cfg['templates'] = {
        'a': {'memory': MEM_SPELL[ms](3), 'cpu': CPU_SPELL[cs](30),
              'disk': MEM_SPELL[ds](3), 'affinity': 'a'},
        'b': {'memory': MEM_SPELL[ms](6), 'cpu': CPU_SPELL[cs](20),
              'disk': MEM_SPELL[ds](2), 'affinity': 'b'},
        'c': {'memory': MEM_SPELL[ms](10), 'cpu': CPU_SPELL[cs](100),
              'disk': MEM_SPELL[ds](10), 'affinity': 'c', 'priority': 100},
    }
    cfg['idgroups'] = {}
    cfg['events'] = []
    return cfg


def spellings(ctx):
    """Complete sweep of unit spellings: (i) loader.resources() maps every
    spelling of the same quantity to the same vector, (ii) a fixed World-B
    history gives identical placements under every spelling."""
    from treadmill.scheduler import loader
    from mc import statex
    viol = []
    n = 0
    for g in (1, 2, 10):
        for c in (1, 40, 100):
            ref = None
            for ms in range(len(MEM_SPELL)):
                for ds in range(len(MEM_SPELL)):
                    for cs in range(len(CPU_SPELL)):
                        data = {'memory': MEM_SPELL[ms](g),
                                'cpu': CPU_SPELL[cs](c),
                                'disk': MEM_SPELL[ds](g)}
                        vec = loader.resources(data)
                        n += 1
                        if ref is None:
                            ref = vec
                            if vec != [g * 1024, c, g * 1024]:
                                viol.append({
                                    'clause': 'spelling-wrong-quantity',
                                    'site': 'loader.resources',
                                    'detail': {'input': data, 'vector': vec},
                                    'replay': {'spelling': [ms, cs, ds]}})
                        elif vec != ref:
                            viol.append({
                                'clause': 'spelling-changes-quantity',
                                'site': 'loader.resources',
                                'detail': {'input': data, 'vector': vec,
                                           'reference': ref},
                                'replay': {'spelling': [ms, cs, ds]}})
    ref = None
    runs = 0
    for ms in range(len(MEM_SPELL)):
        for cs in range(len(CPU_SPELL)):
            for ds in (0, 1, 2, 5):
                spec = _masterprop.MasterSpec(_spell_cfg(ms, cs, ds))
                w = statex.build(spec, SPELL_HISTORY)
                runs += 1
                placement = sorted((a.name, a.server)
                                   for a in w.cell.apps.values())
                free = sorted((nm, tuple(sv.free_capacity))
                              for nm, sv in w.cell.members().items())
                if ref is None:
                    ref = (placement, free)
                elif (placement, free) != ref:
                    viol.append({
                        'clause': 'spelling-changes-placement',
                        'site': 'Loader',
                        'detail': {'spelling': [ms, cs, ds],
                                   'placement': placement,
                                   'reference': ref[0]},
                        'replay': {'spelling': [ms, cs, ds]}})
    dedup = {}
    for v in viol:
        k = (v['clause'], v['site'])
        if k in dedup:
            dedup[k]['count'] += 1
        else:
            v['count'] = 1
            dedup[k] = v
    return n, runs, list(dedup.values())


def run(ctx):
    out = _cellprop.run_configs(
        ctx, configs(ctx), ['c01_cycles_with_moves'], RULE,
        _cellprop.BASE_ASSUMPTIONS + _masterprop.ASSUMPTIONS[:2])
    n, runs, viol = spellings(ctx)
    cov = out['coverage']
    cov['spelling_inputs_swept'] = n
    cov['spelling_differential_runs'] = runs
    cov['evaluations'] += n + runs
    out['violations'].extend(viol)
    return out


def replay(ctx, data):
    if 'spelling' in data:
        _n, _r, viol = spellings(ctx)
        return {'coverage': {}, 'violations': viol}
    return _cellprop.replay_config(ctx, configs(ctx), data)
