"""C19 - accepted reservations never exceed partition capacity or trait limits.

Bounded-exhaustive sweep (mc.boundx) of the real `treadmill.api.allocation`
reservation check against a fake admin store and an independent sum:

* part A - every (partition record, set of existing reservations, replaced id,
  request traits, request size around every boundary) of the menus in
  mc/c19_model.py, one `reservation.create` / `reservation.update` call each;
* part B - every history of <= 3 create/update calls (quick: a smaller call
  menu) from an empty store, so that the stored records are the ones the real
  code wrote; partial updates (partition and/or traits omitted, which the
  schema used by `update` allows) are part of the menu.  After every accepted
  call the store itself must still be within capacity and trait limits.
* part C - unit spellings: one configuration (capacity, gpu limit, a gpu and
  a plain reservation) whose four stored records are written in every
  spelling the unit conversion documents (K M G T [P E] as powers of 1024,
  KB MB GB TB as powers of 1000, plain bytes '<n>' / '<n>B', lower and mixed
  case, padded; cpu '<n>%' / bare '<n>'), at most 2 of the four records
  leaving the base style at a time (thorough: also 3, one style per kind);
  create / replacing update, with and without the limited trait,
  schema-valid request sizes around every boundary.  The oracle reads sizes with its own conversion written from the
  documented meaning.  Part A also has one partition record and one stored
  reservation written with decimal suffixes.

Verdict per call: returns normally <=> the oracle accepts, InvalidInputError
<=> the oracle rejects, any other exception is a `service-failure`.

HASH_INSENSITIVE: the code under test iterates only lists and dicts in
insertion order (`limits`, `allocs`, `free[trait]`); no set or hash-ordered
iteration over strings occurs, so one hash seed is enough.
"""
import collections

from mc import boundx
from mc import c19_model as m

BUDGET = {'quick': 240, 'thorough': 420}
HASH_INSENSITIVE = True

RULE = ('a call is non-trivial when an existing reservation of the same cell '
        'and partition (not the replaced one) carries a limited trait that '
        'the request carries too, i.e. the per-trait accounting is reached')

ASSUMPTIONS = [
    'fake admin store: partition().get and cell_allocation().list/get/create/'
    'update hand out records shaped like admin._ldap from_entry (traits always '
    'a list, _id = <tenant>/<alloc>/<cell>, cpu/memory/disk defaults); list '
    'filters on the stored cell and partition attributes like the LDAP '
    'and-query; update replaces exactly the given attributes (the LDAP layer '
    'itself is not under test)',
    'schema decorators cannot run here: create/update are called through '
    '__wrapped__; every generated request was validated against '
    'reservation.json (resource + verbs/create, the schema both verbs use) '
    'with jsonschema, so all inputs are ones the REST layer admits',
    'an update is judged on the reservation that would exist afterwards '
    '(stored record overlaid with the request), because that is what is '
    'accepted into the partition; updates are only issued for existing ids and '
    'creates for new ids',
    'request sizes are whole K (the schema admits only <n>[KkMmGg]), cpu whole '
    'percent; menus in coverage.menus',
    'stored records (partition capacity, trait limits, existing reservations) '
    'may be written in any spelling the docstring of utils.size_to_bytes '
    'documents: suffix K/M/G/T/P/E/Z/Y = power of 1024, suffix + B = power of '
    '1000 (1K = 1024, 1KB = 1000), an integer = bytes, any case, surrounding '
    'blanks; cpu as <n>% or a bare <n> (utils.cpu_units).  The REST schema and '
    'the CLI validators write only <n>[KMG]; other spellings reach the '
    'directory through direct writes.  The reference conversion is independent '
    'of treadmill; utils.size_to_bytes / cpu_units are probed only to qualify '
    'the SITE of a decision already found wrong',
]


def _chunks(tier):
    menu, sets = m.existing_sets(tier)
    parts = m.partition_menu(tier)
    step = 6 if tier == 'quick' else 12
    out = []
    for lo in range(0, len(sets), step):
        out.append(('A', tier, lo, min(len(sets), lo + step)))
    creates, _updates = m.history_calls(tier)
    for i in range(len(creates)):
        out.append(('B', tier, i))
    nplan = len(m.spelling_plan(tier))
    cstep = 80 if tier == 'quick' else 200
    for lo in range(0, nplan, cstep):
        out.append(('C', tier, lo, min(nplan, lo + cstep)))
    # the first chunk of every part first: the evidence samples (taken from
    # the first chunks swept) then show a case of each part
    firsts = [next(c for c in out if c[0] == kind) for kind in 'ABC']
    out = firsts + [c for c in out if c not in firsts]
    return out, menu, sets, parts


def _first(viols, v):
    key = (v['clause'], v['site'])
    if key not in viols:
        viols[key] = dict(v, count=1)
    else:
        n = viols[key]['count'] + 1
        if _simplicity(v) < _simplicity(viols[key]):
            viols[key] = dict(v)
        viols[key]['count'] = n


def _worker(chunk):
    if chunk[0] == 'A':
        return _worker_a(chunk)
    if chunk[0] == 'C':
        return _worker_c(chunk)
    return _worker_b(chunk)


_PLAN = {}


def _worker_c(chunk):
    _kind, tier, lo, hi = chunk
    if tier not in _PLAN:
        _PLAN[tier] = m.spelling_plan(tier)
    cnt = collections.Counter()
    viols = {}
    samples = []
    cases = nontrivial = 0
    for unit, asg in _PLAN[tier][lo:hi]:
        kinds = set()
        for st in asg:
            kinds.add('plain-bytes' if st[0] == 0 else
                      'decimal-suffix' if st[1] else 'binary-suffix')
            if st[2]:
                kinds.add('lower-case')
            if st[3]:
                kinds.add('padded')
            if st[0] >= 4:
                kinds.add('T-or-larger')
            if st[1] and (st[1] == 'b') != st[2]:
                kinds.add('mixed-case')
        cnt['C_configurations'] += 1
        for case in m.spelled_cases(unit, asg):
            if not m.schema_ok(case['rsrc']):
                raise m.HarnessError('menu request violates schema: %r'
                                     % (case['rsrc'],))
            m.modstate.reset()      # every case starts from a fresh process
            before = m.build_store(case['partitions'], case['existing'])
            after = before.clone()
            outcome, info = m.call(after, case['verb'], case['id'],
                                   case['rsrc'])
            vs, facts = m.judge(before, after, case['verb'], case['id'],
                                case['rsrc'], outcome, info)
            cases += 1
            cnt['C_cases'] += 1
            cnt['observed_' + outcome] += 1
            cnt['expected_' + ('accept' if facts['expect_accept']
                               else 'reject_' + facts['reason'])] += 1
            for k in kinds:
                cnt['C_stored_' + k] += 1
            # does this case tell the documented reading from a wrong one?
            for reading in ('all-binary', 'all-decimal'):
                if m.expected(before, case['verb'], case['id'], case['rsrc'],
                              reading)[0] != facts['expect_accept']:
                    cnt['C_verdict_differs_if_read_' + reading] += 1
            if facts['shared']:
                nontrivial += 1
            if case['verb'] == 'update':
                cnt['replacing_requests'] += 1
            for v in vs:
                payload = {k: case[k] for k in
                           ('kind', 'partitions', 'existing', 'verb',
                            'id', 'rsrc')}
                _first(viols, dict(v, replay=payload))
            if not samples and facts['shared'] and 'decimal-suffix' in kinds \
                    and case['tag'] == 'mem+1K':
                samples.append({
                    'partition': case['partitions'][0],
                    'existing': [[e['alloc'], e['traits'], e['cpu'],
                                  e['memory'], e['disk']]
                                 for e in case['existing']],
                    'call': [case['verb'], case['id'], case['rsrc']],
                    'expected': 'accept' if facts['expect_accept']
                    else 'reject', 'observed': outcome})
    return {'cases': cases, 'nontrivial': nontrivial, 'states': cases,
            'violations': list(viols.values()), 'samples': samples,
            'counters': dict(cnt)}


def _worker_a(chunk):
    _kind, tier, lo, hi = chunk
    menu, sets = m.existing_sets(tier)
    parts = m.partition_menu(tier)
    cnt = collections.Counter()
    viols = {}
    samples = []
    cases = nontrivial = 0
    for combo in sets[lo:hi]:
        for pname, prec in parts:
            for case in m.single_cases(tier, pname, prec, menu, combo):
                if not m.schema_ok(case['rsrc']):
                    raise m.HarnessError('menu request violates schema: %r'
                                         % (case['rsrc'],))
                m.modstate.reset()  # every case starts from a fresh process
                before = m.build_store(case['partitions'], case['existing'])
                after = before.clone()
                outcome, info = m.call(after, case['verb'], case['id'],
                                       case['rsrc'])
                vs, facts = m.judge(before, after, case['verb'], case['id'],
                                    case['rsrc'], outcome, info)
                cases += 1
                cnt['A_cases'] += 1
                cnt['observed_' + outcome] += 1
                cnt['expected_' + ('accept' if facts['expect_accept']
                                   else 'reject_' + facts['reason'])] += 1
                cnt['tag_' + case['tag']] += 1
                if facts['shared']:
                    nontrivial += 1
                if case['verb'] == 'update':
                    cnt['replacing_requests'] += 1
                for v in vs:
                    payload = {k: case[k] for k in
                               ('kind', 'partitions', 'existing', 'verb',
                                'id', 'rsrc')}
                    _first(viols, dict(v, replay=payload))
                if len(samples) < 2 and facts['shared']:
                    samples.append({
                        'partition': case['partition_menu'],
                        'existing': [[e['alloc'], e['cell'], e['partition'],
                                      e['traits'], e['cpu'], e['memory'],
                                      e['disk']] for e in case['existing']],
                        'call': [case['verb'], case['id'], case['rsrc']],
                        'expected': 'accept' if facts['expect_accept']
                        else 'reject', 'observed': outcome})
    return {'cases': cases, 'nontrivial': nontrivial, 'states': cases,
            'violations': list(viols.values()), 'samples': samples,
            'counters': dict(cnt)}


def _worker_b(chunk):
    _kind, tier, first = chunk
    creates, updates = m.history_calls(tier)
    partitions = m.history_partitions()
    depth = 3
    cnt = collections.Counter()
    viols = {}
    samples = []
    stats = {'cases': 0, 'nontrivial': 0}
    stores = set()

    def rec(store, hist, todo):
        for c in todo:
            if not m.schema_ok(c[2]):
                raise m.HarnessError('menu request violates schema: %r'
                                     % (c[2],))
            # the history is replayed from a fresh process state, so that
            # whatever the code keeps at module level is what this history
            # (and not a sibling branch of the search) left there
            m.modstate.reset()
            after = m.build_store(partitions, [])
            for c0 in hist:
                m.call(after, c0[0], c0[1], c0[2])
            if after.key() != store.key():
                raise m.HarnessError('replay of %r diverged' % (hist,))
            outcome, info = m.call(after, c[0], c[1], c[2])
            vs, facts = m.judge(store, after, c[0], c[1], c[2], outcome, info,
                                check_store=True)
            h2 = hist + [c]
            stats['cases'] += 1
            cnt['B_calls'] += 1
            cnt['B_len%d' % len(h2)] += 1
            cnt['observed_' + outcome] += 1
            cnt['expected_' + ('accept' if facts['expect_accept']
                               else 'reject_' + facts['reason'])] += 1
            if facts['shared']:
                stats['nontrivial'] += 1
            if c[0] == 'update':
                cnt['replacing_requests'] += 1
                if 'partition' not in c[2] or 'traits' not in c[2]:
                    cnt['partial_updates'] += 1
            for v in vs:
                _first(viols, dict(v, replay={
                    'kind': 'history', 'partitions': partitions,
                    'calls': h2}))
            stores.add(after.key())
            if len(samples) < 1 and len(h2) == 3 and facts['shared']:
                samples.append({'history': h2,
                                'expected': 'accept' if facts['expect_accept']
                                else 'reject', 'observed': outcome})
            if len(h2) < depth:
                rec(after, h2, m.enabled_calls(after, creates, updates))

    rec(m.build_store(partitions, []), [], [creates[first]])
    return {'cases': stats['cases'], 'nontrivial': stats['nontrivial'],
            'states': len(stores), 'violations': list(viols.values()),
            'samples': samples, 'counters': dict(cnt)}


def _simplicity(v):
    r = v['replay']
    if r['kind'] == 'single':
        return (0, len(r['existing']), len(str(r)))
    return (1, len(r['calls']), len(str(r)))


def run(ctx):
    tier = ctx.tier
    chunks, menu, sets, parts = _chunks(tier)
    res = boundx.sweep(chunks, _worker, workers=ctx.workers,
                       time_cap=ctx.budget_s * 0.85)
    ctx.log('swept %d/%d chunks, %d calls, %.1fs'
            % (res.chunks_done, res.chunks_total, res.cases, res.wall_s))
    silent = not res.violations     # only a silent run can be vacuous
    if silent and res.nontrivial == 0:
        raise m.HarnessError('vacuous run: per-trait accounting never reached')
    if silent and (res.counters.get('observed_accept', 0) == 0 or \
            res.counters.get('expected_accept', 0) == 0 or \
            res.counters.get('expected_reject_capacity', 0) == 0 or \
            res.counters.get('expected_reject_trait', 0) == 0):
        raise m.HarnessError('vacuous run: %r' % dict(res.counters))
    if res.exhaustive and silent:
        for name in ('C_verdict_differs_if_read_all-binary',
                     'C_verdict_differs_if_read_all-decimal',
                     'C_stored_decimal-suffix', 'C_stored_plain-bytes',
                     'C_stored_lower-case', 'C_stored_padded',
                     'C_stored_T-or-larger'):
            if res.counters.get(name, 0) == 0:
                raise m.HarnessError('vacuous spelling sweep: %s = 0' % name)
    violations = []
    for v in sorted(res.violation_list(), key=_simplicity):
        v = m.shortest_history(m.shrink(v), tier)
        m.confirm(v)
        violations.append(v)
    creates, updates = m.history_calls(tier)
    cov = {
        'states': res.states,
        'transitions': res.cases,
        'executions': res.cases,
        'traces_validated_against_impl': res.cases,
        'evaluations': res.cases,
        'distinct_nontrivial': res.nontrivial,
        'rule': RULE,
        'samples': res.samples[:8],
        'exhaustive': res.exhaustive,
        'caps_hit': res.caps_hit,
        'counters': dict(res.counters),
        'chunks': [res.chunks_done, res.chunks_total],
        'menus': {
            'partition_records': [p[0] for p in parts],
            'existing_reservation_menu': len(menu),
            'existing_sets': len(sets),
            'existing_set_max_size': 2 if tier == 'quick' else 3,
            'request_traits': m.request_trait_menu(tier),
            'request_sizes': ['small', 'exact', 'cpu+1', 'mem+1K', 'disk+1K',
                              'overall-exact', 'all-1', 'exact-K',
                              'exact-lower'],
            'history_depth': 3,
            'history_create_menu': len(creates),
            'history_update_menu': len(updates),
            'spelled_records': list(m.SPELLED_RECORDS),
            'spelling_styles': sorted({m.style_name(st)
                                       for _u, asg in m.spelling_plan(tier)
                                       for st in asg}),
            'spelling_units': sorted({'1024**%d' % u
                                      for u, _a in m.spelling_plan(tier)}),
            'spelling_configurations': len(m.spelling_plan(tier)),
            'spelling_max_records_off_base_style': (
                2 if tier == 'quick' else
                '2 (all styles), 3 (one style per kind: %s)' % ', '.join(
                    m.style_name(st).strip() for st in m.KIND_STYLES)),
            'spelling_request_traits': m.SPELLED_TRAITS,
        },
    }
    return {'coverage': cov, 'violations': violations,
            'assumptions': ASSUMPTIONS}


def replay(ctx, data):
    viol, _facts = m.run_payload(data)
    viol2, _f = m.run_payload(data)
    if [(v['clause'], v['site']) for v in viol] != \
            [(v['clause'], v['site']) for v in viol2]:
        raise m.HarnessError('non-deterministic replay')
    return {'coverage': {}, 'violations': [
        {'clause': v['clause'], 'site': v['site'], 'detail': v['detail']}
        for v in viol]}
