"""C16 - what a container start registers on the host is removed when it
finishes.

(a) mc.boundx: bounded-exhaustive sweep over manifests; for each one a fresh
    host (with registrations of a foreign container already present), real
    start slice, real finish slice, finish again; the rules dir, endpoints dir
    and ip-sets must be back to their state before the start.
(b) mc.statex: BFS over {start A, start B, aborted start A, aborted start B,
    finish A, finish B} (a finish of a finished or never started container is
    the "finish again" event; an aborted start fails at the last step of the
    network set-up) for manifest pairs from a reduced menu: after finishing
    one container everything the other registered is still there.
(c) single-fault enumeration of the finish: every external step of the real
    finish fails once, finish is repeated until it completes.
(d) single-fault enumeration of the start: every external step of the real
    _run.run fails once (the start is aborted wherever the code does not
    swallow the failure), then the real finish, then finish again.
start = the real _run.run, finish = the real _finish.finish (mc.c16_world).
"""
import itertools
import os
import time

from mc import boundx
from mc import statex
from mc import c16_world as W

BUDGET = {'quick': 240, 'thorough': 600}
# `_unshare_network` / `_cleanup_network` iterate a *set* of resolved
# passthrough addresses (strings): hash order decides the order of rule
# creation, so the thorough tier repeats the sweep under 3 hash seeds.

KEYS = [('e1', 'tcp'), ('e1', 'udp'), ('e2', 'tcp'), ('e2', 'udp')]
VARIANTS = [(p, t) for p in (0, 22, 8000) for t in (None, 'infra')]
EPH_ALL = [(t, u) for t in (0, 1, 2) for u in (0, 1, 2)]
PASS_ALL = [[], ['h1'], ['h1', 'h2'], ['h1', 'h3']]


def endpoint_lists(maxsize):
    out = []
    for size in range(maxsize + 1):
        for keys in itertools.combinations(KEYS, size):
            for vs in itertools.product(VARIANTS, repeat=size):
                out.append([(k[0], k[1], v[0], v[1])
                            for k, v in zip(keys, vs)])
    return out


def domains(quick):
    """Union of full products (each swept completely).  A domain is
    (name, endpoint lists, eph menu, passthrough menu, vring menu,
     shared_network menu, shared_ip menu, env menu, port orders)."""
    e2, e3 = endpoint_lists(2), endpoint_lists(3)
    e1 = endpoint_lists(1)
    if quick:
        return [
            ('private', e2, [(0, 0), (1, 0), (0, 2), (1, 2, 'udp-first')],
             PASS_ALL[:3],
             [False, True], [False], [False], ['dev', 'prod'], ['identity']),
            ('port-orders', e2, [(0, 0), (2, 1)], [[]], [True], [False],
             [False], ['dev'], ['reversed', 'rotated']),
            ('shared', e1, [(0, 0), (1, 1)], [[], ['h1']], [True],
             [False, True], [False, True], ['dev', 'prod'], ['identity']),
            # every environment the code knows: prod and uat draw from the
            # PROD range, dev and qa from the non-prod range
            ('environments', e1, [(1, 1)], [[]], [False], [False], [False],
             ['dev', 'qa', 'uat', 'prod'], list(W.PORT_ORDERS)),
        ]
    return [
        ('private', e2, EPH_ALL, PASS_ALL, [False, True], [False], [False],
         ['dev'], ['identity']),
        ('private-3-endpoints', e3[len(e2):], [(0, 0), (2, 1)], PASS_ALL,
         [False, True], [False], [False], ['dev'], ['identity']),
        ('port-orders', e3, [(0, 0), (2, 1)], [[]], [True], [False], [False],
         ['dev', 'prod'], ['reversed', 'rotated']),
        ('environments', e2, [(1, 1)], [['h1']], [True], [False], [False],
         ['dev', 'qa', 'uat', 'prod'], list(W.PORT_ORDERS)),
        ('shared', e2, [(0, 0), (1, 1), (2, 0)], [[], ['h1']], [True],
         [False, True], [False, True], ['dev', 'prod'], ['identity']),
    ]


def domain_size(d):
    n = 1
    for m in d[1:]:
        n *= len(m)
    return n


def sweep_chunks(quick):
    chunks = []
    for di, d in enumerate(domains(quick)):
        per = domain_size(d) // len(d[1])
        step = max(1, 400 // per)
        for lo in range(0, len(d[1]), step):
            chunks.append(('sweep', quick, di, lo, min(len(d[1]), lo + step)))
    return chunks


def chunk_cases(chunk):
    _k, quick, di, lo, hi = chunk
    _name, eps, ephs, pts, vrs, sns, sis, envs, orders = domains(quick)[di]
    for ep in eps[lo:hi]:
        for eph, pt, vr, sn, si, env, order in itertools.product(
                ephs, pts, vrs, sns, sis, envs, orders):
            yield (W.manifest(endpoints_=ep, eph=eph, passthrough=pt,
                              vring=vr, shared_network=sn, shared_ip=si,
                              environment=env), order)


def _exc(exc):
    import traceback
    return {'type': type(exc).__name__, 'msg': str(exc)[:200],
            'site': statex.impl_site(exc.__traceback__),
            'tb': ''.join(traceback.format_exception(
                type(exc), exc, exc.__traceback__))[-600:]}


def run_single(manifest, order):
    """One manifest on a fresh host.  Returns (violations, facts)."""
    viol = []
    host = W.Host(port_order=order)
    s0 = host.snapshot()
    facts = {'registered': 0}
    app = None
    try:
        app = host.start(manifest)
    except Exception as exc:  # pylint: disable=broad-except
        facts['start_raised'] = _exc(exc)
    s1 = host.snapshot()
    facts['registered'] = len(s1 - s0)
    facts['kinds'] = sorted({W.kind_of(i) for i in s1 - s0})
    for item in sorted(s0 - s1):
        viol.append(('start-removed-existing-registration',
                     '_run._unshare_network:' + W.kind_of(item),
                     {'item': item}))
    if app is not None:
        for clause, detail in W.check_ports(host, app):
            viol.append((clause, 'runtime.allocate_network_ports', detail))
        facts['ports'] = {
            'tcp': [e.real_port for e in app.endpoints if e.proto == 'tcp'] +
            list(app.ephemeral_ports.tcp),
            'udp': [e.real_port for e in app.endpoints if e.proto == 'udp'] +
            list(app.ephemeral_ports.udp)}
    try:
        host.finish(manifest)
    except Exception as exc:  # pylint: disable=broad-except
        facts['finish_raised'] = _exc(exc)
    s2 = host.snapshot()
    for item in sorted(s2 - s0):
        viol.append(('finish-left-registration-behind',
                     '_finish._cleanup_network:' + W.kind_of(item),
                     {'left': item, 'registered_by_start': sorted(s1 - s0),
                      'finish_raised': facts.get('finish_raised')}))
    for item in sorted(s0 - s2):
        viol.append(('finish-removed-registration-of-another-container',
                     '_finish._cleanup_network:' + W.kind_of(item),
                     {'removed': item}))
    try:
        host.finish(manifest)
    except Exception as exc:  # pylint: disable=broad-except
        viol.append(('repeated-finish-raised', '_finish._cleanup_network',
                     _exc(exc)))
    s3 = host.snapshot()
    if s3 != s2:
        item = sorted(s3 ^ s2)[0]
        viol.append(('repeated-finish-changed-state',
                     '_finish._cleanup_network:' + W.kind_of(item),
                     {'changed': sorted(s3 ^ s2)}))
    if host.bound != host.prebound:
        raise statex.HarnessError('sockets leaked by the harness')
    return viol, facts


# ---------------------------------------------------------------------------
# command-failure injection in the finish slice

MAX_FINISH_ATTEMPTS = 4


def fault_manifests(quick):
    """Reduced manifest menus whose finish is re-run with every single
    external command failing once."""
    e1, e2 = endpoint_lists(1), endpoint_lists(2)
    if quick:
        eps = e1 + [
            [('e1', 'tcp', 0, 'infra'), ('e1', 'udp', 8000, 'infra')],
            [('e1', 'tcp', 22, None), ('e2', 'tcp', 8000, 'infra')],
            [('e1', 'udp', 0, None), ('e2', 'udp', 22, 'infra')],
        ]
        ephs = [(0, 0), (1, 0), (0, 1), (2, 1), (1, 2, 'udp-first')]
        pts = [[], ['h1', 'h3']]
    else:
        eps = e2
        ephs = [(0, 0), (1, 0), (0, 1), (2, 1), (1, 2, 'udp-first')]
        pts = [[], ['h1'], ['h1', 'h3']]
    out = []
    for ep in eps:
        for eph in ephs:
            for pt in pts:
                for vr in (False, True):
                    out.append(W.manifest(endpoints_=ep, eph=eph,
                                          passthrough=pt, vring=vr))
    return out


def start_fault_manifests(quick):
    """Manifests whose start is re-run with every single external step
    failing once: the fault menu in the quick tier; in the thorough tier all
    endpoint lists of size <= 2 with the two extreme ephemeral / passthrough
    choices (a start has ~2.3 times as many steps as a finish)."""
    if quick:
        return fault_manifests(True)
    out = []
    for ep in endpoint_lists(2):
        for eph in [(0, 0), (2, 1), (1, 2, 'udp-first')]:
            for pt in [[], ['h1', 'h3']]:
                for vr in (False, True):
                    out.append(W.manifest(endpoints_=ep, eph=eph,
                                          passthrough=pt, vring=vr))
    return out


def _finish_until_done(host, manifest):
    """Repeat finish until an attempt ends without an exception.
    Returns (completed?, [exceptions of the aborted attempts])."""
    aborted = []
    for _ in range(MAX_FINISH_ATTEMPTS):
        try:
            host.finish(manifest)
            return True, aborted
        except Exception as exc:  # pylint: disable=broad-except
            aborted.append(exc)     # formatted only when reported
    return False, aborted


def run_fault(manifest, order, k):
    """Fresh host, start, finish with external command number k failing
    once, finish repeated until it completes.  Returns (violations, facts);
    k=None only counts the fault points."""
    host = W.Host(port_order=order)
    s0 = host.snapshot()
    host.start(manifest)
    s1 = host.snapshot()
    W.FAULT.arm(k)
    done, aborted = _finish_until_done(host, manifest)
    fired = W.FAULT.fired
    points = W.FAULT.n
    W.FAULT.arm(None)
    facts = {'points': points, 'fired': fired, 'aborted': len(aborted),
             'registered': len(s1 - s0)}
    viol = []
    if k is not None and fired is None:
        raise statex.HarnessError('fault point %r never reached (%r)'
                                  % (k, manifest))
    cmd = 'no failed command' if fired is None else \
        'failed %s %s' % (fired[0], ' '.join(fired[1]) if
                          isinstance(fired[1], (list, tuple)) else fired[1])
    if not done:
        viol.append(('finish-does-not-complete-after-failed-command',
                     '_finish._cleanup_network after ' + cmd,
                     {'fault_point': k,
                      'attempts': [_exc(e) for e in aborted]}))
    s2 = host.snapshot()
    for item in sorted(s2 - s0):
        viol.append(('finish-left-registration-behind-after-failed-command',
                     '_finish._cleanup_network:%s after %s'
                     % (W.kind_of(item), cmd),
                     {'left': item, 'fault_point': k, 'failed': cmd,
                      'aborted_attempts': [_exc(e) for e in aborted],
                      'attempts_until_completion': len(aborted) + 1}))
    for item in sorted(s0 - s2):
        viol.append(('finish-removed-registration-of-another-container',
                     '_finish._cleanup_network:' + W.kind_of(item),
                     {'removed': item, 'fault_point': k}))
    return viol, facts


def run_start_fault(manifest, order, k):
    """Fresh host, real _run.run with its external step number k failing
    once, then the real finish (no failure injected), then finish again.
    Returns (violations, facts); k=None only counts the steps."""
    host = W.Host(port_order=order)
    s0 = host.snapshot()
    W.FAULT.arm(k, 'start')
    raised = None
    try:
        host.start(manifest)
    except Exception as exc:  # pylint: disable=broad-except
        raised = exc
    fired = W.FAULT.fired
    points = W.FAULT.n
    kinds = list(W.FAULT.trace)
    W.FAULT.arm(None)
    if k is not None and fired is None:
        raise statex.HarnessError('start fault point %r never reached (%r)'
                                  % (k, manifest))
    s1 = host.snapshot()
    step = 'no failed step' if fired is None else 'failed %s %s' % (
        fired[0], ' '.join(str(x) for x in fired[1])
        if isinstance(fired[1], (list, tuple)) else fired[1])
    facts = {'points': points, 'fired': fired, 'kinds': kinds,
             'aborted': raised is not None,
             'registered_at_abort': len(s1 - s0), 'step': step}
    viol = []
    for item in sorted(s0 - s1):
        viol.append(('start-removed-existing-registration',
                     '_run.run:' + W.kind_of(item),
                     {'item': item, 'fault_point': k, 'failed': step}))
    finish_raised = None
    try:
        host.finish(manifest)
    except Exception as exc:  # pylint: disable=broad-except
        finish_raised = exc
    s2 = host.snapshot()
    how = 'aborted start' if raised is not None else \
        'start that survived a failed step'
    for item in sorted(s2 - s0):
        viol.append(('finish-left-registration-behind-after-%s'
                     % how.replace(' ', '-'),
                     '_run.run / _finish.finish:%s' % W.kind_of(item),
                     {'left': item, 'fault_point': k, 'failed': step,
                      'start_raised': raised and _exc(raised),
                      'registered_by_the_start': sorted(s1 - s0),
                      'state_json_written': os.path.exists(os.path.join(
                          host.paths(manifest)[2], 'state.json')),
                      'finish_raised': finish_raised and
                      _exc(finish_raised)}))
    for item in sorted(s0 - s2):
        viol.append(('finish-removed-registration-of-another-container',
                     '_finish._cleanup_network:' + W.kind_of(item),
                     {'removed': item, 'fault_point': k, 'failed': step}))
    # (a finish that raises is judged by what it leaves behind, above)
    try:
        host.finish(manifest)
    except Exception as exc:  # pylint: disable=broad-except
        if finish_raised is None:
            viol.append(('repeated-finish-raised', '_finish.finish',
                         dict(_exc(exc), fault_point=k, failed=step)))
    s3 = host.snapshot()
    if s3 != s2 and finish_raised is None:
        item = sorted(s3 ^ s2)[0]
        viol.append(('repeated-finish-changed-state',
                     '_finish._cleanup_network:' + W.kind_of(item),
                     {'changed': sorted(s3 ^ s2), 'fault_point': k,
                      'failed': step}))
    if host.bound != host.prebound:
        raise statex.HarnessError('sockets leaked by the harness')
    return viol, facts


def _hash_sensitive(manifest):
    """The only hash-order dependence of the code under test: the *set* of
    resolved passthrough addresses, when it has more than one member."""
    return len({W.HOSTS.get(h, h) for h in manifest['passthrough']}) >= 2


def _menu(kind, quick, hash_only):
    menu = fault_manifests(quick) if kind == 'fault' else \
        start_fault_manifests(quick)
    if hash_only:
        menu = [m for m in menu if _hash_sensitive(m)]
    return menu


def fault_worker(chunk):
    _k, quick, lo, hi, hash_only = chunk
    out = {'cases': 0, 'nontrivial': 0, 'states': 0, 'violations': [],
           'samples': [], 'counters': {}}
    cnt = out['counters']
    seen = {}

    def note(part, manifest, k, v):
        for clause, site, detail in v:
            key = (clause, site)
            if key not in seen:
                seen[key] = {
                    'clause': clause, 'site': site, 'detail': detail,
                    'count': 0,
                    'replay': {'part': part, 'manifest': manifest,
                               'order': 'identity', 'fault': k}}
            seen[key]['count'] += 1

    def bump(key, n=1):
        cnt[key] = cnt.get(key, 0) + n

    kind = chunk[0]
    for manifest in (_menu(kind, quick, hash_only)[lo:hi]
                     if kind == 'fault' else ()):
        # (c) the finish with one failed step
        viol, facts = run_fault(manifest, 'identity', None)
        n = facts['points']
        bump('fault_manifests')
        bump('fault_points', n)
        note('fault', manifest, None, viol)
        for k in range(n):
            v, f = run_fault(manifest, 'identity', k)
            note('fault', manifest, k, v)
            bump('fault_runs')
            bump('fault_aborted_attempts', f['aborted'])
            if f['aborted'] == 0:
                bump('fault_swallowed_by_the_code')
            bump('fault in %s' % (f['fired'][0],))
    for manifest in (_menu(kind, quick, hash_only)[lo:hi]
                     if kind == 'sfault' else ()):
        # (d) the start with one failed step
        viol, facts = run_start_fault(manifest, 'identity', None)
        n = facts['points']
        bump('sfault_manifests')
        bump('sfault_points', n)
        note('start-fault', manifest, None, viol)
        for k in range(n):
            v, f = run_start_fault(manifest, 'identity', k)
            note('start-fault', manifest, k, v)
            bump('sfault_runs')
            bump('sfault in %s' % (f['fired'][0],))
            if not f['aborted']:
                bump('sfault_swallowed_by_the_code')
                continue
            bump('sfault_aborted_starts')
            if f['registered_at_abort']:
                bump('sfault_aborted_with_registrations')
                if f['registered_at_abort'] == facts['registered_at_abort']:
                    bump('sfault_aborted_with_all_registrations')
                if lo == 0 and not out['samples'] and \
                        f['registered_at_abort'] >= 2:
                    out['samples'].append({
                        'start_aborted_by': f['step'],
                        'registrations_at_abort': f['registered_at_abort'],
                        'steps_of_this_start': n,
                        'endpoints': manifest['endpoints'],
                        'ephemeral_ports': manifest['ephemeral_ports'],
                        'passthrough': manifest['passthrough'],
                        'vring': bool(manifest['vring'])})
    out['violations'] = list(seen.values())
    return out


def sweep_worker(chunk):
    out = {'cases': 0, 'nontrivial': 0, 'states': 0, 'violations': [],
           'samples': [], 'counters': {}}
    cnt = out['counters']
    seen = {}
    for manifest, order in chunk_cases(chunk):
        viol, facts = run_single(manifest, order)
        out['cases'] += 1
        out['states'] += 1
        if facts['registered']:
            out['nontrivial'] += 1
        cnt['registrations'] = cnt.get('registrations', 0) + \
            facts['registered']
        for k in facts['kinds']:
            cnt['with ' + k] = cnt.get('with ' + k, 0) + 1
        for k in ('start_raised', 'finish_raised'):
            if k in facts:
                cnt[k] = cnt.get(k, 0) + 1
                if len(out['samples']) < 2:
                    out['samples'].append({k: facts[k], 'manifest': manifest})
        for clause, site, detail in viol:
            key = (clause, site)
            if key not in seen:
                seen[key] = {'clause': clause, 'site': site, 'detail': detail,
                             'count': 0,
                             'replay': {'part': 'sweep', 'manifest': manifest,
                                        'order': order}}
            seen[key]['count'] += 1
        if not out['samples'] and facts['registered'] >= 6:
            out['samples'].append({
                'endpoints': manifest['endpoints'],
                'ephemeral_ports': manifest['ephemeral_ports'],
                'passthrough': manifest['passthrough'],
                'vring': bool(manifest['vring']),
                'environment': manifest['environment'], 'port_order': order,
                'registered': facts['registered'],
                'ports': facts.get('ports')})
    out['violations'] = list(seen.values())
    return out


# ---------------------------------------------------------------------------
# pairs: statex over start / finish of two containers

A_ID = ('proid.app#0000000001', '000000000000a')
B_IDS = {'other-instance': ('proid.app#0000000002', '000000000000b'),
         'next-generation': ('proid.app#0000000001', '000000000000b')}

PAIR_MENU = {
    'plain': dict(endpoints_=[('e1', 'tcp', 8000, None)]),
    'mixed': dict(endpoints_=[('e1', 'tcp', 0, 'infra'),
                              ('e1', 'udp', 0, None)],
                  eph=(1, 1), passthrough=['h1'], vring=True),
    'rich': dict(endpoints_=[('e1', 'tcp', 8000, 'infra'),
                             ('e2', 'tcp', 22, None)],
                 eph=(2, 0), passthrough=['h1', 'h2'], vring=True),
    'bare-vring': dict(endpoints_=[], eph=(0, 2), passthrough=['h1', 'h3'],
                       vring=True),
    'shared-net': dict(endpoints_=[('e1', 'tcp', 8000, None)], eph=(1, 0),
                       shared_network=True),
}


def pair_configs(quick):
    out = []
    orders = ['identity'] if quick else list(W.PORT_ORDERS)
    envs = ['dev'] if quick else ['dev', 'prod']
    for a, b, bid, benv, order in itertools.product(
            PAIR_MENU, PAIR_MENU, B_IDS, envs, orders):
        out.append({'A': a, 'B': b, 'B_id': bid, 'B_env': benv,
                    'order': order})
    return out


def _is_newnet(kind, what):
    return kind == 'subproc' and what[0] == 'newnet.create_newnet'


class PairWorld:
    def __init__(self, cfg):
        self.cfg = cfg
        self.viol = []
        import collections
        self.stats = collections.Counter()
        self.host = W.Host(port_order=cfg['order'])
        self.base = self.host.snapshot()
        self.man = {
            'A': W.manifest(name=A_ID[0], uniqueid=A_ID[1],
                            environment='dev', **PAIR_MENU[cfg['A']]),
            'B': W.manifest(name=B_IDS[cfg['B_id']][0],
                            uniqueid=B_IDS[cfg['B_id']][1],
                            environment=cfg['B_env'],
                            **PAIR_MENU[cfg['B']]),
        }
        self.status = {'A': 'new', 'B': 'new'}
        self.aborted = set()
        self.start_exc = {}
        self.app = {}
        self.reg = {'A': frozenset(), 'B': frozenset()}

    def report(self, clause, site, ev, **detail):
        detail['event'] = list(ev)
        self.viol.append({'clause': clause, 'site': site, 'detail': detail})

    def apply(self, ev):
        kind, x = ev
        other = 'B' if x == 'A' else 'A'
        before = self.host.snapshot()
        if kind in ('start', 'abort'):
            assert self.status[x] == 'new'
            if kind == 'abort':
                # the last step of the network set-up fails: everything is
                # registered, the start is aborted (process gone, sockets
                # closed), the container waits for its finish
                W.FAULT.arm(None, 'start', match=_is_newnet)
            try:
                app = self.host.start(self.man[x])
            except Exception as exc:  # pylint: disable=broad-except
                # not a verdict by itself (e.g. EEXIST on something an
                # earlier finish left behind, which was reported there)
                app = None
                self.stats['start_raised'] += 1
                self.start_exc[x] = _exc(exc)
            finally:
                fired = W.FAULT.fired
                W.FAULT.arm(None)
            after = self.host.snapshot()
            self.app[x] = app
            self.reg[x] = after - before
            self.status[x] = 'run'
            self.stats['starts'] += 1
            if x in self.start_exc:
                # whatever made the start raise, it is an aborted start
                self.aborted.add(x)
            if kind == 'abort':
                if fired is not None:
                    self.stats['starts_aborted_at_veth_creation'] += 1
                    if self.reg[x]:
                        self.stats['aborted_starts_with_registrations'] += 1
            if self.status[other] == 'run':
                self.stats['start_next_to_running'] += 1
            for item in sorted(before - after):
                self.report('start-removed-existing-registration',
                            '_run._unshare_network:' + W.kind_of(item), ev,
                            item=item)
            others = [self.app[other]] if self.status[other] == 'run' \
                and self.app[other] is not None else []
            if app is not None:
                for clause, detail in W.check_ports(self.host, app, others):
                    self.report(clause, 'runtime.allocate_network_ports', ev,
                                **detail)
                if others and app.ephemeral_ports.udp + [
                        e for e in app.endpoints if e.proto == 'udp'] and \
                        others[0].ephemeral_ports.udp + [
                            e for e in others[0].endpoints
                            if e.proto == 'udp']:
                    self.stats['udp_start_next_to_udp_holder'] += 1
            # one host <proto, ip, port> is redirected to one container only
            # (not judged next to an aborted container that was not finished
            # yet: its ports are free again, its rules are still there - a
            # window the statement says nothing about)
            seen = {}
            waiting = other in self.aborted and self.status[other] == 'run'
            for item in sorted(() if waiting else after):
                if item[0] == 'rule' and ':dnat:' in item[1]:
                    key = item[1].rsplit('-', 1)[0]
                    if key in seen and item in self.reg[x]:
                        self.report('two-dnat-rules-for-one-host-port',
                                    '_run._unshare_network:rules/dnat', ev,
                                    rules=[seen[key], item[1]])
                    seen.setdefault(key, item[1])
            return
        # finish
        st = self.status[x]
        try:
            self.host.finish(self.man[x])
            raised = None
        except Exception as exc:  # pylint: disable=broad-except
            raised = _exc(exc)
        after = self.host.snapshot()
        if st == 'run':
            self.stats['finishes'] += 1
            if self.status[other] == 'run' and self.reg[other]:
                self.stats['finish_while_other_registered'] += 1
                if x in self.aborted and self.reg[x]:
                    self.stats['finish_of_aborted_while_other_registered'] \
                        += 1
            expected = before - self.reg[x]
            self.status[x] = 'done'
            for item in sorted(after - expected):
                if x in self.aborted:
                    self.report(
                        'finish-left-registration-behind-after-aborted-start',
                        '_run.run / _finish.finish:' + W.kind_of(item),
                        ev, left=item, finish_raised=raised,
                        start_raised=self.start_exc.get(x))
                    continue
                self.report('finish-left-registration-behind',
                            '_finish._cleanup_network:' + W.kind_of(item),
                            ev, left=item, finish_raised=raised)
            for item in sorted(expected - after):
                whose = ('the other container'
                         if item in self.reg[other] else 'a foreign container')
                self.report(
                    'finish-removed-registration-of-another-container',
                    '_finish._cleanup_network:' + W.kind_of(item), ev,
                    removed=item, belongs_to=whose)
            self.reg[x] = frozenset()
        else:
            self.stats['repeated_or_early_finishes'] += 1
            if self.status[other] == 'run' and self.reg[other]:
                self.stats['repeated_finish_while_other_registered'] += 1
            if raised:
                self.report('repeated-finish-raised',
                            '_finish._cleanup_network', ev, exc=raised,
                            status=st)
            if after != before:
                item = sorted(after ^ before)[0]
                self.report('repeated-finish-changed-state',
                            '_finish._cleanup_network:' + W.kind_of(item),
                            ev, changed=sorted(after ^ before), status=st)
        if self.status['A'] == 'done' and self.status['B'] == 'done':
            self.stats['both_finished'] += 1
            if after != self.base:
                item = sorted(after ^ self.base)[0]
                self.report('host-not-restored-after-all-finished',
                            '_finish._cleanup_network:' + W.kind_of(item),
                            ev, difference=sorted(after ^ self.base))

    def enabled(self):
        evs = []
        for x in ('A', 'B'):
            if self.status[x] == 'new':
                evs.append(('start', x))
                if not self.man[x]['shared_network']:
                    evs.append(('abort', x))
        for x in ('A', 'B'):
            evs.append(('finish', x))
        return evs

    def canon(self):
        return (tuple(sorted(self.host.snapshot())),
                tuple(sorted(self.status.items())),
                tuple(sorted(x for x in self.aborted
                             if self.status[x] == 'run')),
                tuple(sorted(self.host.bound - self.host.prebound)),
                tuple(sorted((k, v['vip'])
                             for k, v in self.host.net.alloc.items())))


class PairSpec(statex.Spec):
    def __init__(self, cfg):
        self.cfg = cfg

    def new_world(self):
        return PairWorld(self.cfg)

    def apply(self, world, event):
        world.apply(tuple(event))

    def enabled(self, world):
        return world.enabled()

    def canon(self, world):
        return world.canon()


PAIR_DEPTH = 8


def pair_worker(chunk):
    _k, quick, lo, hi = chunk
    out = {'cases': 0, 'nontrivial': 0, 'states': 0, 'violations': [],
           'samples': [], 'counters': {}}
    cnt = out['counters']
    for cfg in pair_configs(quick)[lo:hi]:
        spec = PairSpec(cfg)
        res = statex.bfs(spec, PAIR_DEPTH, workers=1)
        if not res.exhausted:
            raise statex.HarnessError('pair BFS not exhausted at depth %d: %r'
                                      % (PAIR_DEPTH, cfg))
        out['cases'] += 1
        out['states'] += res.states
        cnt['pair_transitions'] = cnt.get('pair_transitions', 0) + \
            res.transitions
        cnt['pair_states'] = cnt.get('pair_states', 0) + res.states
        dk = 'pair_depth=%02d' % res.depth_completed
        cnt[dk] = cnt.get(dk, 0) + 1
        for k, v in res.stats.items():
            cnt[k] = cnt.get(k, 0) + v
        out['nontrivial'] += res.stats.get('finish_while_other_registered', 0)
        if res.exceptions:
            raise statex.HarnessError('exception escaped in pair BFS: %r'
                                      % (res.exceptions[0],))
        for v in res.violations.values():
            out['violations'].append({
                'clause': v['clause'], 'site': v['site'],
                'detail': v['detail'], 'count': v['count'],
                'replay': {'part': 'pair', 'config': cfg,
                           'history': v['history']}})
        if not out['samples'] and res.samples:
            out['samples'].append({'pair': cfg, 'history': res.samples[-1]})
    return out


def worker(chunk):
    if chunk[0] == 'sweep':
        return sweep_worker(chunk)
    if chunk[0] in ('fault', 'sfault'):
        return fault_worker(chunk)
    return pair_worker(chunk)


# ---------------------------------------------------------------------------

def observe(rp):
    """Re-run one recorded case; (sorted violation keys, digest)."""
    if rp['part'] == 'fault':
        viol, facts = run_fault(rp['manifest'], rp['order'], rp['fault'])
        keys = sorted({(c, s) for c, s, _d in viol})
        vs = [{'clause': c, 'site': s, 'detail': d} for c, s, d in viol]
        return keys, repr((keys, facts)), vs
    if rp['part'] == 'start-fault':
        viol, facts = run_start_fault(rp['manifest'], rp['order'],
                                      rp['fault'])
        keys = sorted({(c, s) for c, s, _d in viol})
        vs = [{'clause': c, 'site': s, 'detail': d} for c, s, d in viol]
        return keys, repr((keys, facts)), vs
    if rp['part'] == 'sweep':
        viol, facts = run_single(rp['manifest'], rp['order'])
        keys = sorted({(c, s) for c, s, _d in viol})
        vs = [{'clause': c, 'site': s, 'detail': d} for c, s, d in viol]
        return keys, repr((keys, facts.get('ports'), facts['registered'])), vs
    spec = PairSpec(rp['config'])
    w = statex.build(spec, [tuple(e) for e in rp['history']])
    keys = sorted({(v['clause'], v['site']) for v in w.viol})
    return keys, repr((keys, w.canon())), list(w.viol)


def confirm(v):
    a = observe(v['replay'])
    b = observe(v['replay'])
    if a[1] != b[1]:
        raise statex.HarnessError('non-deterministic replay of %r'
                                  % (v['replay'],))
    if (v['clause'], v['site']) not in a[0]:
        raise statex.HarnessError('violation %s/%s not reproduced by %r'
                                  % (v['clause'], v['site'], v['replay']))


RULE = ('sweep: manifests whose start registered at least one rule file, '
        'endpoint spec or ip-set entry on the host; pairs: finishes of one '
        'container executed while the other container was running with '
        'registrations of its own; start faults (counted separately): starts '
        'aborted after at least one registration was made')


def run(ctx):
    t0 = time.perf_counter()
    W.install()
    W.make_root()
    try:
        return _run(ctx, t0)
    finally:
        W.drop_root()


def _run(ctx, t0):
    # the fault chunks are the heaviest: hand them out first
    chunks = []
    # (under the 2nd, 3rd hash seed of a run only the hash-sensitive
    # manifests of the two fault menus are repeated)
    hash_only = getattr(ctx, 'hash_index', 0) > 0
    fstep = 6
    for kind in ('sfault', 'fault'):
        nmenu = len(_menu(kind, ctx.quick, hash_only))
        for lo in range(0, nmenu, fstep):
            chunks.append((kind, ctx.quick, lo, min(nmenu, lo + fstep),
                           hash_only))
    chunks.extend(sweep_chunks(ctx.quick))
    npairs = len(pair_configs(ctx.quick))
    step = 4
    for lo in range(0, npairs, step):
        chunks.append(('pair', ctx.quick, lo, min(npairs, lo + step)))
    sw = boundx.sweep(chunks, worker, workers=ctx.workers,
                      time_cap=ctx.budget_s * 0.9)
    c = sw.counters
    if sw.nontrivial == 0 or c.get('finish_while_other_registered', 0) == 0 \
            or c.get('repeated_finish_while_other_registered', 0) == 0 \
            or c.get('udp_start_next_to_udp_holder', 0) == 0 \
            or c.get('fault_aborted_attempts', 0) == 0 \
            or c.get('fault in subproc', 0) == 0 \
            or c.get('fault in unlink', 0) == 0 \
            or c.get('sfault_aborted_with_registrations', 0) == 0 \
            or c.get('sfault_aborted_with_all_registrations', 0) == 0 \
            or c.get('sfault in symlink', 0) == 0 \
            or c.get('sfault in subproc', 0) == 0 \
            or c.get('sfault in exec', 0) == 0 \
            or c.get('finish_of_aborted_while_other_registered', 0) == 0:
        if not sw.violations:       # only a silent run can be vacuous
            raise statex.HarnessError('vacuous run: %r' % (dict(c),))
    for k in ('with rules/dnat', 'with rules/snat', 'with rules/passthrough',
              'with endpoints/spec', 'with ipset/tm:vring-containers',
              'with ipset/tm:container-infra-services'):
        if c.get(k, 0) == 0 and not sw.violations:
            raise statex.HarnessError('vacuous run: no manifest %s' % k)
    violations = sw.violation_list()
    for v in violations:
        confirm(v)
    doms = domains(ctx.quick)
    sweep_cases = sw.cases - npairs
    fault_runs = c.get('fault_runs', 0) + c.get('fault_manifests', 0)
    sfault_runs = c.get('sfault_runs', 0) + c.get('sfault_manifests', 0)
    cov = {
        'states': sweep_cases + c.get('pair_states', 0) +
        c.get('fault_points', 0) + c.get('sfault_points', 0),
        'transitions': 3 * sweep_cases + c.get('pair_transitions', 0) +
        2 * fault_runs + c.get('fault_aborted_attempts', 0) +
        3 * sfault_runs,
        'executions': sweep_cases + c.get('pair_transitions', 0) +
        fault_runs + sfault_runs,
        'traces_validated_against_impl':
            sweep_cases + c.get('pair_transitions', 0) + fault_runs +
            sfault_runs,
        'evaluations': sweep_cases + c.get('pair_transitions', 0) +
        fault_runs + sfault_runs,
        'distinct_nontrivial': sw.nontrivial,
        'rule': RULE,
        'samples': sw.samples[:6],
        'exhaustive': sw.exhaustive,
        'caps_hit': list(sw.caps_hit),
        'sweep': {
            'manifests': sweep_cases,
            'domains': [{'name': d[0], 'endpoint_lists': len(d[1]),
                         'ephemeral(tcp,udp)': d[2], 'passthrough': d[3],
                         'vring': d[4], 'shared_network': d[5],
                         'shared_ip': d[6], 'environment': d[7],
                         'port_orders': d[8], 'size': domain_size(d)}
                        for d in doms],
            'endpoint_universe': {
                'keys(name,proto)': KEYS, 'port': [0, 22, 8000],
                'type': [None, 'infra'],
                'lists': 'all choices of <=N distinct (name, proto) keys, '
                         'each with every (port, type)'},
            'hosts': W.HOSTS,
            'registrations_made': c.get('registrations', 0),
            'manifests_by_kind_registered': {
                k[5:]: v for k, v in sorted(c.items())
                if k.startswith('with ')},
            'start_raised': c.get('start_raised', 0),
            'finish_raised': c.get('finish_raised', 0),
        },
        'pairs': {
            'configs': npairs, 'menu': sorted(PAIR_MENU),
            'B_identity': sorted(B_IDS), 'depth_bound': PAIR_DEPTH,
            'space_exhausted_for_every_pair': True,
            'pairs_by_depth_at_which_the_frontier_emptied': {
                k[11:]: v for k, v in sorted(c.items())
                if k.startswith('pair_depth=')},
            'states': c.get('pair_states', 0),
            'transitions': c.get('pair_transitions', 0),
            'finishes_while_other_registered':
                c.get('finish_while_other_registered', 0),
            'repeated_or_early_finishes':
                c.get('repeated_or_early_finishes', 0),
            'repeated_finishes_while_other_registered':
                c.get('repeated_finish_while_other_registered', 0),
            'starts_next_to_running': c.get('start_next_to_running', 0),
            'udp_starts_next_to_a_running_udp_holder':
                c.get('udp_start_next_to_udp_holder', 0),
            'both_finished': c.get('both_finished', 0),
            'starts_that_raised': c.get('start_raised', 0),
            'starts_aborted_at_veth_creation':
                c.get('starts_aborted_at_veth_creation', 0),
            'aborted_starts_with_registrations':
                c.get('aborted_starts_with_registrations', 0),
            'finishes_of_an_aborted_container_while_other_registered':
                c.get('finish_of_aborted_while_other_registered', 0),
        },
        'faults': {
            'what': 'for every manifest of the fault menu: one run counting '
                    'the external commands of the finish, then one run per '
                    'command with exactly that command failing once; finish '
                    'is repeated until an attempt ends without exception',
            'manifests': c.get('fault_manifests', 0),
            'fault_points': c.get('fault_points', 0),
            'runs_with_one_failed_command': c.get('fault_runs', 0),
            'aborted_finish_attempts': c.get('fault_aborted_attempts', 0),
            'failures_the_code_swallowed':
                c.get('fault_swallowed_by_the_code', 0),
            'by_kind': {k[9:]: v for k, v in sorted(c.items())
                        if k.startswith('fault in ')},
            'max_finish_attempts': MAX_FINISH_ATTEMPTS,
            'only_hash_sensitive_manifests': hash_only,
        },
        'start_faults': {
            'what': 'for every manifest of the fault menu: one run counting '
                    'the external steps of the real _run.run, then one run '
                    'per step with exactly that step failing once; the '
                    'aborted container is flagged like sproc/run.py does, '
                    'then the real finish and finish again',
            'menu': 'the fault menu' if ctx.quick else
                    'endpoint lists of size <= 2 x ephemeral {(0,0),(2,1)} x '
                    'passthrough {[], [h1,h3]} x vring',
            'manifests': c.get('sfault_manifests', 0),
            'fault_points': c.get('sfault_points', 0),
            'runs_with_one_failed_step': c.get('sfault_runs', 0),
            'aborted_starts': c.get('sfault_aborted_starts', 0),
            'aborted_after_at_least_one_registration':
                c.get('sfault_aborted_with_registrations', 0),
            'aborted_after_all_registrations':
                c.get('sfault_aborted_with_all_registrations', 0),
            'failures_the_code_swallowed':
                c.get('sfault_swallowed_by_the_code', 0),
            'by_kind': {k[10:]: v for k, v in sorted(c.items())
                        if k.startswith('sfault in ')},
        },
        'chunks': '%d/%d' % (sw.chunks_done, sw.chunks_total),
    }
    depths = [int(k[11:]) for k in c if k.startswith('pair_depth=')]
    if depths:
        cov['depth_completed'] = max(depths)
    ctx.log('sweep %d manifests, %d pair configs (%d transitions), %.1fs'
            % (sweep_cases, npairs, c.get('pair_transitions', 0),
               time.perf_counter() - t0))
    return {'coverage': cov, 'violations': violations,
            'assumptions': ASSUMPTIONS}


def replay(ctx, data):
    W.make_root()
    try:
        _keys, _dig, vs = observe(data)
        seen = {}
        for v in vs:
            seen.setdefault((v['clause'], v['site']), v)
        return {'coverage': {}, 'violations': [
            {'clause': c, 'site': s, 'detail': v['detail']}
            for (c, s), v in seen.items()]}
    finally:
        W.drop_root()


ASSUMPTIONS = [
    'start = the real _run.run from the resource requests to the exec of the '
    'container supervisor (which returns here), finish = the real '
    '_finish.finish (load_app_safe from the saved state.json, _cleanup, '
    '_cleanup_network incl. _cleanup_ephemeral_ports, apphook.cleanup, finish '
    'info); faked at module seams: resource service clients (in memory: '
    'cgroup, localdisk, network, presence), cgroups.join, image.get_image / '
    'unpack, fs.linux (blk_fs_test says "not formatted", blk_fs_create, '
    'mount_filesystem, cleanup_mounts), unshare, newnet.create_newnet, '
    'apphook, subproc.exec_pid1, rrdutils.flush_noexc, runtime.archive_logs, '
    'trace.post; LinuxRuntime / sproc run / the supervisor around them are '
    'not executed',
    'a start that raises is an aborted start: the harness does what '
    'sproc/run.py does (real appcfg.abort.flag_aborted in the data dir), the '
    'process is gone (every socket it opened is closed) and the node runs '
    'the real finish on the container directory later; nothing else touches '
    'the container in between',
    'start failures: every external step of _run.run (each put / wait of the '
    'four resource clients, each cgroups.join, image lookup and unpack, each '
    'socket bind, each symlink of a rule or endpoint-spec file, each ipset '
    'invocation, newnet.create_newnet, block device test / format, unshare, '
    'mount, cleanup_mounts, apphook.configure, exec_pid1) is a fault point; '
    'exactly one fails once per run (ResourceServiceTimeoutError for wait, '
    'CalledProcessError rc 2 for commands, EACCES for bind, OSError EIO '
    'otherwise), then finish runs without failures; a failed write of '
    'state.json / of the aborted flag and double failures are not injected; '
    'in the pair BFS an aborted start fails at newnet.create_newnet (all '
    'registrations made); next to an aborted container that was not finished '
    'yet the one-DNAT-rule-per-host-port clause is not judged (its ports are '
    'free, its rules still there: the statement is silent about that window)',
    'real RuleMgr / EndpointsMgr on run-private temp directories; real '
    'treadmill.iptables ip-set functions over a fake subproc that interprets '
    'the ipset command line on Python sets (-exist makes add/del idempotent); '
    'conntrack calls are recorded only',
    'fake socket module inside treadmill.runtime with the Linux bind '
    'semantics: bind fails with EADDRINUSE on a (type, port) held by a live '
    'socket, except that udp sockets which ALL had SO_REUSEADDR set before '
    'their bind share the port (tcp never: the holder is listening); the '
    'first and last port of both ranges are pre-bound by somebody else '
    'without the option; random.sample replaced by three enumerated orders '
    '(identity, reversed, rotated), the same for every container of a host, '
    'so two containers always draw the same ports first',
    'fake network service client: lowest free vip, get() after delete() or '
    'without put() returns None, wait() without put() (what _run.run does '
    'for a shared-network container) returns the host network; '
    'newnet.create_newnet is a recorder; no firewall plugin is installed '
    '(plugin_manager.load fails and is caught, as in this environment)',
    'host names resolve identically at start and at finish (the FIXME in '
    '_cleanup_network is an environment assumption, not explored)',
    'finish failures: every ipset / conntrack invocation reaching the fake '
    'subproc, every unlink of a rule or endpoint-spec file, the delete of '
    'each of the four resource clients and apphook.cleanup is a fault point; '
    'exactly one of them fails once per run (CalledProcessError rc 2 resp. '
    'OSError EIO), '
    'the attempt ends the way the real code ends it and finish is repeated '
    'until an attempt completes; failures of network_client.get, of reading '
    'state.json and double failures are not injected',
    'every host starts with registrations of a foreign container (DNAT, SNAT, '
    'passthrough rule, endpoint spec, vring and infra ip-set entries) that '
    'must survive',
    'a finished container closes its sockets; the application of a '
    'shared-network container binds the ports _run allocated (and closed) for '
    'it before the next container starts; vring off is the empty mapping '
    '(falsy after utils.to_obj)',
]
