"""C04 - affinity limits hold at every level of the topology."""
from mc.props import _cellprop
from mc.props import _masterprop
from mc.worlds import cellcfg, cellmon, mastercfg

BUDGET = {'quick': 600, 'thorough': 2400}


def _k3(limits):
    cfg = cellcfg.k3(limits)
    cfg['monitors'] = [cellmon.mon_c04]
    cfg['allow_nocycle'] = False
    cfg['events'] = cellcfg.ev(
        ('add', 'la'), ('add', 'lb'), ('add', 'fill'), ('add', 'mid'),
        ('add', 'hi'),
        ('rm', 0), ('rm', 2), ('prio', 0, 100), ('prio', 2, 100),
        ('down', 's0'), ('up', 's0'), ('down', 's2'), ('up', 's2'),
        ('noop',),
    )
    return cfg


LIMITS = {
    'server1': {'server': 1},
    'rack1': {'rack': 1},
    'pod1': {'pod': 1},
    'cell2': {'cell': 2},
    'rack1cell2': {'rack': 1, 'cell': 2},
    'server1pod2': {'server': 1, 'pod': 2},
}


def _m6():
    """World B: limits through manifests, cell buckets inserted / removed
    (Loader.load_cell -> reset_children re-adds the counters), restarts."""
    cfg = mastercfg.m1()
    cfg['idgroups'] = {}
    cfg['cellmonitors'] = [cellmon.mon_c04]
    lim = {'rack': 1, 'cell': 2}
    cfg['templates'] = {
        'la': {'memory': '3M', 'cpu': '3%', 'disk': '3M', 'affinity': 'lim',
               'affinity_limits': lim},
        'lb': {'memory': '6M', 'cpu': '4%', 'disk': '6M', 'affinity': 'lim',
               'affinity_limits': lim, 'priority': 70},
        'hi': {'memory': '10M', 'cpu': '10%', 'disk': '10M',
               'affinity': 'c', 'priority': 100},
    }
    cfg['allow_nocycle'] = False
    cfg['events'] = mastercfg.ev(
        ('app+', 'la'), ('app+', 'lb'), ('app+', 'hi'), ('app-', 0),
        ('cell-', 'rack:1'), ('cell+', 'rack:1'),
        ('cell-', 'rack:0'), ('cell+', 'rack:0'),
        ('pres-', 's0'), ('pres+', 's0', 0), ('noop',), ('restart',),
    )
    return cfg


def configs(ctx):
    if ctx.quick:
        return [('K3-' + k, _k3(LIMITS[k]), 4, 0)
                for k in ('rack1', 'pod1', 'cell2', 'server1pod2')] + \
            [('M6', _m6(), 4, 0, _masterprop.MasterSpec)]
    return [('K3-' + k, _k3(v), 6, 0) for k, v in LIMITS.items()] + \
        [('M6', _m6(), 6, 0, _masterprop.MasterSpec)]


RULE = ('BFS over histories with capacity pressure on a 2x2 cell, affinity '
        'limits per config; non-trivial transitions are cycles in which an '
        'instance was displaced (c04_cycles_with_displacement), with direct '
        'eviction puts and restores counted separately')
NT = ['c04_cycles_with_displacement', 'c04_cycles_with_restore',
      'c04_cycles_with_evict_put', 'c04_limited_checks']


def run(ctx):
    return _cellprop.run_configs(ctx, configs(ctx), NT, RULE,
                                 _cellprop.BASE_ASSUMPTIONS)


def replay(ctx, data):
    return _cellprop.replay_config(ctx, configs(ctx), data)
