"""C04 - affinity limits hold at every level of the topology."""
from mc.props import _cellprop
from mc.worlds import cellcfg, cellmon

BUDGET = {'quick': 240, 'thorough': 2400}
HASH_INSENSITIVE = True     # World A has no string-hash dependent iteration


def _k3(limits):
    cfg = cellcfg.k3(limits)
    cfg['monitors'] = [cellmon.mon_c04]
    cfg['allow_nocycle'] = False
    cfg['events'] = cellcfg.ev(
        ('add', 'la'), ('add', 'lb'), ('add', 'fill'), ('add', 'mid'),
        ('add', 'hi'),
        ('rm', 0), ('rm', 2), ('prio', 0, 100), ('prio', 2, 100),
        ('down', 's0'), ('up', 's0'), ('down', 's2'), ('up', 's2'),
        ('noop',),
    )
    return cfg


LIMITS = {
    'server1': {'server': 1},
    'rack1': {'rack': 1},
    'pod1': {'pod': 1},
    'cell2': {'cell': 2},
    'rack1cell2': {'rack': 1, 'cell': 2},
    'server1pod2': {'server': 1, 'pod': 2},
}


def configs(ctx):
    if ctx.quick:
        return [('K3-' + k, _k3(LIMITS[k]), 4, 0)
                for k in ('rack1', 'pod1', 'cell2', 'server1pod2')]
    return [('K3-' + k, _k3(v), 6, 0) for k, v in LIMITS.items()]


RULE = ('BFS over histories with capacity pressure on a 2x2 cell, affinity '
        'limits per config; non-trivial transitions are cycles in which an '
        'instance was displaced (c04_cycles_with_displacement), with direct '
        'eviction puts and restores counted separately')
NT = ['c04_cycles_with_displacement', 'c04_cycles_with_restore',
      'c04_cycles_with_evict_put', 'c04_limited_checks']


def run(ctx):
    return _cellprop.run_configs(ctx, configs(ctx), NT, RULE,
                                 _cellprop.BASE_ASSUMPTIONS)


def replay(ctx, data):
    return _cellprop.replay_config(ctx, configs(ctx), data)
