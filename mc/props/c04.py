"""C04 - affinity limits hold at every level of the topology."""
from mc.props import _cellprop
from mc.props import _masterprop
from mc.worlds import cellcfg, cellmon, mastercfg

BUDGET = {'quick': 600, 'thorough': 2400}


def _k3(limits):
    cfg = cellcfg.k3(limits)
    cfg['monitors'] = [cellmon.mon_c04]
    cfg['allow_nocycle'] = False
    cfg['events'] = cellcfg.ev(
        ('add', 'la'), ('add', 'lb'), ('add', 'fill'), ('add', 'mid'),
        ('add', 'hi'),
        ('rm', 0), ('rm', 2), ('prio', 0, 100), ('prio', 2, 100),
        ('down', 's0'), ('up', 's0'), ('down', 's2'), ('up', 's2'),
        ('rld',), ('noop',),
    )
    return cfg


def _k11(limits):
    """Two victims on one server and two instances of the limited affinity
    arriving between two cycles: both reach the eviction path in ONE cycle
    and look at the same server; the first uses the limit up."""
    cfg = {
        'buckets': [('pod:0', None, 'pod'), ('rack:0', 'pod:0', 'rack'),
                    ('rack:1', 'pod:0', 'rack')],
        'partitions': ['_default'],
        'servers': {
            's0': {'parent': 'rack:0', 'variants': [{'cap': [10, 10, 10]}]},
            's1': {'parent': 'rack:1', 'variants': [{'cap': [4, 4, 4]}]},
        },
        'allocs': {'a': {'partition': '_default', 'variants': [{'rank': 100}]}},
        'templates': {
            'V': {'prio': 10, 'demand': [5, 5, 5], 'aff': 'v'},
            'P': {'prio': 100, 'demand': [5, 5, 5], 'aff': 'lim',
                  'limits': limits},
            'Q': {'prio': 90, 'demand': [4, 4, 4], 'aff': 'lim',
                  'limits': limits},
        },
        'max_apps': 5,
    }
    cfg['monitors'] = [cellmon.mon_c04]
    cfg['events'] = cellcfg.ev(
        ('add', 'P'), ('add', 'Q'), ('add', 'V'), ('rm', 0), ('rm', 2),
        ('noop',),
    )
    cfg['seeds'] = [(('add', 'V', True), ('add', 'V', True))]
    return cfg


def _k3mv(limits):
    """A server moves, with what is placed on it, below another rack (of
    another pod): the counters of every ancestor have to follow."""
    cfg = cellcfg.k3(limits)
    cfg['monitors'] = [cellmon.mon_c04]
    cfg['allow_nocycle'] = False
    cfg['events'] = cellcfg.ev(
        ('add', 'la'), ('add', 'lb'), ('add', 'fill'), ('rm', 0),
        ('smv', 's1', 'rack:2'), ('smv', 's1', 'rack:0'),
        ('smv', 's3', 'rack:1'), ('smv', 's3', 'rack:2'),
        ('down', 's0'), ('up', 's0'), ('noop',),
    )
    return cfg


def _k6(limits):
    """One rack of three servers: a pending instance blocked only by the
    rack/pod/cell limit, a running holder of that limit sharing its server,
    and an instance that cannot be placed anywhere and evicts in vain."""
    cfg = {
        'buckets': [('pod:0', None, 'pod'), ('rack:0', 'pod:0', 'rack')],
        'partitions': ['_default'],
        'servers': {
            's0': {'parent': 'rack:0', 'variants': [{'cap': [10, 10, 10]}]},
            's1': {'parent': 'rack:0', 'variants': [{'cap': [10, 10, 10]}]},
            's2': {'parent': 'rack:0', 'variants': [{'cap': [10, 10, 10]}]},
        },
        'allocs': {'a': {'partition': '_default', 'variants': [{'rank': 100}]}},
        'templates': {
            'T': {'prio': 100, 'demand': [10, 10, 10], 'aff': 'fill'},
            'Z': {'prio': 100, 'demand': [5, 5, 5], 'aff': 'z'},
            'V': {'prio': 10, 'demand': [3, 3, 3], 'aff': 'lim',
                  'limits': limits},
            'P': {'prio': 50, 'demand': [6, 6, 6], 'aff': 'lim',
                  'limits': limits},
            'X': {'prio': 60, 'demand': [11, 11, 11], 'aff': 'x'},
        },
        'max_apps': 7,
        'events': [],
    }
    cfg['monitors'] = [cellmon.mon_c04]
    cfg['allow_nocycle'] = False
    cfg['events'] = cellcfg.ev(
        ('add', 'P'), ('add', 'X'), ('add', 'V'), ('add', 'Z'),
        ('rm', 0), ('rm', 2), ('rm', 4), ('rm', 5), ('noop',),
    )
    cfg['seeds'] = [
        (),
        (('add', 'T', True), ('add', 'Z', True), ('add', 'T', True),
         ('add', 'V', True), ('rm', 2, True)),
    ]
    return cfg


LIMITS = {
    'server1': {'server': 1},
    'rack1': {'rack': 1},
    'pod1': {'pod': 1},
    'cell2': {'cell': 2},
    'rack1cell2': {'rack': 1, 'cell': 2},
    'server1pod2': {'server': 1, 'pod': 2},
}


def _m6():
    """World B: limits through manifests, cell buckets inserted / removed
    (Loader.load_cell -> reset_children re-adds the counters), restarts."""
    cfg = mastercfg.m1()
    cfg['idgroups'] = {}
    cfg['cellmonitors'] = [cellmon.mon_c04]
    lim = {'rack': 1, 'cell': 2}
    cfg['templates'] = {
        'la': {'memory': '3M', 'cpu': '3%', 'disk': '3M', 'affinity': 'lim',
               'affinity_limits': lim},
        'lb': {'memory': '6M', 'cpu': '4%', 'disk': '6M', 'affinity': 'lim',
               'affinity_limits': lim, 'priority': 70},
        'hi': {'memory': '10M', 'cpu': '10%', 'disk': '10M',
               'affinity': 'c', 'priority': 100},
    }
    cfg['allow_nocycle'] = False
    cfg['events'] = mastercfg.ev(
        ('app+', 'la'), ('app+', 'lb'), ('app+', 'hi'), ('app-', 0),
        ('cell-', 'rack:1'), ('cell+', 'rack:1'),
        ('cell-', 'rack:0'), ('cell+', 'rack:0'),
        ('pres-', 's0'), ('pres+', 's0', 0), ('noop',), ('restart',),
    )
    return cfg


def _m6l():
    """As M6, but the records of the two top-level buckets state their level
    explicitly and differently from their name prefix: 'rack:0' / 'rack:1'
    are PODS here, and the instances limit themselves to one per pod."""
    cfg = _m6()
    cfg['bucket_levels'] = {'rack:0': 'pod', 'rack:1': 'pod'}
    lim = {'pod': 1, 'cell': 2}
    for name in ('la', 'lb'):
        cfg['templates'][name]['affinity_limits'] = lim
    return cfg


def configs(ctx):
    if ctx.quick:
        return [('K3-' + k, _k3(LIMITS[k]), 4, 0)
                for k in ('rack1', 'pod1', 'cell2', 'server1pod2')] + \
            [('K3mv-pod2', _k3mv({'pod': 2}), 4, 0),
             ('K3mv-rack1cell2', _k3mv({'rack': 1, 'cell': 2}), 4, 0),
             ('K6-rack1', _k6({'rack': 1}), 3, 0),
             ('K6-cell1', _k6({'cell': 1}), 3, 0),
             ('K11-rack1', _k11({'rack': 1}), 3, 2),
             ('K11-pod1', _k11({'pod': 1}), 3, 2)] + \
            [('M6', _m6(), 4, 0, _masterprop.MasterSpec),
             ('M6-levels', _m6l(), 3, 0, _masterprop.MasterSpec)]
    return [('K3-' + k, _k3(v), 6, 0) for k, v in LIMITS.items()] + \
        [('K3mv-pod2', _k3mv({'pod': 2}), 6, 0),
         ('K3mv-rack1cell2', _k3mv({'rack': 1, 'cell': 2}), 6, 0),
         ('K3mv-pod1', _k3mv({'pod': 1}), 6, 0),
         ('K6-rack1', _k6({'rack': 1}), 5, 0),
         ('K6-pod1', _k6({'pod': 1}), 5, 0),
         ('K6-cell1', _k6({'cell': 1}), 5, 0),
         ('K11-rack1', _k11({'rack': 1}), 5, 3),
         ('K11-pod1', _k11({'pod': 1}), 5, 3),
         ('K11-cell1', _k11({'cell': 1}), 5, 3)] + \
        [('M6', _m6(), 6, 0, _masterprop.MasterSpec),
         ('M6-levels', _m6l(), 5, 0, _masterprop.MasterSpec)]


RULE = ('BFS over histories with capacity pressure on a 2x2 cell, affinity '
        'limits per config; non-trivial transitions are cycles in which an '
        'instance was displaced (c04_cycles_with_displacement), with direct '
        'eviction puts and restores counted separately')
NT = ['c04_cycles_with_displacement', 'c04_cycles_with_restore',
      'c04_cycles_with_evict_put', 'c04_limited_checks']


def run(ctx):
    return _cellprop.run_configs(ctx, configs(ctx), NT, RULE,
                                 _cellprop.BASE_ASSUMPTIONS)


def replay(ctx, data):
    return _cellprop.replay_config(ctx, configs(ctx), data)
