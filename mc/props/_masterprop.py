"""Shared driver for World-B (Master on fake ZooKeeper) properties."""
from mc import statex
from mc.props import _cellprop
from mc.worlds import masterworld


class MasterSpec(statex.Spec):
    exception_clause = None

    def __init__(self, cfg):
        self.cfg = cfg

    def new_world(self):
        return masterworld.MasterWorld(self.cfg)

    def apply(self, world, event):
        world.apply(tuple(event))

    def enabled(self, world):
        if world.dead:
            return []
        return world.enabled()

    def canon(self, world):
        return world.canon()

    def dev_cost(self, event):
        return 0 if event[-1] is True else 1


ASSUMPTIONS = [
    'World B: real Master + ZkBackend + masterapi + zkutils on the in-memory '
    'ZooKeeper of mc/fakezk.py (kazoo client semantics pinned by '
    'selftest/fakezk_test.py; no ACL enforcement, no connection loss without '
    'expiry)',
    'handlers are invoked as the watcher would (process_scheduled/'
    'process_events/process_server_presence with the current children), '
    'un-wrapped from exit_on_unhandled; one cycle = reschedule() + '
    'check_placement_integrity() when not up_to_date',
    'scheduler reads presence at /server.presence/<hostname> (plain hostname '
    'nodes are created by the harness, as master_test.py does)',
    'virtual clock; ZooKeeper ctime/mtime = logical ms + harness event index',
    'bounds: 3 servers, <= 4 instances, menus in coverage.configs',
]
