"""C15 sub-check: admin objects <-> LDAP entries (treadmill.admin._ldap).

direct : f = from_entry . _remove_empty . to_entry  (what create + get do)
         - f(x) agrees with x on every field x sets (reference canonical form
           below: None/empty == absent, keyed lists are unordered, documented
           defaults filled in),
         - f(f(x)) is f(x) (same canonical form),
         - distinct canonical values never share an entry (sweep-wide).
update : REAL LdapObject.create / update / get + Admin.update / get /
         _diff_entries on an in-memory entry store standing in for the ldap3
         connection: updating `old` with `new` must land on the same decoded
         object as creating `old updated with new` directly.
"""
import copy
import types

from mc import c15_common as cc
from mc.c15_zk import typed_key

ABSENT = '<absent>'
MANY = 17          # crosses the hexadecimal option index (0x10)

# --------------------------------------------------------------------------
# menus: (field, typical value, [alternative values])
APP_FIELDS = [
    ('_id', 'proid.app', ['proid.app.sub-1']),
    ('cpu', '10%', ['0%', '1000%']),
    ('memory', '100M', ['1G']),
    ('disk', '1G', ['0M']),
    ('image', 'docker://img:tag', ['native:foo']),
    ('command', '/bin/sleep 5', ['', 'sh -c "echo \'x\'"', 'caf\xe9']),
    # incl. present-but-empty members: '' is a value, only None is dropped
    ('args', ['-c', 'x y'], [[], ['a'], ['b', 'a'],
                             ['--prefix', '', '--verbose'],
                             ['--prefix', '--verbose'], ['']]),
    ('tickets', ['u@R'], [[], ['a@R', 'b@R'], ['a@R', '', 'b@R']]),
    ('keytabs', ['host/x@R'], [[], ['', 'host/x@R']]),
    ('features', ['docker'], [[], ['docker', '']]),
    ('identity_group', 'proid.ig', []),
    ('shared_ip', True, [False]),
    ('shared_network', True, [False]),
    ('passthrough', ['h1.x.com', 'h2.x.com'], [[], ['h1.x.com', '']]),
    ('schedule_once', True, [False]),
    ('ephemeral_ports', {'tcp': 5, 'udp': 10},
     [{}, {'tcp': 5}, {'udp': 1}, {'tcp': 0, 'udp': 0}, {'tcp': 0}]),
    ('data_retention_timeout', '30m', []),
    ('lease', '3d', []),
    ('traits', ['t1', 't2'], [[], ['t2', 't1'], ['t1', '', 't2']]),
]
S1 = {'name': 'web', 'command': '/bin/web'}
S2 = {'name': 'db', 'command': '/bin/db',
      'restart': {'limit': 3, 'interval': 30}}
S3 = {'name': 'w2', 'command': 'c', 'image': 'img', 'useshell': True,
      'root': False, 'restart': {'limit': 0}}
E1 = {'name': 'http', 'port': 8000}
E1T = {'name': 'http', 'port': 8000, 'proto': 'tcp'}
E1U = {'name': 'http', 'port': 8001, 'proto': 'udp'}
E2 = {'name': 'ssh', 'port': 22, 'type': 'infra', 'proto': 'tcp'}
V1 = {'name': 'A', 'value': '1'}
V2 = {'name': 'B', 'value': 'x=y z'}
V3 = {'name': 'C', 'value': ''}
R1 = {'pattern': 'p.a*', 'endpoints': ['http', 'tcp']}
R2 = {'pattern': 'q.*', 'endpoints': ['x']}
APP_LISTS = [
    ('services', [ABSENT, [], [S1], [S2], [S3], [S1, S2], [S2, S1],
                  [S1, S3],
                  [{'name': 'svc%02d' % i, 'command': '/c%d' % i}
                   for i in range(MANY)]]),
    ('endpoints', [ABSENT, [], [E1], [E1T, E1U], [E1U, E1T], [E1, E2],
                   [E2, E1],
                   [{'name': 'ep%02d' % i, 'port': 1000 + i}
                    for i in range(MANY)]]),
    ('environ', [ABSENT, [], [V1], [V1, V2], [V2, V1], [V3],
                 [{'name': 'VAR%02d' % i, 'value': 'v%d' % i}
                  for i in range(MANY)]]),
    ('affinity_limits', [ABSENT, {}, {'rack': 1}, {'rack': 1, 'server': 2},
                         {'pod': 0},
                         {'lvl%02d' % i: i for i in range(MANY)}]),
    ('vring', [ABSENT, {'cells': [], 'rules': []},
               {'cells': ['c1'], 'rules': []},
               {'cells': ['c1', 'c2'], 'rules': [R1]},
               {'cells': [], 'rules': [R1, R2]},
               {'cells': [], 'rules': [R2, R1]},
               {'cells': ['c1'],
                'rules': [{'pattern': 'p%02d.*' % i, 'endpoints': ['e']}
                          for i in range(MANY)]}]),
]

CA_FIELDS = [
    ('cell', 'c1', ['cell-2']),
    ('cpu', '100%', ['0%']),
    ('memory', '10G', ['0G']),
    ('disk', '100G', ['0G']),
    ('max_utilization', 4.2, [1.0, 0.5, 100.0]),
    ('rank', 100, [0, 1]),
    ('rank_adjustment', 10, [0]),
    ('traits', ['a', 'b'], [[], ['b', 'a'], ['a', '', 'b'], ['']]),
    ('partition', 'p1', ['_default']),
]
A1 = {'pattern': 'proid.a*', 'priority': 1}
A2 = {'pattern': 'proid.b*', 'priority': 50}
A1B = {'pattern': 'proid.a*', 'priority': 99}
A3 = {'pattern': 'other.*', 'priority': 0}
A_MANY = [{'pattern': 'pr.app%02d*' % i, 'priority': i}
          for i in range(MANY)]
CA_LISTS = [('assignments', [ABSENT, [], [A1], [A1, A2], [A2, A1], [A1B],
                             A_MANY])]

PT_FIELDS = [
    ('_id', 'part1', ['_default']),
    ('cpu', '42%', ['0%']),
    ('disk', '100G', ['0G']),
    ('memory', '4G', ['0G']),
    ('systems', [1, 2], [[], [2, 1], [12345]]),
    ('down-threshold', 5, [0]),
    ('reboot-schedule', 'sat/01:00', []),
    ('data', {'k': 'v', 'n': {'b': 1, 'a': [1, 2]}}, [{}, {'z': 1, 'a': 2}]),
]
L1 = {'trait': 't1', 'cpu': '10%', 'disk': '1G', 'memory': '1G'}
L2 = {'trait': 't2', 'cpu': '20%'}
L1B = {'trait': 't1', 'cpu': '99%', 'disk': '1G', 'memory': '1G'}
L_MANY = [{'trait': 'tr%02d' % i, 'cpu': '%d%%' % i, 'disk': '1G',
           'memory': '1G'} for i in range(MANY)]
PT_LISTS = [('limits', [ABSENT, [], [L1], [L1, L2], [L2, L1], [L1B],
                        L_MANY])]

KINDS = {
    'app': ('Application', APP_FIELDS, APP_LISTS),
    'cellalloc': ('CellAllocation', CA_FIELDS, CA_LISTS),
    'partition': ('Partition', PT_FIELDS, PT_LISTS),
}
KEYED = {'services', 'endpoints', 'environ', 'assignments', 'limits'}
SVC_RESTART_DEFAULT = {'limit': 5, 'interval': 60}

# update-path menus ---------------------------------------------------------
CA_OLD_SCALARS = [
    {'cell': 'c1'},
    {'cell': 'c1', 'cpu': '100%', 'memory': '10G', 'disk': '100G',
     'rank': 100, 'partition': 'p1'},
    {'cell': 'c1', 'cpu': '100%', 'memory': '10G', 'disk': '100G',
     'rank': 100, 'rank_adjustment': 10, 'max_utilization': 4.2,
     'traits': ['a', 'b'], 'partition': 'p1'},
]
CA_OLD_LISTS = [ABSENT, [A1], [A1, A2], [A2, A3], A_MANY]
CA_NEW = (
    # what `treadmill admin ldap allocation reserve` sends: scalars only
    [{'cpu': '50%'}, {'rank': 1}, {'max_utilization': 1.5},
     {'partition': '_default'}, {'traits': ['x']}, {'traits': ['b', 'a']},
     {'traits': []}, {'traits': None}, {'rank_adjustment': None},
     {'cpu': '1%', 'memory': '1G', 'disk': '2G'}] +
    # what the assignment API / CLI sends: the keyed list only
    [{'assignments': lst} for lst in
     ([], [A1], [A1B], [A1, A2], [A2, A1], [A3], [A1B, A3],
      A_MANY, A_MANY[:MANY - 1], A_MANY[1:])] +
    # what the reservation API sends: the whole (read-modify-written) object
    [dict(s, assignments=lst) for s in CA_OLD_SCALARS[1:]
     for lst in ([], [A1], [A1, A2], A_MANY)] +
    [dict(CA_OLD_SCALARS[1], cpu='7%', assignments=[A1B, A3])]
)
PT_OLD_SCALARS = [
    {'_id': 'part1'},
    {'_id': 'part1', 'cpu': '42%', 'memory': '4G', 'disk': '100G'},
    {'_id': 'part1', 'cpu': '42%', 'memory': '4G', 'disk': '100G',
     'systems': [1, 2], 'down-threshold': 5, 'reboot-schedule': 'sat/01:00',
     'data': {'k': 'v', 'n': {'b': 1}}},
]
PT_OLD_LISTS = [ABSENT, [L1], [L1, L2], L_MANY]
PT_NEW = (
    # `treadmill admin ldap partition configure`: scalars only
    [{'cpu': '1%'}, {'memory': '1G', 'disk': '2G'}, {'systems': [3]},
     {'systems': [2, 1]}, {'systems': None}, {'down-threshold': 9},
     {'reboot-schedule': 'sun/02:00'}, {'data': {'k': 'w'}},
     {'data': {'n': {'b': 1}, 'k': 'v'}}] +
    # `treadmill admin ldap partition limit`: the keyed list only
    [{'limits': lst} for lst in
     ([], [L1], [L1B], [L1, L2], [L2, L1], [L2], L_MANY,
      L_MANY[:MANY - 1], L_MANY[1:])] +
    [dict(s, limits=lst) for s in PT_OLD_SCALARS[1:]
     for lst in ([], [L1], [L1, L2])]
)
FETCH_MODELS = ['typed', 'raw']


def _subset_menus(fields):
    return [(f, [ABSENT, v]) for f, v, _alts in fields]


# nested list attributes with a present-but-empty member (and the same
# objects without it, so that a dropped member is also a collision)
APP_EXTRA_VALUES = [
    {'vring': {'cells': ['c1', ''], 'rules': []}},
    {'vring': {'cells': ['c1'], 'rules': []}},
    {'vring': {'cells': [], 'rules': [{'pattern': 'p.a*',
                                       'endpoints': ['http', '', 'tcp']}]}},
    {'vring': {'cells': [], 'rules': [{'pattern': 'p.a*',
                                       'endpoints': ['http', 'tcp']}]}},
]


def _value_cases(fields):
    out = []
    for f, v, alts in fields:
        # None (= omitted) for every field the schema lets be null
        for val in [v] + list(alts) + ([] if isinstance(v, dict) and
                                       f == 'ephemeral_ports' else [None]):
            out.append({f: val})
    return out


def _obj_from(names, values):
    return {n: copy.deepcopy(v) for n, v in zip(names, values)
            if not (isinstance(v, str) and v == ABSENT)}


# --------------------------------------------------------------------------
# reference canonical form (what "the value that was written" means)
def _strip(v):
    """Drop None / empty-list members of dicts, recursively."""
    if isinstance(v, dict):
        return {k: _strip(x) for k, x in v.items()
                if x is not None and x != []}
    if isinstance(v, list):
        return [_strip(x) for x in v]
    return v


def _member(field, m):
    m = {k: v for k, v in m.items() if v is not None}
    if field == 'services':
        restart = dict(SVC_RESTART_DEFAULT)
        restart.update(m.get('restart') or {})
        m['restart'] = restart
    return _strip(m)


def _sorted_members(members):
    return sorted(members, key=typed_key)


def canon(obj, unordered=False):
    """Canonical form.  unordered=True: plain multi-valued attributes are
    compared as multisets (an LDAP attribute is a set of values; used for
    the update path where _diff_attribute_values compares them as sets)."""
    out = {}
    for k, v in obj.items():
        if v is None or k.startswith('_') and k != '_id':
            continue
        if k in KEYED:
            if v:
                out[k] = _sorted_members(_member(k, m) for m in v)
        elif k == 'affinity_limits':
            if v:
                out[k] = dict(v)
        elif k == 'ephemeral_ports':
            out[k] = {'tcp': v.get('tcp', 0), 'udp': v.get('udp', 0)}
        elif k == 'vring':
            cells = list(v.get('cells') or [])
            rules = _sorted_members(_strip(r) for r in v.get('rules') or [])
            if cells or rules:
                out[k] = _strip({'cells': cells, 'rules': rules})
        elif k == 'max_utilization':
            out[k] = float(v)
        elif isinstance(v, list):
            if v:
                out[k] = sorted(v, key=typed_key) if unordered else list(v)
        else:
            out[k] = v
    return out


def disagreements(x, fx):
    """Fields on which decoded fx does not agree with what x set."""
    want = canon(x)
    have = canon(fx)
    bad = []
    for k, v in want.items():
        if k not in have or typed_key(have[k]) != typed_key(v):
            bad.append((k, v, fx.get(k, '<missing>')))
    return bad


def entry_key(entry):
    return '{' + ','.join('%s=%s' % (k, typed_key(list(entry[k])))
                          for k in sorted(entry)) + '}'


# --------------------------------------------------------------------------
# in-memory entry store standing in for the ldap3 connection
class _Store:
    def __init__(self, model, int_attrs):
        self.entries = {}
        self.model = model
        self.int_attrs = int_attrs
        self.result = None
        self.extend = types.SimpleNamespace(
            standard=types.SimpleNamespace(paged_search=self._search))
        self.ops = 0

    def add(self, dn, _object_class, attributes):
        self.ops += 1
        assert dn not in self.entries
        self.entries[dn] = {k: list(v) for k, v in attributes.items()}
        for k, v in attributes.items():
            assert v, 'LDAP rejects empty attribute %s' % k

    def delete(self, dn):
        self.ops += 1
        del self.entries[dn]

    def modify(self, dn, changes):
        import ldap3
        self.ops += 1
        entry = self.entries[dn]
        for attr, mods in changes.items():
            for op, values in mods:
                if op == ldap3.MODIFY_DELETE:
                    assert not values
                    entry.pop(attr)          # KeyError = noSuchAttribute
                elif op == ldap3.MODIFY_REPLACE:
                    if values:
                        entry[attr] = list(values)
                    else:
                        entry.pop(attr, None)
                elif op == ldap3.MODIFY_ADD:
                    assert values
                    entry.setdefault(attr, []).extend(values)
                else:
                    raise AssertionError(op)

    def _fmt(self, attr, value):
        base = attr.split(';', 1)[0]
        if isinstance(value, bool):
            return value if self.model == 'typed' else str(value).upper()
        if self.model == 'typed' and base in self.int_attrs:
            return int(value)
        return str(value)

    def _search(self, search_base, search_filter, search_scope=None,
                attributes=None, **_kw):
        self.ops += 1
        entry = self.entries.get(search_base)
        if entry is None:
            return
        wanted = {a.lower() for a in attributes}
        out = {}
        for attr, values in entry.items():
            # an attribute description with options is a subtype of the plain
            # attribute and is returned when the plain one is requested
            base = attr.split(';', 1)[0].lower()
            if '*' in wanted or base in wanted:
                out[attr] = [self._fmt(attr, v) for v in values]
        yield {'dn': search_base, 'attributes': out}


class Ldap:
    name = 'ldap'
    chunk = 400

    def __init__(self):
        self._m = None

    def reset(self):
        pass

    def _mod(self):
        if self._m is None:
            from treadmill.admin import _ldap
            self._m = _ldap
        return self._m

    # -- domain ------------------------------------------------------------
    def _subset_domain(self, kind, tier):
        _cls, fields, _lists = KINDS[kind]
        if kind == 'app' and tier == 'quick':
            # quick: all subsets of size <= 3 and >= n-3 of the 19 fields
            import itertools
            names = [f for f, _v, _a in fields]
            vals = {f: v for f, v, _a in fields}
            n = len(names)
            cases = []
            for r in list(range(0, 4)) + list(range(n - 3, n + 1)):
                for combo in itertools.combinations(names, r):
                    cases.append({f: vals[f] for f in combo})
            return cc.Explicit('app.subsets', cases)
        return cc.Product(kind + '.subsets', _subset_menus(fields))

    def domain(self, tier):
        parts = []
        for kind in ('cellalloc', 'partition', 'app'):
            _cls, fields, lists = KINDS[kind]
            parts.append(cc.Explicit(
                kind + '.values', _value_cases(fields) +
                (copy.deepcopy(APP_EXTRA_VALUES) if kind == 'app' else [])))
            if kind == 'app' and tier == 'quick':
                # quick: the 17-member lists are crossed with each other and
                # one short list per field, not with the whole product
                parts.append(cc.Product('app.lists',
                                        [(f, m[:-1]) for f, m in lists]))
                parts.append(cc.Product('app.many',
                                        [(f, [m[2], m[-1]])
                                         for f, m in lists]))
                parts.append(self._subset_domain(kind, tier))
            elif kind == 'app':
                parts.append(cc.Product('app.lists', lists))
                parts.append(self._subset_domain(kind, tier))
            else:
                # few fields: subsets x keyed-list menu in one product
                parts.append(cc.Product(kind + '.subsets',
                                        _subset_menus(fields) + lists))
        parts.append(cc.Product('cellalloc.update', [
            ('old scalars', CA_OLD_SCALARS), ('old assignments', CA_OLD_LISTS),
            ('new', CA_NEW), ('fetch model', FETCH_MODELS)]))
        parts.append(cc.Product('partition.update', [
            ('old scalars', PT_OLD_SCALARS), ('old limits', PT_OLD_LISTS),
            ('new', PT_NEW), ('fetch model', FETCH_MODELS)]))
        return cc.Concat(parts)

    def menus(self, tier):
        out = {}
        for kind, (_cls, fields, lists) in KINDS.items():
            out[kind + '.fields (absent | typical | alternatives | None)'] = {
                f: [cc._short(x) for x in [v] + list(a)]
                for f, v, a in fields}
            out[kind + '.keyed lists'] = {
                f: [cc._short(x, 90) for x in m] for f, m in lists}
        out['app.values extra (nested lists with an empty-string member)'] \
            = [cc._short(x, 120) for x in APP_EXTRA_VALUES]
        out['app.subsets'] = (
            'every subset of the 19 fields (2**19)' if tier != 'quick' else
            'every subset of size <=3 or >=16 of the 19 fields')
        out['cellalloc.subsets'] = 'every subset of 9 fields x assignments'
        out['partition.subsets'] = 'every subset of 8 fields x limits'
        out['app.lists'] = (
            'full product of the 5 keyed-list menus' if tier != 'quick' else
            'full product of the 5 keyed-list menus without their 17-member '
            'entries, plus app.many = {one short list, 17 members}**5')
        out['update'] = {
            'cellalloc.old': [len(CA_OLD_SCALARS), len(CA_OLD_LISTS)],
            'cellalloc.new': [cc._short(x, 90) for x in CA_NEW],
            'partition.old': [len(PT_OLD_SCALARS), len(PT_OLD_LISTS)],
            'partition.new': [cc._short(x, 90) for x in PT_NEW],
            'fetch models': FETCH_MODELS}
        out['many'] = MANY
        return out

    # -- evaluation --------------------------------------------------------
    def _object(self, case):
        tag = case[0]
        kind, what = tag.split('.')
        _cls, fields, lists = KINDS[kind]
        if what == 'values' or (tag == 'app.subsets' and len(case) == 2):
            return kind, copy.deepcopy(case[1])
        if what in ('lists', 'many'):
            return kind, _obj_from([f for f, _m in lists], case[1:])
        names = [f for f, _v, _a in fields]
        if kind != 'app':
            names = names + [f for f, _m in lists]
        return kind, _obj_from(names, case[1:])

    def evaluate(self, case):
        if case[0].endswith('.update'):
            return self._evaluate_update(case)
        m = self._mod()
        kind, obj = self._object(case)
        handler = getattr(m, KINDS[kind][0])(None)
        site = 'admin._ldap.%s.to_entry/from_entry' % KINDS[kind][0]
        viol = []

        def f(o):
            entry = m._remove_empty(handler.to_entry(copy.deepcopy(o)))
            return entry, handler.from_entry(copy.deepcopy(entry))

        entry, fx = f(obj)
        evals = 2
        for field, want, got in disagreements(obj, fx):
            viol.append(('ldap-roundtrip-field-mismatch',
                         '%s:%s' % (site, field),
                         {'object': repr(obj), 'field': field,
                          'written': repr(want), 'decoded': repr(got),
                          'entry': repr(entry)}))
        entry2, ffx = f(fx)
        evals += 2
        if typed_key(canon(ffx)) != typed_key(canon(fx)):
            diff = [k for k in set(canon(fx)) | set(canon(ffx))
                    if typed_key(canon(fx).get(k)) !=
                    typed_key(canon(ffx).get(k))]
            viol.append(('ldap-roundtrip-not-idempotent',
                         '%s:%s' % (site, ','.join(sorted(diff))),
                         {'object': repr(obj), 'f(x)': repr(fx),
                          'f(f(x))': repr(ffx)}))
        options = sum(1 for k in entry if ';' in k)
        return {'enc': kind + entry_key(entry),
                'val': kind + typed_key(canon(obj)), 'evals': evals,
                'nontrivial': options > 0 or len(entry) > 3, 'viol': viol,
                'tags': ['ldap.' + case[0]]}

    def _admin(self, kind, model):
        m = self._mod()
        cls = getattr(m, KINDS[kind][0])
        ints = set()
        for schema in (cls._schema, getattr(cls, '_assign_schema', []),
                       getattr(cls, '_limit_schema', [])):
            for ldap_field, _obj_field, ftype in schema:
                if ftype is int or ftype == [int]:
                    ints.add(ldap_field)
        admin = m.Admin(None, 'dc=verif,dc=test')
        store = _Store(model, ints)
        admin.ldap = admin.write_ldap = store
        return cls(admin), store

    def _evaluate_update(self, case):
        tag, scalars, lst, new, model = case
        kind = tag.split('.')[0]
        list_field = 'assignments' if kind == 'cellalloc' else 'limits'
        old = copy.deepcopy(scalars)
        if not (isinstance(lst, str) and lst == ABSENT):
            old[list_field] = copy.deepcopy(lst)
        new = copy.deepcopy(new)
        ident = (['c1', 'tenant:sub/alloc-prod'] if kind == 'cellalloc'
                 else ['part1', 'c1'])
        cname = KINDS[kind][0]
        viol = []

        obj_admin, store = self._admin(kind, model)
        obj_admin.create(ident, copy.deepcopy(old))
        before = obj_admin.get(ident, dirty=True)
        try:
            obj_admin.update(ident, copy.deepcopy(new))
        except (KeyError, TypeError, ValueError, AttributeError) as err:
            viol.append(('ldap-update-raises',
                         'admin._ldap.LdapObject.update:%s:%s'
                         % (cname, type(err).__name__),
                         {'old': repr(old), 'update': repr(new),
                          'exception': repr(err)}))
        after = obj_admin.get(ident, dirty=True)

        merged = copy.deepcopy(old)
        # [] == absent is the documented normalisation of a plain multi-valued
        # field, and absent in an update means "leave alone" (None clears)
        merged.update({k: copy.deepcopy(v) for k, v in new.items()
                       if not (v == [] and k != list_field)})
        ref_admin, ref_store = self._admin(kind, model)
        ref_admin.create(ident, copy.deepcopy(merged))
        expected = ref_admin.get(ident, dirty=True)
        evals = store.ops + ref_store.ops

        for field, want, got in disagreements(old, before):
            viol.append(('ldap-create-get-field-mismatch',
                         'admin._ldap.%s.create/get:%s' % (cname, field),
                         {'object': repr(old), 'field': field,
                          'written': repr(want), 'decoded': repr(got)}))
        ca, ce = canon(after, True), canon(expected, True)
        if typed_key(ca) != typed_key(ce):
            diff = sorted(k for k in set(ca) | set(ce)
                          if typed_key(ca.get(k)) != typed_key(ce.get(k)))
            shape = ('list-only' if set(new) == {list_field} else
                     'scalars-only' if list_field not in new else 'full')
            viol.append(('ldap-update-result-differs',
                         'admin._ldap.LdapObject.update:%s:%s:%s'
                         % (cname, shape, ','.join(diff)),
                         {'old': repr(old), 'update': repr(new),
                          'fetch_model': model, 'fields': diff,
                          'after_update': repr({k: after.get(k)
                                                for k in diff}),
                          'expected': repr({k: expected.get(k)
                                            for k in diff})}))
        return {'enc': None, 'val': repr(case[1:]), 'evals': evals,
                'nontrivial': canon(before) != canon(after), 'viol': viol,
                'tags': ['ldap.' + tag]}

    def pair_site(self, kind, a, b):
        return 'admin._ldap.%s.to_entry' % KINDS[a[0].split('.')[0]][0]


SUB = Ldap()
