"""C15 sub-check: trace events <-> ZooKeeper event-node names.

Route 'zk'  : event.to_data() -> REAL trace.{app,server}.zk.publish on a
              recording zk client -> basename of the created node -> REAL
              TraceLoop._process_events (split(',') , from_data) -> event
              handed to the handler.
Route 'dir' : REAL trace.post() writes the event file into a scratch events
              dir -> REAL EventsPublisher._on_created parses the file name
              and calls publish -> as above.
time.time() as seen by treadmill.trace and the publisher's _HOSTNAME are owned
by the harness (they are the event's timestamp / source).
"""
import os
import shutil
import tempfile
import types

from mc import c15_common as cc

os.environ.setdefault('TREADMILL_HOSTNAME', 'verif-host')

TIMESTAMPS = [0.0, 1.5, 1537800000.123456, 1e-07]
SOURCES = ['h', 'host-1.example.com']
INSTANCES = ['proid.app#0000000001', 'p-r.a-b.c_d#0000001234']
SERVERS = ['srv', 'srv-1.example.com']
# free text: every separator the formats use except the reserved ','
TEXT = ['', 'x', 'evicted', 'srv-1.example.com:down', 'a:b', ':', 'a.b',
        'a-b', 'a#b', 'a@b', 'None', 'two words']
TEXT_OPT = TEXT + [None]
UNIQUEIDS = ['0000000000001', 'aB3dE5gH7jK9m']
SERVICES = ['web', 'web.server', 'a-b_c', 'x.1.2', '0']
CODES = [-1, 0, 1, 255, 256]
STATES = ['up', 'down', 'frozen', '']

# (class name, [(field, menu, kind)]) kind: 'text' = free text (None == '')
APP_EVENTS = [
    ('DeletedTraceEvent', []),
    ('KilledTraceEvent', [('is_oom', [False, True], 'exact')]),
    ('ConfiguredTraceEvent', [('uniqueid', UNIQUEIDS, 'exact')]),
    ('PendingTraceEvent', [('why', TEXT_OPT, 'text')]),
    ('PendingDeleteTraceEvent', [('why', TEXT_OPT, 'text')]),
    ('AbortedTraceEvent', [('why', TEXT_OPT, 'text')]),
    ('ScheduledTraceEvent', [('where', SERVERS, 'exact'),
                             ('why', TEXT_OPT, 'text')]),
    ('FinishedTraceEvent', [('rc', CODES, 'exact'),
                            ('signal', CODES, 'exact')]),
    ('ServiceRunningTraceEvent', [('uniqueid', UNIQUEIDS, 'exact'),
                                  ('service', SERVICES, 'exact')]),
    ('ServiceExitedTraceEvent', [('uniqueid', UNIQUEIDS, 'exact'),
                                 ('service', SERVICES, 'exact'),
                                 ('rc', CODES, 'exact'),
                                 ('signal', CODES, 'exact')]),
]
SERVER_EVENTS = [
    ('ServerBlackoutTraceEvent', []),
    ('ServerBlackoutClearedTraceEvent', []),
    ('ServerStateTraceEvent', [('state', STATES, 'exact')]),
]
ROUTES = ['zk', 'dir']


class _RecZk:
    """Recording stand-in for the kazoo client used by publish()."""

    def __init__(self):
        self.created = []
        self.handler = types.SimpleNamespace(event_object=object)

    def make_servers_acl(self):
        return 'servers-acl'

    def make_default_acl(self, acl):
        return acl

    def create(self, path, value=b'', makepath=False, acl=None,
               sequence=False, ephemeral=False):
        self.created.append((path, value))
        return path

    def exists(self, _path, watch=None):
        return None

    def set(self, path, value):
        self.created.append((path, value))

    def set_acls(self, _path, _acl):
        pass


class _Collect:
    def __init__(self):
        self.events = []

    def process(self, event, ctx=None):
        self.events.append(event)


class Trace:
    name = 'trace'
    chunk = 1500

    def __init__(self):
        self._m = None
        self._dir = None
        self._pid = None

    def reset(self):
        pass

    def _mods(self):
        if self._m is None:
            from treadmill import trace
            from treadmill.trace import events_publisher
            from treadmill.trace.app import events as app_events
            from treadmill.trace.app import zk as app_zk
            from treadmill.trace.server import events as server_events
            from treadmill.trace.server import zk as server_zk
            self._m = types.SimpleNamespace(
                trace=trace, pub=events_publisher, app_events=app_events,
                app_zk=app_zk, server_events=server_events,
                server_zk=server_zk)
        return self._m

    def scratch(self):
        if self._dir is None or self._pid != os.getpid():
            self._dir = tempfile.mkdtemp(prefix='verif-c15-trace-')
            self._pid = os.getpid()
        return self._dir

    def cleanup(self):
        if self._dir is not None and self._pid == os.getpid():
            shutil.rmtree(self._dir, ignore_errors=True)
            self._dir = None

    def menus(self, tier):
        out = {'common': [('route', ROUTES), ('timestamp', TIMESTAMPS),
                          ('source', SOURCES)],
               'app.instanceid': INSTANCES, 'server.servername': SERVERS}
        for cls, fields in APP_EVENTS + SERVER_EVENTS:
            out[cls] = [(f, m) for f, m, _k in fields]
        return out

    def domain(self, tier):
        parts = []
        for family, events, names in (('app', APP_EVENTS, INSTANCES),
                                      ('server', SERVER_EVENTS, SERVERS)):
            for cls, fields in events:
                parts.append(cc.Product(
                    family + ':' + cls,
                    [('route', ROUTES), ('timestamp', TIMESTAMPS),
                     ('source', SOURCES), ('object', names)] +
                    [(f, m) for f, m, _k in fields]))
        return cc.Concat(parts)

    @staticmethod
    def _spec(tag):
        family, cls = tag.split(':')
        events = APP_EVENTS if family == 'app' else SERVER_EVENTS
        return family, cls, dict(events)[cls]

    def evaluate(self, case):
        m = self._mods()
        family, cls, fields = self._spec(case[0])
        route, ts, source, obj = case[1:5]
        values = case[5:]
        kw = {f: v for (f, _m, _k), v in zip(fields, values)}
        if family == 'app':
            ev_mod, zk_mod, loop_cls = (m.app_events, m.app_zk,
                                        m.app_zk.AppTraceLoop)
            kw['instanceid'] = obj
        else:
            ev_mod, zk_mod, loop_cls = (m.server_events, m.server_zk,
                                        m.server_zk.ServerTraceLoop)
            kw['servername'] = obj
        event = getattr(ev_mod, cls)(timestamp=ts, source=source, **kw)
        evals = 1

        zkc = _RecZk()
        zk_mod._HOSTNAME = source
        (_ts, _src, what, etype, edata, payload) = event.to_data()
        if route == 'zk':
            # what trace.post_zk does, with the clock owned
            zk_mod.publish(zkc, str(ts), what, etype, edata, payload)
            evals += 1
        else:
            m.trace.time = types.SimpleNamespace(time=lambda: ts)
            evdir = self.scratch()
            try:
                m.trace.post(evdir, event)
                files = [f for f in os.listdir(evdir)
                         if not f.startswith('.')]
                assert len(files) == 1, files
                # no __init__: it would open an inotify watcher per case
                pub = object.__new__(m.pub.EventsPublisher)
                pub._zkclient = zkc
                m.pub.EventsPublisher._on_created.__wrapped__(
                    pub, os.path.join(evdir, files[0]), zk_mod.publish)
                evals += 2
            finally:
                for f in os.listdir(evdir):
                    os.unlink(os.path.join(evdir, f))
        root = '/trace/' if family == 'app' else '/server-trace/'
        nodes = [p for p, _v in zkc.created if p.startswith(root)]
        assert len(nodes) == 1, zkc.created
        node = nodes[0].rsplit('/', 1)[1]

        coll = _Collect()
        loop = loop_cls(zkc, obj, coll)
        loop._process_events([node], None)
        evals += 1

        site_base = 'trace.%s.events.%s' % (family, cls)
        viol = []
        none_fields = [f for f, _m2, _k in fields if kw.get(f) is None]
        if not coll.events:
            viol.append(('trace-event-does-not-decode',
                         site_base + '.from_data',
                         {'event': repr(event), 'node': node}))
        else:
            got = coll.events[0]
            bad = []
            if type(got) is not type(event):
                bad.append(('class', type(event).__name__,
                            type(got).__name__))
            else:
                for attr, exp in (('timestamp', float(ts)),
                                  ('source', source),
                                  ('instanceid' if family == 'app'
                                   else 'servername', obj),
                                  ('event_type', event.event_type)):
                    if getattr(got, attr) != exp:
                        bad.append((attr, exp, getattr(got, attr)))
                for f, _m2, kind in fields:
                    exp = kw[f]
                    act = getattr(got, f)
                    ok = (act == exp and type(act) is type(exp))
                    if not ok and kind == 'text':
                        # the one documented normalisation: None == ''
                        ok = ((exp is None or exp == '') and
                              (act is None or act == ''))
                    if not ok:
                        bad.append((f, exp, act))
            for attr, exp, act in bad:
                site = '%s.%s%s' % (site_base, attr,
                                    '=None' if exp is None else '')
                viol.append(('trace-roundtrip-mismatch', site,
                             {'event': repr(event), 'node': node,
                              'field': attr, 'written': repr(exp),
                              'decoded': repr(act)}))
            # idempotence: encoding the decoded event gives the same node data
            if type(got) is type(event) and not bad:
                again = got.to_data()
                evals += 1
                if again[2:5] != (what, etype, edata):
                    viol.append(('trace-encoding-not-idempotent',
                                 site_base + '.to_data',
                                 {'node': node, 'first': repr((what, etype,
                                                               edata)),
                                  'second': repr(again[2:5])}))

        canon = (family, cls, float(ts), source, obj) + tuple(
            ('' if (k == 'text' and v is None) else v)
            for (f, _m2, k), v in zip(fields, values))
        exact = (family, cls, float(ts), source, obj) + tuple(values)
        nontrivial = bool(none_fields) or any(
            isinstance(v, str) and any(c in v for c in ':.#@-')
            for v in values)
        return {'enc': node, 'val': repr(canon), 'val_exact': repr(exact),
                'evals': evals,
                'nontrivial': nontrivial, 'viol': viol,
                'tags': ['trace.route.' + route]}

    def pair_site(self, kind, a, b):
        family, cls, fields = self._spec(a[0])
        none = ''
        for c in (a, b):
            _f, _c, flds = self._spec(c[0])
            for (f, _m, _k), v in zip(flds, c[5:]):
                if v is None:
                    none = '.%s=None' % f
        return 'trace.%s.events.%s.event_data%s' % (family, cls, none)


SUB = Trace()
