"""C13 world: the real AppCfgMgr / Cleanup.invoke / MonitorContainerCleanup on a
real, run-private temporary directory.

Everything that moves a link is treadmill code from $VERIF_REPO.  Seams (the
only ones):

* ``treadmill.appcfg.configure.configure`` -> `_configure_standin` (reads the
  event file, real ``appcfg.gen_uniqueid`` / ``manifest_unique_name``, creates
  ``apps/<unique>/data`` + manifest.yml + app.json, raises
  ``exc.ContainerSetupError`` for manifests marked bad, returns None when the
  event file is gone) - the real one needs installed entry points and s6;
* ``treadmill.runtime.get_runtime`` -> object whose ``finish()`` does the last,
  observable step of ``RuntimeBase.finish`` (``shutil.rmtree(container_dir)``);
* ``supervisor.control_svscan`` -> no-op;
* the name ``os`` inside ``treadmill.appcfg`` -> proxy whose ``stat()`` returns
  harness-assigned ``(st_ino, st_ctime)`` for cache files (function of
  (instance, generation, salt)), so that two generations created microseconds
  apart get distinct unique ids, as they would in production;
* no threads, no inotify: the harness keeps the notifications the dirwatcher
  would have produced in a FIFO and calls ``_on_created/_on_deleted/
  _on_modified`` the way ``DirWatcher.process_events`` would.

The harness observes link creation by transparent wrappers around
``os.symlink/rename/replace/unlink`` (the *site* of a violation is the innermost
treadmill function that made the offending link, plus the handler it was called
from).
"""
import collections
import copy
import errno
import io
import json
import logging
import os
import shutil
import sys
import tempfile

logging.disable(logging.CRITICAL)

from treadmill import appcfg            # noqa: E402
from treadmill import appcfgmgr         # noqa: E402
from treadmill import cleanup as tm_cleanup   # noqa: E402
from treadmill import exc as tm_exc     # noqa: E402
from treadmill import fs as tm_fs       # noqa: E402
from treadmill import monitor as tm_monitor   # noqa: E402
from treadmill import runtime as tm_runtime   # noqa: E402
from treadmill import supervisor as tm_supervisor  # noqa: E402
from treadmill.appcfg import abort as app_abort    # noqa: E402
from treadmill.appcfg import configure as app_cfg  # noqa: E402

from mc import modstate
from mc import statex                   # noqa: E402

READY = '.ready'
FINISH_FLAGS = ('exitinfo', 'aborted', 'oom')
BOILERPLATE = ('manifest.yml', 'app.json')
KEYS = ('a', 'b')
# b has a hyphen in its app name: appcfg.app_name() must split the unique
# name at the LAST two hyphens
INSTANCE = {'a': 'a.x#0000000001', 'b': 'proid.my-app#0000000002'}
KEY_OF = {v: k for k, v in INSTANCE.items()}
MAXGEN = 2
_HERE = os.path.dirname(os.path.abspath(__file__))

_TRANSPARENT = ('symlink', 'rename', 'replace', 'unlink', 'remove', 'stat',
                '_sync_wrap', '_app_name_wrap', '_configure_standin',
                'finish')
_CUR = None           # the live world of this process (at most one)
_REAL_OS_STAT = os.stat


# ---------------------------------------------------------------------------
# run-private scratch root (set by the property module before workers fork)

RUN_ROOT = None


def make_run_root():
    global RUN_ROOT  # pylint: disable=global-statement
    base = '/dev/shm' if os.access('/dev/shm', os.W_OK) else None
    RUN_ROOT = tempfile.mkdtemp(prefix='verif-c13-', dir=base)
    return RUN_ROOT


def drop_run_root():
    global RUN_ROOT  # pylint: disable=global-statement
    if RUN_ROOT:
        shutil.rmtree(RUN_ROOT, ignore_errors=True)
    RUN_ROOT = None


# ---------------------------------------------------------------------------
# virtualised stat of cache files as seen by treadmill.appcfg

def ident(key, gen, salt, ino_reuse=False):
    """Harness-assigned (inode, ctime) of generation `gen` of instance `key`.
    All ctimes of one run fall into the same second (an instance evicted and
    placed again at once).  ino_reuse: the new cache file gets the inode its
    predecessor just freed (what ext4 does for unlink + create), so that the
    generations differ in the sub-second part of the ctime only."""
    n = salt * 16 + KEYS.index(key) * 4 + gen
    ino = 500000 + 7919 * ((n - gen) if ino_reuse else n)
    return ino, 1600000000 + n * 0.000977


class _Stat:
    __slots__ = ('st_ino', 'st_ctime', '_real')

    def __init__(self, real, ino, ctime):
        self._real = real
        self.st_ino = ino
        self.st_ctime = ctime

    def __getattr__(self, name):
        return getattr(self._real, name)


class _OsProxy:
    """`os` for treadmill.appcfg: stat() of cache files is virtualised."""

    def __init__(self, real):
        self._real = real
        self.path = real.path

    def __getattr__(self, name):
        return getattr(self._real, name)

    def stat(self, path, *args, **kwargs):
        st = _REAL_OS_STAT(path, *args, **kwargs)     # ENOENT as in real life
        w = _CUR
        if w is not None:
            hit = w.cache_ident.get(path)
            if hit is not None:
                return _Stat(st, hit[0], hit[1])
        return st


appcfg.os = _OsProxy(os)


# ---------------------------------------------------------------------------
# link-creation sites (transparent wrappers, harness side)

def _tm_frames():
    """Qualified names of the treadmill frames on the stack (innermost
    first), ignoring treadmill.fs helpers and the harness."""
    out = []
    f = sys._getframe(2)
    while f is not None:
        fn = f.f_code.co_filename
        if '/treadmill/' in fn and '/treadmill/fs/' not in fn \
                and not fn.startswith(_HERE):
            out.append(f.f_code.co_qualname)
        f = f.f_back
    return out


_TOP = ('_synchronize', '_on_created', '_on_deleted', '_on_modified',
        '_first_sync', 'execute', 'invoke')


def _site_now():
    names = _tm_frames()
    if not names:
        return 'harness'
    inner = names[0]
    if inner.rsplit('.', 1)[-1] in _TOP or len(names) < 2:
        return inner
    return '%s<-%s' % (inner, names[1].rsplit('.', 1)[-1])


class ManagerKilled(BaseException):
    """The AppCfgMgr process dies here (kill -9 / node power loss)."""


def _wrap_os():
    real_symlink, real_rename = os.symlink, os.rename
    real_replace, real_unlink = os.replace, os.unlink
    real_remove = os.remove

    def tracked(path):
        w = _CUR
        if w is None or not isinstance(path, str):
            return None
        d = os.path.dirname(path)
        if d == w.running_dir or d == w.cleanup_dir:
            return w
        return None

    def note_create(dst):
        w = tracked(dst)
        if w is not None:
            w.link_seq += 1
            w.link_site[dst] = (w.link_seq, _site_now())

    def note_remove(path):
        w = tracked(path)
        if w is not None:
            creator = w.link_site.pop(path, (0, None))[1]
            w.removals.append((path, _site_now(), creator))

    def tick(*paths):
        """Crash point: the manager process is killed right after its k-th
        link operation under running/ or cleanup/."""
        for p in paths:
            w = tracked(p)
            if w is not None:
                if w.crash_at and w.actor.startswith('AppCfgMgr'):
                    w.linkops += 1
                    if w.linkops == w.crash_at:
                        raise ManagerKilled()
                return

    def symlink(src, dst, *a, **k):
        r = real_symlink(src, dst, *a, **k)
        note_create(dst)
        tick(dst)
        return r

    def rename(src, dst, *a, **k):
        r = real_rename(src, dst, *a, **k)
        note_remove(src)
        note_create(dst)
        tick(src, dst)
        return r

    def replace(src, dst, *a, **k):
        r = real_replace(src, dst, *a, **k)
        note_remove(src)
        note_create(dst)
        tick(src, dst)
        return r

    def unlink(path, *a, **k):
        r = real_unlink(path, *a, **k)
        note_remove(path)
        tick(path)
        return r

    def remove(path, *a, **k):
        r = real_remove(path, *a, **k)
        note_remove(path)
        tick(path)
        return r

    os.symlink, os.rename, os.replace = symlink, rename, replace
    os.unlink, os.remove = unlink, remove


_wrap_os()


# ---------------------------------------------------------------------------
# seams

def _configure_standin(tm_env, event, runtime, runtime_param=None):
    """Observable part of treadmill.appcfg.configure.configure."""
    del runtime, runtime_param
    try:
        return _configure_body(tm_env, event)
    except (IOError, tm_exc.ContainerSetupError):
        raise
    except Exception as err:  # pylint: disable=broad-except
        # AppCfgMgr._configure swallows everything: keep harness bugs visible
        if _CUR is not None:
            _CUR.harness_error = repr(err)
        raise


def _configure_body(tm_env, event):
    w = _CUR
    try:
        with io.open(event) as f:
            manifest = json.load(f)
    except IOError:
        return None                 # "File is gone. Nothing to do."
    name = os.path.basename(event)
    manifest['name'] = name
    manifest['uniqueid'] = appcfg.gen_uniqueid(event)
    if manifest.get('bad'):
        raise tm_exc.ContainerSetupError('manifest marked bad',
                                         app_abort.AbortedReason.INVALID_TYPE)
    uniq_name = appcfg.manifest_unique_name(manifest)
    container_dir = os.path.join(tm_env.apps_dir, uniq_name)
    data_dir = os.path.join(container_dir, 'data')
    tm_fs.mkdir_safe(data_dir)
    try:
        shutil.copyfile(event, os.path.join(data_dir, 'manifest.yml'))
    except IOError as err:
        if err.errno == errno.ENOENT:
            shutil.rmtree(container_dir)
            return None
        raise
    with io.open(os.path.join(data_dir, appcfg.APP_JSON), 'w') as f:
        json.dump(manifest, f)
    if w is not None:
        w.configure_calls.append(uniq_name)
    return container_dir


def _mgr_state(mgr):
    """Every attribute of the manager object except its environment: the
    unchanged manager keeps only `_is_active`, but a change may add memos;
    they belong to the checkpoint and to the canonical key."""
    names = set(getattr(mgr, '__dict__', {}))
    for cls in type(mgr).__mro__:
        slots = cls.__dict__.get('__slots__', ())
        names.update([slots] if isinstance(slots, str) else slots)
    out = {}
    for k in sorted(names):
        if k in ('tm_env', '__dict__', '__weakref__'):
            continue
        try:
            out[k] = getattr(mgr, k)
        except AttributeError:
            pass
    return out


class CleanupPaused(BaseException):
    """Cleanup.invoke stops between runtime.finish() and fs.rm_safe(link)."""


class _RuntimeStandin:
    def __init__(self, container_dir):
        self.container_dir = container_dir

    def finish(self):
        w = _CUR
        if w is not None and w.fail_finish:
            # finish() fails half-way (umount / lvremove error): the
            # container directory is still there
            raise OSError(16, 'Device or resource busy', self.container_dir)
        shutil.rmtree(self.container_dir)
        if w is not None and w.pause_finish:
            # the cleanup process is descheduled right after finish():
            # Cleanup.invoke has not yet removed its link
            raise CleanupPaused()


def _get_runtime_standin(runtime, tm_env, container_dir, param=None):
    del runtime, tm_env, param
    return _RuntimeStandin(container_dir)


def _noop(*_a, **_k):
    return None


app_cfg.configure = _configure_standin
tm_runtime.get_runtime = _get_runtime_standin
tm_supervisor.control_svscan = _noop

# -- observation points (class-level wrappers, no source hook) ---------------

_orig_sync = appcfgmgr.AppCfgMgr._synchronize
_orig_app_name = appcfg.app_name


def _sync_wrap(self):
    w = _CUR
    if w is None or w.mgr is not self:
        return _orig_sync(self)
    pre = w.snapshot()
    w.sync_order = []
    w.in_sync = True
    try:
        _orig_sync(self)
    finally:
        w.in_sync = False
    w.after_sync(pre)
    return None


def _app_name_wrap(uniquename):
    w = _CUR
    if w is not None and w.in_sync:
        w.sync_order.append(uniquename)
    return _orig_app_name(uniquename)


appcfgmgr.AppCfgMgr._synchronize = _sync_wrap
appcfg.app_name = _app_name_wrap


# ---------------------------------------------------------------------------

class Snap:
    __slots__ = ('running', 'cleanup', 'apps', 'cache', 'ready', 'other')

    def targets(self):
        """container -> sorted [(dir, link name)]"""
        out = collections.defaultdict(list)
        # s6-svscan and Cleanup._add_cleanup_app ignore dot names (the
        # temporary links of fs.symlink_safe)
        for name, tgt in self.running.items():
            if not name.startswith('.'):
                out[tgt].append(('running', name))
        for name, tgt in self.cleanup.items():
            if not name.startswith('.'):
                out[tgt].append(('cleanup', name))
        for v in out.values():
            v.sort()
        return out


def choose_salt(need_orders=True):
    """Pick the identity salt so that, under this interpreter's string hash,
    set iteration visits a's generation 1 before 2 and b's generation 2
    before 1, with no slot collision among the four names (so the order does
    not depend on insertion order).  Both orders of the hash-dependent loop
    in AppCfgMgr._synchronize are then explored in one run."""
    for salt in range(4000):
        names = {}
        for key in KEYS:
            for gen in (1, 2):
                ino, ctime = ident(key, gen, salt)
                names[(key, gen)] = _unique_name(INSTANCE[key], ino, ctime)
        slots = {k: hash(n) & 7 for k, n in names.items()}
        if len(set(slots.values())) != 4:
            continue
        if not need_orders:
            return salt
        if slots[('a', 1)] < slots[('a', 2)] and \
                slots[('b', 2)] < slots[('b', 1)]:
            # empirical confirmation on real sets
            ok = True
            for extra in ([], [names[('b', 1)]], [names[('b', 1)],
                                                  names[('b', 2)]]):
                order = list({n for n in
                              [names[('a', 1)], names[('a', 2)]] + extra})
                if order.index(names[('a', 1)]) > order.index(names[('a', 2)]):
                    ok = False
            for extra in ([], [names[('a', 1)]], [names[('a', 1)],
                                                  names[('a', 2)]]):
                order = list({n for n in
                              [names[('b', 1)], names[('b', 2)]] + extra})
                if order.index(names[('b', 2)]) > order.index(names[('b', 1)]):
                    ok = False
            if ok:
                return salt
    raise statex.HarnessError('no identity salt gives both iteration orders')


def _unique_name(instance, ino, ctime):
    """Real gen_uniqueid/eventfile_unique_name on a throw-away file whose stat
    is virtualised."""
    global _CUR  # pylint: disable=global-statement
    d = tempfile.mkdtemp(prefix='c13-salt-', dir=RUN_ROOT)
    try:
        path = os.path.join(d, instance)
        with io.open(path, 'w'):
            pass

        class _W:
            cache_ident = {path: (ino, ctime)}
        saved = _CUR
        _CUR = _W
        try:
            return appcfg.eventfile_unique_name(path)
        finally:
            _CUR = saved
    finally:
        shutil.rmtree(d, ignore_errors=True)


class NodeWorld:
    """One treadmill root directory + one AppCfgMgr process + the queues of
    the dirwatcher and of the tombstone monitor."""

    _SAVED = ('cache', 'bad', 'nextgen', 'cache_ident', 'cname', 'ready',
              'fifo', 'fifo_ages', 'evno', 'late_seen', 'tombs', 'link_seq',
              'link_site', 'viol', 'stats',
              'crashes', 'rep_gens', 'ever', 'last_mgr_actor', 'inflight',
              'finished_gens')

    def __init__(self, cfg, token=None):
        """A fresh world, or (token) the world saved by checkpoint()."""
        global _CUR  # pylint: disable=global-statement
        if RUN_ROOT is None:
            raise statex.HarnessError('run root not set')
        self.cfg = cfg
        self.salt = cfg['salt']
        if token is None:
            modstate.reset()    # a history starts from a fresh process
        self.root = os.path.join(RUN_ROOT, 'p%d' % os.getpid())
        _CUR = None
        shutil.rmtree(self.root, ignore_errors=True)
        if token is None:
            for d in ('apps', 'cache', 'running', 'cleanup', 'cleaning',
                      'cleanup_apps', 'appevents', 'tombstones/running'):
                os.makedirs(os.path.join(self.root, d))
        else:
            shutil.copytree(token['tree'], self.root, symlinks=True)
        self.apps_dir = os.path.join(self.root, 'apps')
        self.cache_dir = os.path.join(self.root, 'cache')
        self.running_dir = os.path.join(self.root, 'running')
        self.cleanup_dir = os.path.join(self.root, 'cleanup')
        # harness truth about what "eventmgr" did
        self.cache = {}              # key -> generation present in cache
        self.bad = {}                # (key, gen) -> manifest marked bad
        self.nextgen = {k: 1 for k in KEYS}
        self.cache_ident = {}        # path -> (ino, ctime)
        self.cname = {}              # container unique name -> (key, gen)
        self.ready = False
        self.rep_gens = set()        # (key, gen) written by replace-in-place
        self.ever = set()            # container names ever seen under apps/
        self.last_mgr_actor = 'AppCfgMgr.?'
        self.inflight = []           # cleanup links whose invoke ran finish()
        # harness record: unique names of the generations that finished,
        # aborted or ran out of memory (survives the removal of apps/<c>)
        self.finished_gens = set()
        self.pause_finish = False
        self.fail_finish = False
        self.evno = 0
        self.late_seen = False       # a notification was delivered late
        self.fifo = []               # [(kind, basename)] dirwatch queue
        self.fifo_ages = []          # harness event in which each was queued
        self.tombs = []              # [(key, signal)] tombstones not yet processed
        # instrumentation
        self.viol = []
        self.stats = collections.Counter()
        self.link_seq = 0
        self.link_site = {}          # link path -> (seq, site)
        self.crashes = []
        if token is not None:
            for k in self._SAVED:
                setattr(self, k, copy.deepcopy(token['fields'][k]))
        self.removals = []
        self.configure_calls = []
        self.in_sync = False
        self.sync_order = []
        self.actor = 'harness'
        self.harness_error = None
        self.crash_at = 0
        self.linkops = 0
        self.prev = None
        _CUR = self
        self.mgr = None
        self.tm_env = None
        self.new_manager()
        if token is not None:
            for k, v in copy.deepcopy(token['mgr']).items():
                setattr(self.mgr, k, v)
        self.cleaner = tm_cleanup.Cleanup(self.tm_env)
        self.monitor = tm_monitor.MonitorContainerCleanup(self.tm_env, {})

    def checkpoint(self):
        """Save the directory tree and the harness/manager fields.  Used only
        to derive the successors of a replay-built state without replaying
        its history once per successor (cross-checked against full replay)."""
        global _CUR  # pylint: disable=global-statement
        if modstate.dirty():
            # the package keeps module-level state (a memo) that a copy of
            # the directory and of the manager object does not carry: such a
            # state is rebuilt by replay only
            return None
        tree = self.root + '.ck'
        saved = _CUR
        _CUR = None
        try:
            shutil.rmtree(tree, ignore_errors=True)
            shutil.copytree(self.root, tree, symlinks=True)
        finally:
            _CUR = saved
        return {'tree': tree,
                'fields': {k: copy.deepcopy(getattr(self, k))
                           for k in self._SAVED},
                'mgr': copy.deepcopy(_mgr_state(self.mgr))}

    # -- processes ----------------------------------------------------------
    def new_manager(self):
        self.mgr = appcfgmgr.AppCfgMgr(self.root, 'linux')
        self.tm_env = self.mgr.tm_env
        # AppCfgMgr.run(): "Start idle"
        self.mgr._is_active = False  # pylint: disable=protected-access

    # -- observation ----------------------------------------------------------
    def _links(self, d, other):
        """Symlinks of a scan directory.  Anything else (a plain file or a
        directory) is not a link in the sense of the property: kept in the
        canonical state, ignored by the oracle."""
        out = {}
        for name in os.listdir(d):
            p = os.path.join(d, name)
            try:
                tgt = os.readlink(p)
            except OSError:
                other.append((os.path.basename(d), str(self.lname(name))))
                continue
            if os.path.dirname(tgt) == self.apps_dir:
                out[name] = os.path.basename(tgt)
            else:
                out[name] = '!' + tgt.replace(self.root, '<root>')
        return out

    def snapshot(self):
        s = Snap()
        other = []
        s.running = self._links(self.running_dir, other)
        s.cleanup = self._links(self.cleanup_dir, other)
        s.other = tuple(sorted(other))
        s.apps = {}
        for c in os.listdir(self.apps_dir):
            try:
                files = os.listdir(os.path.join(self.apps_dir, c, 'data'))
            except OSError:
                files = ['!nodata']
            s.apps[c] = frozenset(f for f in files if f not in BOILERPLATE)
        s.cache = dict(self.cache)
        s.ready = self.ready
        return s

    def flag(self, clause, site, detail):
        if self.late_seen and site.startswith('AppCfgMgr.'):
            # the history contains a dirwatch notification delivered after a
            # later change (a deviation): findings that need one are told
            # apart from findings that do not
            site = site + ' [after a late notification]'
        self.viol.append({'clause': clause, 'site': site, 'detail': detail})

    def site_of(self, d, name):
        rec = self.link_site.get(os.path.join(self.root, d, name))
        if rec is None:
            return (0, '?<-' + self.actor)
        return rec

    def cid(self, cname):
        """Canonical id of a container unique name."""
        return self.cname.get(cname, cname)

    def lname(self, name):
        """Canonical form of a link name."""
        if name in KEY_OF:
            return ('I', KEY_OF[name])
        if name in self.cname:
            return ('C',) + self.cname[name]
        if name.startswith('.tmp'):
            return '.tmp'
        return name

    def describe(self, snap):
        return {
            'running': {str(self.lname(n)): str(self.cid(t))
                        for n, t in sorted(snap.running.items())},
            'cleanup': {str(self.lname(n)): str(self.cid(t))
                        for n, t in sorted(snap.cleanup.items())},
            'apps': {str(self.cid(c)): sorted(f)
                     for c, f in sorted(snap.apps.items())},
            'cache': {k: [g, bool(self.bad.get((k, g)))]
                      for k, g in sorted(snap.cache.items())},
            'not_links': ['%s/%s' % o for o in snap.other],
        }

    # -- oracle: every state --------------------------------------------------
    def check_step(self, pre, post):
        pt, qt = pre.targets(), post.targets()
        for c, links in qt.items():
            if len(links) > 1 and pt.get(c) != links:
                newest = max(links, key=lambda l: self.site_of(*l)[0])
                clause = ('container-in-running-and-cleanup'
                          if any(l[0] == 'running' for l in links)
                          else 'container-two-cleanup-links')
                site = self.site_of(*newest)[1]
                if c not in pre.apps and any(
                        d == 'cleanup' and pre.cleanup.get(n) == c
                        for d, n in links):
                    # the directory of a container whose cleanup link was
                    # dangling (finish() done, link not yet removed) has been
                    # created again: told apart from the other double links
                    site += ' [dangling cleanup link revived]'
                self.flag(clause, site, {
                    'container': str(self.cid(c)),
                    'links': ['%s/%s' % (d, self.lname(n)) for d, n in links],
                    'newest': '%s/%s' % (newest[0], self.lname(newest[1])),
                    'state': self.describe(post)})
        for name, tgt in post.running.items():
            if pre.running.get(name) == tgt:
                continue
            if name.startswith('.'):
                continue
            owner = self.cname.get(tgt)
            if owner is None or INSTANCE[owner[0]] != name:
                self.flag('running-link-foreign-container',
                          self.site_of('running', name)[1],
                          {'link': name, 'target': str(self.cid(tgt)),
                           'state': self.describe(post)})
        # a container leaves cleanup/ only by being cleaned (its directory
        # removed): a handed-over container must not lose its last link
        removed = {r[0]: r for r in self.removals}
        for c, links in pt.items():
            if c not in post.apps or c in qt or \
                    not any(d == 'cleanup' for d, _n in links):
                continue
            d, n = [l for l in links if l[0] == 'cleanup'][-1]
            if n in post.cleanup:
                site = self.site_of(d, n)[1]          # overwritten
            else:
                rec = removed.get(os.path.join(self.cleanup_dir, n))
                site = (rec[2] if rec and rec[2] else '?<-' + self.actor)
            if post.apps[c] & set(FINISH_FLAGS):
                # outside the clause as asked for (finished containers);
                # counted, see coverage.finished_dropped_sample
                self.stats['finished_container_dropped_from_cleanup'] += 1
                self.stats['finished_dropped@' + site] += 1
                continue
            self.flag('cleanup-container-dropped-not-cleaned', site,
                      {'container': str(self.cid(c)),
                       'link_was': 'cleanup/%s' % (self.lname(n),),
                       'link_now': str(self.cid(post.cleanup.get(n))),
                       'by': self.actor,
                       'state': self.describe(post)})
        # a container leaves running/ only by being handed to cleanup
        for name, tgt in pre.running.items():
            if name.startswith('.') or tgt not in post.apps:
                continue
            if tgt in qt:
                continue
            self.stats['dropped_checked'] += 1
            if name in post.running:
                site = self.site_of('running', name)[1]
            else:
                site = {r[0]: r[1] for r in self.removals}.get(
                    os.path.join(self.running_dir, name), '?<-' + self.actor)
            self.flag('running-container-dropped-not-in-cleanup', site,
                      {'container': str(self.cid(tgt)),
                       'link_now': str(self.cid(post.running.get(name))),
                       'state': self.describe(post)})
        pre_run = set(pre.running.values())
        for name, tgt in post.running.items():
            if tgt in pre_run or name.startswith('.'):
                continue
            flags = pre.apps.get(tgt)
            if (flags and flags & set(FINISH_FLAGS)) or \
                    tgt in self.finished_gens:
                self.stats['restart_of_finished_checked'] += 1
                site = self.site_of('running', name)[1]
                if not (flags and flags & set(FINISH_FLAGS)):
                    # finish() had removed the directory (the finish flags
                    # live in it): the same unique name has been configured
                    # again - also when a manager that died between
                    # creating the directory and linking it had already
                    # re-created it empty (thorough tier, crash points)
                    site += ' [after its cleanup completed]'
                self.flag('finished-container-restarted', site,
                          {'container': str(self.cid(tgt)),
                           'flags': sorted(flags or ()),
                           'directory_existed': tgt in pre.apps,
                           'state': self.describe(post)})

    # -- oracle: after every _synchronize --------------------------------------
    def after_sync(self, pre):
        post = self.snapshot()
        self.stats['syncs'] += 1
        by_inst = collections.defaultdict(list)
        for c in pre.apps:
            if c in self.cname:
                by_inst[self.cname[c][0]].append(self.cname[c][1])
        for key, gens in by_inst.items():
            if len(gens) > 1:
                self.stats['syncs_with_two_generations'] += 1
                seen = [self.cname[c][1] for c in self.sync_order
                        if c in self.cname and self.cname[c][0] == key]
                if seen[:2] == [1, 2]:
                    self.stats['syncs_two_gens_older_first'] += 1
                elif seen[:2] == [2, 1]:
                    self.stats['syncs_two_gens_newer_first'] += 1
        inv = {v: k for k, v in self.cname.items()}
        qt = post.targets()
        unchanged_hit = set()

        def holder_site(c, default):
            """Site of the oldest cleanup link holding container c (the one
            that took it out of running/)."""
            held = [self.site_of(d, n) for d, n in qt.get(c, ())
                    if d == 'cleanup']
            return min(held)[1] if held else default

        # a running container whose manifest is unchanged is left running
        for name, tgt in pre.running.items():
            owner = self.cname.get(tgt)
            if owner is None or INSTANCE[owner[0]] != name:
                continue
            if pre.cache.get(owner[0]) != owner[1] or tgt not in pre.apps:
                continue
            self.stats['sync_unchanged_running_checked'] += 1
            if post.running.get(name) != tgt:
                unchanged_hit.add(owner[0])
                self.flag('sync-unchanged-running-terminated',
                          holder_site(tgt, 'AppCfgMgr._synchronize'),
                          {'instance': owner[0], 'container': str(owner),
                           'sync_order': [str(self.cid(c))
                                          for c in self.sync_order],
                           'before': self.describe(pre),
                           'after': self.describe(post)})
        # running names == cached, configurable, not finished
        for key in KEYS:
            name = INSTANCE[key]
            gen = pre.cache.get(key)
            if gen is None or self.bad.get((key, gen)):
                if name in post.running:
                    self.flag('sync-running-without-configurable-cache-entry',
                              self.site_of('running', name)[1],
                              {'instance': key,
                               'cache': None if gen is None else 'bad',
                               'before': self.describe(pre),
                               'after': self.describe(post)})
                continue
            c = inv[(key, gen)]
            flags = pre.apps.get(c, frozenset())
            # finished by the harness's own record (the directory, and with
            # it exitinfo, may be gone): such an entry cannot be configured
            # without starting a finished container again
            finished = bool(flags & set(FINISH_FLAGS)) or \
                c in self.finished_gens
            gone_in_cleanup = (c not in pre.apps and c not in post.apps and
                               c in set(post.cleanup.values()))
            if gone_in_cleanup:
                self.stats['sync_cached_in_cleanup_exempted'] += 1
            elif not finished:
                self.stats['sync_cached_checked'] += 1
                if post.running.get(name) != c and key not in unchanged_hit:
                    self.flag('sync-cached-not-running'
                              if c in pre.apps or c in post.apps
                              else 'sync-cached-not-configured',
                              holder_site(c, 'AppCfgMgr._synchronize'),
                              {'instance': key, 'generation': gen,
                               'running': str(self.cid(
                                   post.running.get(name))),
                               'sync_order': [str(self.cid(x))
                                              for x in self.sync_order],
                               'before': self.describe(pre),
                               'after': self.describe(post)})
            elif pre.running.get(name) != c:
                self.stats['sync_finished_checked'] += 1
                # must not be started again: covered by check_step
                # (finished-container-restarted) on the enclosing transition
        # a container whose cache entry disappeared is handed to cleanup
        removed_by = {}
        for path, site, _creator in self.removals:
            removed_by[path] = site
        for c in pre.apps:
            owner = self.cname.get(c)
            if owner is None or c not in post.apps:
                continue
            if pre.cache.get(owner[0]) == owner[1]:
                continue
            self.stats['sync_uncached_checked'] += 1
            links = qt.get(c, [])
            if any(d == 'cleanup' for d, _n in links) and \
                    not any(d == 'running' for d, _n in links):
                continue
            if len(links) > 1:
                continue        # reported as container-in-running-and-cleanup
            site = 'AppCfgMgr._synchronize'
            for d, n in pre.targets().get(c, ()):
                p = os.path.join(self.root, d, n)
                if d == 'cleanup' and post.cleanup.get(n) != c:
                    site = self.site_of(d, n)[1] if n in post.cleanup \
                        else removed_by.get(p, site)
            self.flag('sync-uncached-not-in-cleanup', site,
                      {'container': str(owner),
                       'links_after': ['%s/%s' % (d, self.lname(n))
                                       for d, n in links],
                       'before': self.describe(pre),
                       'after': self.describe(post)})

    # -- calling into the implementation ---------------------------------------
    def _call(self, actor, fn, *args):
        """Run one handler of a treadmill process, then check the every-state
        clauses.  An exception escaping the process is a crash (s6 restarts
        it): recorded, not a verdict."""
        self.actor = actor
        if actor.startswith('AppCfgMgr'):
            self.last_mgr_actor = actor
        del self.removals[:]
        ok = True
        try:
            fn(*args)
        except statex.HarnessError:
            raise
        except ManagerKilled:
            self.stats['manager_killed_mid_handler'] += 1
            ok = False
        except CleanupPaused:
            pass
        except Exception as err:  # pylint: disable=broad-except
            tb = err.__traceback__
            last = None
            while tb is not None:
                code = tb.tb_frame.f_code
                if not (code.co_filename.startswith(_HERE) and
                        code.co_name in _TRANSPARENT):
                    last = code.co_filename
                tb = tb.tb_next
            if last and last.startswith(_HERE):
                raise
            self.stats['impl_exceptions'] += 1
            self.crashes.append('%s: %s: %s' % (actor, type(err).__name__,
                                                str(err)[:200]))
            ok = False
        if self.harness_error:
            raise statex.HarnessError('stand-in failed: %s'
                                      % self.harness_error)
        pre = self.prev
        self.observe()
        if self.cfg.get('late_tomb') and actor.startswith('AppCfgMgr'):
            # a container taken out of running/ is killed by svscan; its
            # finish script (limit 0) leaves a tombstone named after the
            # instance, which the monitor processes some time later
            for name, tgt in pre.running.items():
                key = KEY_OF.get(name)
                if key and name not in self.prev.running and \
                        tgt in self.prev.apps and \
                        key not in [t[0] for t in self.tombs]:
                    self.tombs.append((key, 15))
        self.actor = 'harness'
        return ok

    def observe(self):
        post = self.snapshot()
        self.check_step(self.prev, post)
        self.prev = post
        self.ever.update(post.apps)
        self.finished_gens.update(
            c for c, f in post.apps.items() if f & set(FINISH_FLAGS))

    # -- oracle: quiescent states -----------------------------------------------
    def check_quiescent(self):
        """Nothing in flight (notification FIFO empty, no unprocessed
        tombstone) and the manager active: the running links follow the cache.
        Exception (holds on the unchanged tree, reported): an entry rewritten
        in place by eventmgr produces one 'created' event, which _on_created
        ignores while the old running link exists; the stale generation then
        runs until the next synchronisation."""
        if self.fifo or self.tombs or self.viol or \
                not self.mgr._is_active:  # pylint: disable=protected-access
            return
        post = self.prev
        self.stats['quiescent_states_checked'] += 1
        inv = {v: k for k, v in self.cname.items()}
        in_cleanup = set(post.cleanup.values())
        linked = set(post.running.values()) | in_cleanup
        for c, flags in post.apps.items():
            owner = self.cname.get(c)
            if owner is None or self.cache.get(owner[0]) == owner[1]:
                continue
            if flags & set(FINISH_FLAGS):
                continue
            self.stats['quiescent_uncached_checked'] += 1
            if c not in linked:
                self.flag('quiescent-uncached-not-linked',
                          'AppCfgMgr.(no handler linked it)',
                          {'container': str(owner),
                           'last_handler': self.last_mgr_actor,
                           'state': self.describe(post)})
                return
        for key in KEYS:
            name = INSTANCE[key]
            gen = self.cache.get(key)
            if gen is not None and (key, gen) in self.rep_gens:
                self.stats['quiescent_rep_exempted'] += 1
                continue
            cur = inv.get((key, gen)) if gen is not None else None
            tgt = post.running.get(name)
            if tgt is not None and tgt in post.apps and tgt != cur:
                self.flag('quiescent-running-not-current-cache-entry',
                          self.site_of('running', name)[1],
                          {'instance': key, 'running': str(self.cid(tgt)),
                           'cache_generation': gen,
                           'last_handler': self.last_mgr_actor,
                           'state': self.describe(post)})
                continue
            if gen is None or self.bad.get((key, gen)) or tgt == cur:
                continue
            if cur not in post.apps:
                if cur in self.ever:
                    continue            # ran, finished, cleaned up
                clause = 'quiescent-cached-not-configured'
            elif post.apps[cur] & set(FINISH_FLAGS) or cur in in_cleanup:
                continue    # finished, or held by cleanup (other clauses)
            else:
                clause = 'quiescent-cached-not-running'
            self.flag(clause, 'AppCfgMgr.(no handler linked it)',
                      {'instance': key, 'cache_generation': gen,
                       'last_handler': self.last_mgr_actor,
                       'state': self.describe(post)})

    def _sync_truth(self):
        """Cache files removed by the manager itself (failed configure) are
        seen by its dirwatcher like any other deletion."""
        present = set(os.listdir(self.cache_dir))
        for key in list(self.cache):
            if INSTANCE[key] not in present:
                del self.cache[key]
                self.cache_ident.pop(
                    os.path.join(self.cache_dir, INSTANCE[key]), None)
                self._enq(('deleted', INSTANCE[key]))
        for name in present:
            if name != READY and name not in KEY_OF:
                raise statex.HarnessError('unexpected cache file %r' % name)

    def _enq(self, item):
        self.fifo.append(item)
        self.fifo_ages.append(self.evno)

    def deliver_one(self):
        kind, name = self.fifo.pop(0)
        if self.fifo_ages.pop(0) < self.evno:
            self.late_seen = True
        path = os.path.join(self.cache_dir, name)
        mgr = self.mgr
        handler = {'created': mgr._on_created,   # pylint: disable=W0212
                   'deleted': mgr._on_deleted,   # pylint: disable=W0212
                   'modified': mgr._on_modified}[kind]  # pylint: disable=W0212
        ok = self._call('AppCfgMgr._on_' + kind, handler, path)
        self.stats['notifications_delivered'] += 1
        self._sync_truth()
        if not ok:
            # the process died; s6 restarts it with an empty inotify queue
            del self.fifo[:], self.fifo_ages[:]
            self.crash_at = 0
            self.new_manager()

    def deliver_all(self, crash_at=0):
        """DirWatcher.process_events until the queue is empty; with crash_at
        the manager is killed after its crash_at-th link operation."""
        self.crash_at = crash_at
        self.linkops = 0
        n = 0
        try:
            while self.fifo:
                self.deliver_one()
                n += 1
                if n > 50:
                    raise statex.HarnessError('notification storm')
        finally:
            self.crash_at = 0

    def after_change(self, now):
        """now: 1 deliver at once, 0 leave queued, k >= 2 deliver at once and
        kill the manager after its (k-1)-th link operation."""
        if now == 1:
            self.deliver_all()
        elif now >= 2:
            self.deliver_all(crash_at=now - 1)

    # -- events -----------------------------------------------------------------
    def apply(self, ev):
        kind = ev[0]
        self.evno += 1
        if self.prev is None:
            self.prev = self.snapshot()
        if kind == 'rdy':
            path = os.path.join(self.cache_dir, READY)
            if ev[1]:
                existed = self.ready
                with io.open(path, 'w'):        # EventMgr._cache_notify(True)
                    pass
                self.ready = True
                self._enq(('modified' if existed else 'created', READY))
            else:
                tm_fs.rm_safe(path)             # EventMgr._cache_notify(False)
                self.ready = False
                self._enq(('deleted', READY))
            self.after_change(ev[2])
        elif kind == 'put':
            key, bad = ev[1], ev[2]
            gen = self.nextgen[key]
            self.nextgen[key] = gen + 1
            name = INSTANCE[key]
            path = os.path.join(self.cache_dir, name)
            self.bad[(key, gen)] = bool(bad)
            ino, ctime = ident(key, gen, self.salt,
                               self.cfg.get('ino_reuse'))
            # EventMgr._cache: write_safe = temp file + rename
            tmp = os.path.join(self.cache_dir, '.%s-tmp' % name)
            with io.open(tmp, 'w') as f:
                json.dump({'task': name.split('#')[1], 'gen': gen,
                           'bad': bool(bad)}, f)
            os.rename(tmp, path)
            self.cache_ident[path] = (ino, ctime)
            self.cache[key] = gen
            self._name_generation(path, key, gen)
            self._enq(('created', name))
            self.after_change(ev[3])
        elif kind == 'rep':
            # EventMgr._cache(check_existing=True): a stale manifest is
            # rewritten in place (rename over the old file): one MOVED_TO
            key = ev[1]
            gen = self.nextgen[key]
            self.nextgen[key] = gen + 1
            name = INSTANCE[key]
            path = os.path.join(self.cache_dir, name)
            self.bad[(key, gen)] = False
            self.rep_gens.add((key, gen))
            tmp = os.path.join(self.cache_dir, '.%s-tmp' % name)
            with io.open(tmp, 'w') as f:
                json.dump({'task': name.split('#')[1], 'gen': gen,
                           'bad': False}, f)
            os.rename(tmp, path)
            self.cache_ident[path] = ident(key, gen, self.salt,
                                            self.cfg.get('ino_reuse'))
            self.cache[key] = gen
            self._name_generation(path, key, gen)
            self._enq(('created', name))
            self.after_change(ev[2])
        elif kind == 'del':
            key = ev[1]
            name = INSTANCE[key]
            path = os.path.join(self.cache_dir, name)
            os.unlink(path)                     # EventMgr._synchronize: extra
            del self.cache[key]
            self.cache_ident.pop(path, None)
            self._enq(('deleted', name))
            self.after_change(ev[2])
        elif kind == 'dlv':
            self.crash_at = ev[1] if len(ev) > 1 else 0
            self.linkops = 0
            try:
                self.deliver_one()
            finally:
                self.crash_at = 0
        elif kind == 'rst':
            del self.fifo[:], self.fifo_ages[:]
            self.new_manager()
            self.stats['restarts'] += 1
        elif kind == 'boot':
            # run_real.sh: rm -f running/* cleanup/* cleaning/* tombstones/*/*
            # then every service (eventmgr, appcfgmgr, monitor) starts afresh
            for d in (self.running_dir, self.cleanup_dir):
                for n in os.listdir(d):
                    p = os.path.join(d, n)
                    if os.path.islink(p) or not os.path.isdir(p):
                        os.unlink(p)        # rm -f leaves directories
            tm_fs.rm_safe(os.path.join(self.cache_dir, READY))
            self.ready = False
            del self.fifo[:], self.fifo_ages[:]
            del self.tombs[:]
            del self.inflight[:]
            self.new_manager()
            self.stats['boots'] += 1
            self.prev = self.snapshot()     # not an action of the manager
        elif kind == 'fin':
            key, how = ev[1], ev[2]
            name = INSTANCE[key]
            data_dir = os.path.join(self.running_dir, name, 'data')
            sig = 0
            if how == 'exit':
                # MonitorContainerDown.execute: exitinfo in the container
                with io.open(os.path.join(data_dir, 'exitinfo'), 'w') as f:
                    json.dump({'service': 'web', 'return_code': 1,
                               'signal': 0}, f)
            elif how == 'oom':
                # cgroup_service: utils.touch(<container>/data/oom)
                with io.open(os.path.join(data_dir, 'oom'), 'w'):
                    pass
                sig = 9
            elif how == 'abort':
                sig = 6     # pid1 SIGABRT: the monitor flags 'aborted' itself
            self.tombs.append((key, sig))
            self.stats['finishes'] += 1
            if ev[3]:
                while self.tombs:
                    self.tomb_one()
        elif kind == 'tomb':
            self.tomb_one()
        elif kind == 'cln':
            # Cleanup.invoke(name): readlink, runtime.finish() (removes the
            # container directory), fs.rm_safe(link).  With split_cln the
            # process stops after finish(); 'clu' is the rest.
            name = self.real_link_name(ev[1:])
            path = os.path.join(self.cleanup_dir, name)
            self.pause_finish = bool(self.cfg.get('split_cln'))
            try:
                self._call('Cleanup.invoke', self.cleaner.invoke, 'linux',
                           name)
            finally:
                self.pause_finish = False
            if os.path.lexists(path) and not os.path.exists(path):
                self.inflight.append(tuple(ev[1:]))
                self.stats['cleanups_paused_after_finish'] += 1
            else:
                self.stats['cleanups_completed'] += 1
        elif kind == 'clf':
            # Cleanup.invoke(name) whose runtime.finish() fails while the
            # container directory still exists: the cleanup app dies (s6
            # restarts it later), nothing may be unlinked
            name = self.real_link_name(ev[1:])
            self.fail_finish = True
            try:
                self._call('Cleanup.invoke', self.cleaner.invoke, 'linux',
                           name)
            finally:
                self.fail_finish = False
            self.stats['cleanups_failed_in_finish'] += 1
        elif kind == 'clu':
            # the tail of the in-flight Cleanup.invoke: fs.rm_safe(link) by
            # NAME, whatever the link references by now
            self.inflight.remove(tuple(ev[1:]))
            name = self.real_link_name(ev[1:])
            self._call('Cleanup.invoke', tm_fs.rm_safe,
                       os.path.join(self.cleanup_dir, name))
            self.stats['cleanups_completed'] += 1
        else:
            raise statex.HarnessError('unknown event %r' % (ev,))
        self.observe()
        self.check_quiescent()
        self.stats['events'] += 1

    def _name_generation(self, path, key, gen):
        """Record the container name the real code derives for a new cache
        file.  The harness hands out (inode, ctime) pairs that differ between
        generations, so on the unchanged tree the names differ; if the code
        under test maps a new generation to the name of an older one whose
        container still sits under apps/, that directory is about to be (or
        already is) referenced as the old container (running or cleanup
        link) and as the new one: reported, and the state is terminal.  The
        same holds while a (dangling) link of the older one is still there."""
        uname = appcfg.eventfile_unique_name(path)
        old = self.cname.get(uname)
        if old is not None and old != (key, gen):
            snap = self.snapshot()
            if uname in snap.apps or uname in snap.targets():
                self.flag('new-generation-shares-container-with-older-one',
                          'appcfg.gen_uniqueid',
                          {'older': str(old), 'newer': str((key, gen)),
                           'links_to_it': sorted(
                               str(l) for l in snap.targets().get(uname, ())),
                           'state': self.describe(snap)})
                return
        self.cname[uname] = (key, gen)

    def tomb_one(self):
        key, sig = self.tombs.pop(0)
        self._call('MonitorContainerCleanup.execute', self.monitor.execute,
                   {'id': INSTANCE[key], 'return_code': 0, 'signal': sig,
                    'timestamp': 1600000000.0})

    def real_link_name(self, canon):
        canon = tuple(canon)
        if canon[0] == 'I':
            return INSTANCE[canon[1]]
        inv = {v: k for k, v in self.cname.items()}
        return inv[(canon[1], canon[2])]

    # -- menu -------------------------------------------------------------------
    def enabled(self):
        cfg = self.cfg
        menu = []
        snap = self.prev or self.snapshot()
        # Pruned: transitions that cannot change anything but the order of
        # no-op notifications (an inactive manager ignores instance events, an
        # active one ignores a touched .ready); crash points only where the
        # delivery can reach a link operation.
        active = self.mgr._is_active  # pylint: disable=protected-access
        crash = tuple(range(2, 2 + cfg.get('crash_points', 0)))
        nows = (1, 0) + (crash if active else ())
        for key in cfg['keys']:
            if key in self.cache:
                for now in nows:
                    menu.append(('del', key, now))
                if cfg.get('rep') and \
                        self.nextgen[key] <= cfg['maxgen'][key]:
                    for now in nows:
                        menu.append(('rep', key, now))
            elif self.nextgen[key] <= cfg['maxgen'][key]:
                for bad in cfg['bad'].get(key, (0,)):
                    for now in nows:
                        menu.append(('put', key, bad, now))
        if not (self.ready and active):
            for now in (1, 0) + (() if active else crash):
                menu.append(('rdy', 1, now))
        if self.ready and (active or self.fifo):
            for now in (1, 0):
                menu.append(('rdy', 0, now))
        if self.fifo:
            menu.append(('dlv',))
            head = self.fifo[0]
            if (head[1] == READY and head[0] != 'deleted' and not active) \
                    or (head[1] != READY and active):
                for k in range(1, 1 + cfg.get('crash_points', 0)):
                    menu.append(('dlv', k))
        if active or self.fifo:
            menu.append(('rst',))
        for key in cfg['keys']:
            name = INSTANCE[key]
            tgt = snap.running.get(name)
            if tgt in snap.apps and key not in [t[0] for t in self.tombs]:
                for how in cfg['fin'][key]:
                    for now in ((1, 0) if cfg.get('late_tomb') else (1,)):
                        menu.append(('fin', key, how, now))
        if self.tombs:
            menu.append(('tomb',))
        for name in sorted(snap.cleanup, key=lambda n: str(self.lname(n))):
            ln = self.lname(name)
            if isinstance(ln, tuple) and ln not in self.inflight:
                menu.append(('cln',) + ln)
                if cfg.get('fail_cln') and \
                        snap.cleanup[name] in snap.apps:
                    menu.append(('clf',) + ln)
        for ln in self.inflight:
            menu.append(('clu',) + ln)
        if cfg.get('boot'):
            menu.append(('boot',))
        return menu

    # -- canonical state --------------------------------------------------------
    def canon(self):
        s = self.prev or self.snapshot()
        return (
            tuple((k, self.cache.get(k, 0),
                   self.bad.get((k, self.cache.get(k, 0)), False),
                   self.nextgen[k],
                   # harness truth the quiescence clause depends on
                   (k, self.cache.get(k, 0)) in self.rep_gens,
                   any(self.cname.get(c) == (k, self.cache.get(k, 0))
                       for c in self.ever),
                   any(self.cname.get(c) == (k, self.cache.get(k, 0))
                       for c in self.finished_gens)) for k in KEYS),
            self.ready,
            tuple(sorted((str(self.cid(c)), tuple(sorted(f)))
                         for c, f in s.apps.items())),
            tuple(sorted((str(self.lname(n)), str(self.cid(t)))
                         for n, t in s.running.items())),
            tuple(sorted((str(self.lname(n)), str(self.cid(t)))
                         for n, t in s.cleanup.items())),
            tuple(self.fifo), self.late_seen,
            tuple(self.tombs), tuple(self.inflight),
            self.mgr._is_active,  # pylint: disable=protected-access
            # anything else the manager object remembers (nothing on the
            # unchanged tree)
            repr(sorted((k, v) for k, v in _mgr_state(self.mgr).items()
                        if k != '_is_active')).replace(self.root, '<root>'),
            # and anything the package remembers at module level
            repr(modstate.digest()).replace(self.root, '<root>'),
            s.other,
            # directory order of the cache = order in which _synchronize
            # configures new entries (visible through the crash points)
            tuple(KEY_OF[n] for n in os.listdir(self.cache_dir)
                  if n in KEY_OF),
            # who made each link: steers nothing in the implementation but
            # decides the site a later violation is attributed to
            tuple(sorted(
                (d, str(self.lname(n)), self.site_of(d, n)[1])
                for d, links in (('running', s.running),
                                 ('cleanup', s.cleanup))
                for n in links if not n.startswith('.'))),
        )

    def two_generations(self):
        seen = collections.Counter(
            self.cname[c][0] for c in os.listdir(self.apps_dir)
            if c in self.cname)
        return any(v > 1 for v in seen.values())
