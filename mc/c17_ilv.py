"""C17 - interleaving explorer for the presence service on the fake ZooKeeper.

World: one `fakezk.Tree`; every simulated node runs the REAL
`treadmill.services.presence_service.PresenceResourceService` (zkclient and
hostname injected, `retry_request` recording instead of touching the request
link).  A node is the single-threaded resource-service main loop: it handles
one request at a time, in the order
    start-up re-issue of all live requests  (after a restart)
    then any interleaving of  { next request of its program ,
                                oldest recorded retry }.
Each request runs in a greenlet; `tree.hook` (called by the fake before every
client operation) switches back to the scheduler, so every ZooKeeper call is a
scheduling point and everything between two calls is process-local.

Moves of one scheduling step (this order; choice 0 is always first):
  1. the moves of the actor that moved last (no preemption),
  2. the moves of the other regular actors (cost: 1 preemption iff 1. is
     non-empty),
       ('step', N)     perform N's pending ZooKeeper call, run to the next one
       ('next', N)     N idle: start its next request and perform its first
                       call (the local prologue commutes with everything)
       ('retry', N)    N idle: re-run on_create_request for the oldest recorded
                       retry_request (dropped when the request is gone, as
                       touching a removed request link is a no-op)
       ('deliver', N)  the ZooKeeper event thread of N's session delivers its
                       oldest pending watch event (kazoo delivers per session
                       in order); the callback is the real `_retry_request`
  3. environment deviations (cost: 1 deviation each, own bound):
       ('expire', N, perm)  N's session expires now: its ephemerals vanish, the
                       request in flight dies with the process, the service is
                       re-created on a new session with empty memory and
                       re-issues all live requests in directory order `perm`
                       (every permutation: glob order is arbitrary)
       ('fault', N, kind)  the fault lands ON N's call in flight:
                       'expired'       the session expires; the call raises
                                       SessionExpiredError; N's ephemerals
                                       vanish; the same process (service
                                       memory, retry queue, re-armed watches)
                                       carries on under a new session id
                       'loss'          ConnectionLoss, call not applied
                       'loss-applied'  a create/set/delete is applied, then
                                       ConnectionLoss is raised
                       (others may run before N sees the exception; the real
                       _on_created/_on_deleted turn it into an _error reply)
       ('xdel', path)  one external deletion of an existing presence node
  When 1.+2. are empty the system is quiescent: choice 0 is 'stop'.

Exploration: every schedule is re-executed from scratch from its choice prefix
(out-of-range choice / different step fingerprint = hard error).
  explore()         stateless DFS without any pruning, iterative preemption
                    bounding in rounds: round b executes exactly the schedules
                    with b preemptions, its start items are the children
                    round b-1 could not afford; sharded over forked workers by
                    schedule prefix.
  explore_states()  the same DFS without a preemption bound, cut at canonical
                    states already visited (shared-memory table); soundness
                    argument in its docstring.

Oracle (World._absorb_log / check_ref / check_quiescent): see mc/props/c17.py.
"""
import itertools
import json
import logging
import multiprocessing
import os
import sys
import time
import zlib

import greenlet

os.environ.setdefault('TREADMILL_HOSTNAME', 'harness-unset')

from mc import fakezk                                   # noqa: E402
from treadmill import appcfg                            # noqa: E402
from treadmill import zknamespace as z                  # noqa: E402
from treadmill import zkutils                           # noqa: E402
from treadmill.services import presence_service as ps   # noqa: E402

logging.disable(logging.CRITICAL)

import kazoo.exceptions as kx                           # noqa: E402
import kazoo.retry                                      # noqa: E402


class _NoSleepRetry(kazoo.retry.KazooRetry):
    """kazoo.retry.KazooRetry as seen by the code under test: same retry
    policy, but the back-off between attempts does not sleep (wall time and
    random jitter are not part of any behaviour explored here; every retried
    call is a scheduling point anyway)."""

    def __init__(self, *args, **kwargs):
        super(_NoSleepRetry, self).__init__(*args, **kwargs)
        self.sleep_func = lambda _secs: None


kazoo.retry.KazooRetry = _NoSleepRetry


class FaultClient(fakezk.Client):
    """fakezk client that can lose the reply of ONE mutating call: the call
    is applied, then ConnectionLoss is raised to the caller."""
    raise_after = None

    def _after(self):
        if self.raise_after is not None:
            err, self.raise_after = self.raise_after, None
            raise err

    def create(self, *args, **kwargs):
        res = super(FaultClient, self).create(*args, **kwargs)
        self._after()
        return res

    def set(self, *args, **kwargs):
        res = super(FaultClient, self).set(*args, **kwargs)
        self._after()
        return res

    def delete(self, *args, **kwargs):
        res = super(FaultClient, self).delete(*args, **kwargs)
        self._after()
        return res


FAULTS = ('expired', 'loss', 'loss-applied')

ADMIN_SID = 9          # set-up / external deletions; owns nothing
INSTANCE = 'foo.bar-0000000001'


class HarnessError(Exception):
    """Non-determinism or an impossible schedule: never a verdict."""


# ---------------------------------------------------------------------------
# configurations (JSON-able: a replay file carries the name only)
# ---------------------------------------------------------------------------
def _container(gen, port, endpoints=1):
    eps = [{'name': 'http', 'port': 80, 'real_port': port, 'proto': 'tcp'}]
    if endpoints > 1:
        eps.append({'name': 'ssh', 'port': 22, 'real_port': port + 100,
                    'proto': 'tcp'})
    return {'rid': '%s-%013d' % (INSTANCE, gen), 'gen': gen,
            'data': {'endpoints': eps, 'identity_group': 'g', 'identity': 1}}


CONTAINERS = {
    'g1': _container(1, 5000),
    'g2': _container(2, 6000),
    'g3': _container(3, 5001),
    'g4': _container(4, 7000),
}

CONFIGS = {
    # old container cleaned up on A while the new one registers on B
    'P1': {'nodes': [('A', 'node1', [('create', 'g1'), ('delete', 'g1')]),
                     ('B', 'node10', [('create', 'g2')])]},
    # two generations on the same host (A), a third party on B
    'P2': {'nodes': [('A', 'node1', [('create', 'g1'), ('create', 'g3'),
                                     ('delete', 'g1')]),
                     ('B', 'node10', [('create', 'g2')])]},
    # both sides register and clean up
    'P3': {'nodes': [('A', 'node1', [('create', 'g1'), ('delete', 'g1')]),
                     ('B', 'node10', [('create', 'g2'), ('delete', 'g2')])]},
    # three nodes
    'P4': {'nodes': [('A', 'node1', [('create', 'g1'), ('delete', 'g1')]),
                     ('B', 'node10', [('create', 'g2'), ('delete', 'g2')]),
                     ('C', 'node100', [('create', 'g4')])]},
    # two generations on A while B registers and cleans up
    'P6': {'nodes': [('A', 'node1', [('create', 'g1'), ('create', 'g3'),
                                     ('delete', 'g1')]),
                     ('B', 'node10', [('create', 'g2'), ('delete', 'g2')])]},
    # same-host generations only (restart / re-issue order)
    'P5': {'nodes': [('A', 'node1', [('create', 'g1'), ('create', 'g3'),
                                     ('delete', 'g1')])]},
}


_PATHS_CACHE = {}


def container_paths(host, cname):
    key = (host, cname)
    if key not in _PATHS_CACHE:
        _PATHS_CACHE[key] = _container_paths(host, cname)
    return _PATHS_CACHE[key]


def _container_paths(host, cname):
    """[(path, payload bytes)] the container must have registered, in the
    order the service registers them.  Written from the property statement
    (running -> hostname, endpoint -> host:port, identity -> {host, app})."""
    c = CONTAINERS[cname]
    app = appcfg.app_name(c['rid'])
    out = [(z.path.running(app), host.encode())]
    for ep in c['data']['endpoints']:
        out.append((z.path.endpoint(app, ep['proto'], ep['name']),
                    ('%s:%s' % (host, ep['real_port'])).encode()))
    out.append((z.path.identity_group('g', '1'),
                json.dumps({'host': host, 'app': app},
                           sort_keys=True).encode()))
    return out


BY_RID = {c['rid']: name for name, c in CONTAINERS.items()}


# ---------------------------------------------------------------------------
# the service under test, with its two seams
# ---------------------------------------------------------------------------
class Svc(ps.PresenceResourceService):
    """Real service; only the ZK handle, the hostname and the retry sink are
    injected (in production: context.GLOBAL.zk.conn, sysinfo.hostname(), a
    touch of the request link picked up by the service main loop)."""

    def __init__(self, client, host, sink):
        super(Svc, self).__init__()
        self._client = client
        self.hostname = host
        self._sink = sink

    @property
    def zkclient(self):
        return self._client

    def retry_request(self, rsrc_id):
        self._sink(rsrc_id)


def _site():
    """Innermost treadmill function (zkutils helpers skipped) on the stack."""
    f = sys._getframe(2)                      # pylint: disable=protected-access
    while f is not None:
        fn = f.f_code.co_filename
        if '/treadmill/' in fn and not fn.endswith('zkutils.py'):
            return f.f_code.co_name
        f = f.f_back
    return 'harness'


class Node:
    __slots__ = ('name', 'host', 'program', 'pc', 'reissue', 'retries',
                 'live', 'status', 'sid', 'client', 'svc', 'glet', 'cur',
                 'pending', 'seen', 'incarnation', 'result', 'error',
                 'journal', 'start_presence', 'first_op', 'inject')

    def __init__(self, name, host, program):
        self.name = name
        self.host = host
        self.program = program
        self.pc = 0
        self.reissue = []       # start-up phase: live requests to re-issue
        self.retries = []       # recorded retry_request calls (rids), FIFO
        self.live = []          # request directory: cnames created, not deleted
        self.status = {}        # cname -> 'ok' | 'waiting' | 'error'
        self.sid = None
        self.client = None
        self.svc = None
        self.glet = None        # request in flight
        self.cur = None         # (kind, cname) of the request in flight
        self.pending = None     # (op, path, site) it is about to perform
        self.seen = {}          # path -> [owner at own last get, xdel since?]
        self.journal = []       # (op, path, node state the op found) this request
        self.start_presence = None   # svc.presence when the request started
        self.first_op = None
        self.inject = None      # fault landing on the call in flight
        self.incarnation = 0
        self.result = None
        self.error = None


class Trace:
    __slots__ = ('choices', 'opts', 'fps', 'labels', 'violations', 'final',
                 'pre', 'dev', 'contended', 'shared', 'counters', 'cut',
                 'complete', 'ops')

    def __init__(self):
        self.choices = []
        self.opts = []          # per step (n_last, n_other, n_env)
        self.fps = []           # running crc of the step labels
        self.labels = []
        self.violations = []
        self.final = None
        self.pre = 0
        self.dev = 0
        self.contended = False  # some create found a foreign live owner
        self.shared = False     # two sessions operated on one path
        self.counters = {}
        self.cut = None
        self.complete = False
        self.ops = 0


class World:
    """One execution."""

    def __init__(self, cfgname, max_dev, want_labels=False, xdel=True):
        cfg = CONFIGS[cfgname]
        self.cfgname = cfgname
        self.max_dev = max_dev
        # `xdel`: True = every environment move, False = all but the external
        # deletion, or the explicit list of optional kinds
        # ('xdel', 'expired', 'loss', 'loss-applied'); the process-killing
        # expiry is always there
        if xdel is True:
            opts = ('xdel',) + FAULTS
        elif xdel is False:
            opts = FAULTS
        else:
            opts = tuple(xdel)
        self.allow_xdel = 'xdel' in opts
        self.faults = tuple(k for k in FAULTS if k in opts)
        self.want_labels = want_labels
        self.main = greenlet.getcurrent()
        self.tree = fakezk.Tree()
        self.tree.auto_deliver = False
        self.admin = fakezk.Client(self.tree, ADMIN_SID)
        self.tree.sessions[ADMIN_SID] = True
        for p in ('/running', '/endpoints/foo', '/identity-groups/g'):
            self.admin.ensure_path(p)
        self.base_log = len(self.tree.log)
        self.log_seen = len(self.tree.log)
        self.nodes = [Node(n, h, list(prog)) for n, h, prog in cfg['nodes']]
        self.by_name = {n.name: n for n in self.nodes}
        self.by_sid = {}
        self.next_sid = 1
        for n in self.nodes:
            self._new_session(n)
        self.tree.hook = self._hook
        self.ref = {}           # path -> (node name, cname, gen, payload)
        self.culprit = {}       # path -> (site, op): first write that broke
                                # the reference entry now standing for path
        self.touched = {}       # path -> set of node names that operated on it
        self.xdel_used = False
        self.exempt = {}        # path deleted externally -> node that owned it
        self.last_ok_create = {}  # (node, path) -> container whose create
                                  # request registered the path last
        self.started = None
        self.step = 0
        self.tr = Trace()
        self.reported = set()

    # -- sessions -----------------------------------------------------------
    def _new_session(self, n):
        sid = self.next_sid
        self.next_sid += 1
        self.tree.sessions[sid] = True
        n.sid = sid
        n.client = FaultClient(self.tree, sid)
        n.incarnation += 1
        n.svc = Svc(n.client, n.host, n.retries.append)
        self.by_sid[sid] = n

    # -- the scheduling point -------------------------------------------------
    def _hook(self, client, op, path):
        cur = greenlet.getcurrent()
        if cur is self.main:
            return
        n = self.by_sid.get(client.sid)
        if n is None or n.glet is not cur:
            raise HarnessError('operation %s %s from an unknown greenlet'
                               % (op, path))
        n.pending = (op, path, _site())
        self.main.switch()
        if n.inject is not None:
            kind, n.inject = n.inject, None
            if kind == 'expired':
                raise kx.SessionExpiredError()
            if kind == 'loss':
                raise kx.ConnectionLoss()
            client.raise_after = kx.ConnectionLoss()     # loss-applied

    def kill(self):
        """Abandon the execution: unwind the requests in flight."""
        for n in self.nodes:
            if n.glet is not None:
                g, n.glet = n.glet, None
                g.throw(greenlet.GreenletExit)

    # -- violations -----------------------------------------------------------
    def violate(self, clause, site, detail):
        key = (clause, site, detail.get('path'))
        if key in self.reported:
            return
        self.reported.add(key)
        self.tr.violations.append(
            {'clause': clause, 'site': site, 'detail': detail,
             'step': self.step})

    def count(self, name, k=1):
        c = self.tr.counters
        c[name] = c.get(name, 0) + k

    # -- moves ----------------------------------------------------------------
    def enabled(self, last):
        """-> (moves of `last`, other regular moves, environment moves)."""
        mine, others = [], []
        for n in self.nodes:
            dst = mine if last == n.name else others
            if n.glet is not None:
                dst.append(('step', n.name))
            else:
                if n.reissue or n.pc < len(n.program):
                    dst.append(('next', n.name))
                if n.retries and not n.reissue:
                    dst.append(('retry', n.name))
        seen = set()
        for client, _cb, _ev in self.tree.pending:
            if client.sid in seen:
                continue
            seen.add(client.sid)
            n = self.by_sid.get(client.sid)
            if n is None or n.sid != client.sid:
                continue
            who = 'W' + n.name
            (mine if last == who else others).append(('deliver', n.name))
        env = []
        if self.tr.dev < self.max_dev:
            for n in self.nodes:
                live = sorted(n.live)
                perms = list(itertools.permutations(live)) if len(live) > 1 \
                    else [tuple(live)]
                for perm in perms:
                    env.append(('expire', n.name, perm))
            if self.faults:
                for n in self.nodes:
                    if n.glet is None or n.pending is None or \
                            n.inject is not None:
                        continue
                    op = n.pending[0]
                    if 'expired' in self.faults:
                        env.append(('fault', n.name, 'expired'))
                    if op != 'DataWatch':
                        # (the DataWatch recipe retries connection loss
                        # itself)
                        if 'loss' in self.faults:
                            env.append(('fault', n.name, 'loss'))
                        if 'loss-applied' in self.faults and \
                                op in ('create', 'set', 'delete'):
                            env.append(('fault', n.name, 'loss-applied'))
            if self.allow_xdel and not self.xdel_used:
                for path, (_d, owner) in sorted(
                        self.tree.dump('/', with_stat=True).items()):
                    if owner:
                        env.append(('xdel', path))
        return mine, others, env

    def apply(self, move):
        kind = move[0]
        if kind == 'stop':
            return None
        if kind == 'step':
            n = self.by_name[move[1]]
            self._resume(n)
            return n.name
        if kind == 'next':
            n = self.by_name[move[1]]
            if n.reissue:
                cname = n.reissue.pop(0)
                self._start(n, 'create', cname, 'reissue')
            else:
                what, cname = n.program[n.pc]
                n.pc += 1
                if what == 'create':
                    n.live.append(cname)
                else:
                    if cname in n.live:
                        n.live.remove(cname)
                    n.status.pop(cname, None)
                    for p in [p for p, r in self.ref.items()
                              if r[0] == n.name and r[1] == cname]:
                        self._unref(p)
                self._start(n, what, cname, 'program')
            return n.name
        if kind == 'retry':
            n = self.by_name[move[1]]
            rid = n.retries.pop(0)
            cname = BY_RID[rid]
            if cname not in n.live:
                self.started = 'retry of %s dropped: request gone' % cname
                n.first_op = None
                self.count('retries_dropped_request_gone')
            else:
                self.count('retries_processed')
                self._start(n, 'create', cname, 'retry')
            return n.name
        if kind == 'deliver':
            n = self.by_name[move[1]]
            for i, (client, _cb, _ev) in enumerate(self.tree.pending):
                if client.sid == n.sid:
                    self.tree.deliver(i)
                    break
            else:
                raise HarnessError('nothing to deliver to %s' % n.name)
            self.count('watch_events_delivered')
            return 'W' + n.name
        if kind == 'expire':
            n = self.by_name[move[1]]
            self.tr.dev += 1
            self.count('expiries')
            if n.glet is not None:
                g = n.glet
                n.glet = None
                n.cur = None
                n.pending = None
                n.inject = None
                g.throw(greenlet.GreenletExit)
                self.count('expiries_mid_request')
            self.tree.expire(n.sid)
            self._absorb_log(None, None)
            for p in [p for p, r in self.ref.items() if r[0] == n.name]:
                self._unref(p)
            for p in [p for p, o in self.exempt.items() if o == n.name]:
                del self.exempt[p]
            for k in [k for k in self.last_ok_create if k[0] == n.name]:
                del self.last_ok_create[k]      # the new process knows nothing
            n.status.clear()
            del n.retries[:]
            n.retries = []
            n.seen = {}
            self._new_session(n)
            n.reissue = list(move[2])
            return None          # `last` unchanged
        if kind == 'fault':
            n = self.by_name[move[1]]
            self.tr.dev += 1
            self.count('faults_on_call_in_flight_' + move[2])
            n.inject = move[2]
            if move[2] == 'expired':
                # the session is gone; the kazoo client (same object, same
                # process, same service memory) carries on under a new
                # session; its DataWatch recipes re-arm on reconnection, so
                # its watches are carried over
                old = n.sid
                new = self.next_sid
                self.next_sid += 1
                self.tree.sessions[new] = True
                n.client.sid = new
                n.sid = new
                self.by_sid[new] = n
                self.tree.expire(old)
                self._absorb_log(None, None)
                for p in [p for p, r in self.ref.items() if r[0] == n.name]:
                    self._unref(p)
                for p in [p for p, o in self.exempt.items() if o == n.name]:
                    del self.exempt[p]
            return None
        if kind == 'xdel':
            path = move[1]
            self.tr.dev += 1
            self.xdel_used = True
            self._unref(path)
            self.count('external_deletions')
            owner = self.by_sid.get(self.tree.find(path).owner)
            if owner is not None:
                # the statement does not ask the service to notice: the
                # owner's registration is not expected to include this node
                # until the owner creates it again
                self.exempt[path] = owner.name
            self.admin.delete(path)
            for n in self.nodes:
                if path in n.seen:
                    n.seen[path][1] = True
            self._absorb_log(None, None)
            return None
        raise HarnessError('unknown move %r' % (move,))

    # -- running requests -------------------------------------------------------
    def _start(self, n, what, cname, why):
        c = CONTAINERS[cname]
        svc = n.svc
        n.cur = (what, cname, why)
        if what == 'create':
            # successive containers of one instance: the newer one supersedes
            # what older generations registered on this node from the moment
            # a create request for it is being processed (program, re-issue
            # or retry)
            gen = c['gen']
            for p in [p for p, r in self.ref.items()
                      if r[0] == n.name and r[2] < gen]:
                self._unref(p)
        self.started = '%s %s, %s' % n.cur
        n.seen = {}
        n.journal = []
        n.start_presence = presence_key(svc)
        n.result = None
        n.error = None

        def body():
            try:
                if what == 'create':
                    n.result = svc.on_create_request(c['rid'],
                                                     dict(c['data']))
                else:
                    n.result = svc.on_delete_request(c['rid'])
            except Exception as err:      # pylint: disable=broad-except
                # BaseResourceService._on_created/_on_deleted turn any
                # exception into an '_error' reply
                n.error = '%s: %s' % (type(err).__name__, err)
        n.glet = greenlet.greenlet(body, parent=self.main)
        n.pending = None
        n.glet.switch()                   # local prologue, up to the first call
        n.first_op = n.pending
        if n.glet.dead:
            self._finished(n)
        else:
            self._resume(n)               # ... and the first call itself

    def _resume(self, n):
        op, path, site = n.pending
        self.tr.ops += 1
        tset = self.touched.get(path)
        if tset is None:
            tset = self.touched[path] = set()
        tset.add(n.name)
        if len(tset) > 1:
            self.tr.shared = True
        node = self.tree.find(path)
        n.journal.append(
            (op, path, n.inject) if node is None else
            (op, path, n.inject, node.data, self.by_sid[node.owner].name
             if node.owner in self.by_sid else node.owner))
        if n.cur[0] == 'create' and n.inject is None:
            # which container's create request was the last to REGISTER the
            # path on this node, i.e. to get True from _safe_create for it -
            # judged from the ZooKeeper calls alone, independent of the
            # service's own table: the create succeeds, or the node is
            # already this session's and carries (or is then set to) the
            # container's data
            cname = n.cur[1]
            want = dict(container_paths(n.host, cname)).get(path)
            if want is not None and (
                    (op == 'create' and node is None) or
                    (op == 'get' and node is not None and
                     node.owner == n.sid and node.data == want) or
                    (op == 'set' and node is not None)):
                self.last_ok_create[(n.name, path)] = cname
        if n.inject in ('expired', 'loss'):
            pass                        # the call fails, it observes nothing
        elif op == 'get':
            n.seen[path] = [node.owner if node is not None else None, False]
        elif op == 'create' and node is not None and node.owner and \
                node.owner != n.sid and self.tree.sessions.get(node.owner):
            self.tr.contended = True    # wanted node held by a live stranger
        n.pending = None
        n.glet.switch()
        self._absorb_log(n, site)
        if n.glet.dead:
            self._finished(n)

    def _finished(self, n):
        what, cname, _why = n.cur
        n.glet = None
        n.cur = None
        n.pending = None
        if what == 'create':
            if n.error is not None:
                n.status[cname] = 'error'
                self.count('create_replied_error')
            elif n.result is None:
                n.status[cname] = 'waiting'
                self.count('create_waiting')
            else:
                n.status[cname] = 'ok'
                self.count('create_ok')
                self._registered(n, cname)
        else:
            if n.error is not None:
                self.count('delete_replied_error')
        self.check_ref()

    # -- oracle -----------------------------------------------------------------
    def _absorb_log(self, n, site):
        """Ownership monitor over the fake's log of mutating calls."""
        log = self.tree.log
        while self.log_seen < len(log):
            by, op, path, owner = log[self.log_seen]
            self.log_seen += 1
            if by is None or by == ADMIN_SID:
                continue
            actor = self.by_sid.get(by)
            if op == 'create':
                if actor is not None and self.exempt.get(path) == actor.name:
                    del self.exempt[path]
                node = self.tree.find(path)
                if node is None or node.owner != by:
                    self.violate(
                        'created-node-not-own-ephemeral', site,
                        {'path': path, 'session': by,
                         'owner': None if node is None else node.owner})
                continue
            if path in self.ref and path not in self.culprit:
                self.culprit[path] = (self._culprit_site(actor, site, op,
                                                         path), op)
            if owner and owner != by and self.tree.sessions.get(owner):
                seen = actor.seen.get(path) if actor is not None else None
                if seen is not None and seen[0] == by and seen[1]:
                    # the session verified its ownership, then the node was
                    # deleted externally and re-created by the other session
                    # before the verified call went out: the check-then-act
                    # window ZooKeeper cannot close (DESIGN C17 "X")
                    self.count('inherent_window_after_external_delete')
                    victim = self.by_sid.get(owner)
                    if victim is not None:
                        self.exempt[path] = victim.name
                    self._unref(path)
                    continue
                self.violate(
                    'touched-foreign-node', site,
                    {'path': path, 'op': op, 'by_session': by,
                     'by_node': actor.name if actor else None,
                     'owner_session': owner,
                     'owner_node': self.by_sid[owner].name
                     if owner in self.by_sid else None,
                     'request': list(actor.cur) if actor and actor.cur
                     else None})

    def _unref(self, path):
        self.ref.pop(path, None)
        self.culprit.pop(path, None)

    def _culprit_site(self, actor, site, op, path):
        """Site of a write that breaks a reference entry.  A delete issued
        by a delete request is qualified by what the service's own table said
        when the request started: the node was registered to the container
        being deleted (the table was wrong before) or to another container
        (the request deleted more than its own nodes)."""
        if actor is None or not actor.cur:
            return site
        entry = self.ref.get(path)
        if op == 'set' and actor.cur[0] == 'create' and entry is not None \
                and entry[0] == actor.name and \
                CONTAINERS[actor.cur[1]]['gen'] < entry[2]:
            # a create of an OLDER container of the instance, processed after
            # the newer one registered, rewrites the newer one's node
            return site + ':by-older-container'
        if op != 'delete' or actor.cur[0] != 'delete':
            return site
        rid = CONTAINERS[actor.cur[1]]['rid']
        reg = None
        for _app, items in actor.start_presence or ():
            for p, r in items:
                if p == path:
                    reg = r
        if reg != rid:
            return site + ':registered-to-other-container'
        last = self.last_ok_create.get((actor.name, path))
        if last is not None and CONTAINERS[last]['rid'] != rid:
            # the service's table names the deleted container although the
            # last create request to register the path came from another one
            return site + ':table-names-deleted-container-but-' \
                'another-container-registered-last'
        return site + ':registered-to-deleted-container'

    def _registered(self, n, cname):
        gen = CONTAINERS[cname]['gen']
        if any(CONTAINERS[other]['gen'] > gen for other in n.live):
            # a newer container of the instance is live on this node: this
            # one is superseded (see _start), its reply establishes nothing
            self.count('older_container_replied_ok_while_newer_live')
            return
        for path, payload in container_paths(n.host, cname):
            if self.exempt.get(path) == n.name:
                continue
            cur = self.ref.get(path)
            if cur is not None:
                if cur[0] == n.name and cur[2] > gen:
                    # an older generation of the same instance on the same
                    # node re-registered (re-issue after a restart): the newer
                    # live container remains the reference
                    continue
                if cur[0] != n.name:
                    self._lost(path, cur, 'another node registered the path')
            self.culprit.pop(path, None)
            self.ref[path] = (n.name, cname, gen, payload)

    def _lost(self, path, entry, how):
        site, op = self.culprit.get(path, ('unknown', None))
        nname, cname, _gen, payload = entry
        node = self.tree.find(path)
        clause = 'registration-lost'
        if node is not None and node.owner == self.by_name[nname].sid:
            clause = 'registration-data-replaced'
        self.violate(
            clause, site,
            {'path': path, 'container': cname, 'node': nname, 'how': how,
             'expected': payload,
             'found': None if node is None else
             {'data': node.data, 'owner_session': node.owner},
             'broken_by': op})
        self._unref(path)

    def check_ref(self):
        """Reference table: every successfully registered, not deleted
        container of a live session has all its nodes with its data."""
        for path, entry in list(self.ref.items()):
            n = self.by_name[entry[0]]
            if n.glet is not None:
                continue                   # its own request is rewriting them
            node = self.tree.find(path)
            if node is None:
                self._lost(path, entry, 'node missing')
            elif node.owner != n.sid:
                self._lost(path, entry, 'owned by another session')
            elif node.data != entry[3]:
                self._lost(path, entry, 'data differ')

    def check_quiescent(self):
        """No regular move is enabled.  A create that was told to wait must be
        waiting for something: one of its nodes exists, belongs to another
        live session and carries an armed watch of this request (the node's
        deletion re-runs the whole request); and the wait-for relation between
        requests has no cycle.  Both are reported only for executions without
        an external deletion (an administrator deleting one node of a
        half-registered container can make two containers hold one node each
        of the other's set: outside the statement's quantifier, counted)."""
        self.check_ref()
        waits = {}
        for n in self.nodes:
            for cname in n.live:
                st = n.status.get(cname)
                if st == 'ok' or st == 'error':
                    continue
                if st is None:
                    self.violate('request-never-processed', 'harness',
                                 {'node': n.name, 'container': cname})
                    continue
                # it must be waiting FOR something: an armed watch of this
                # request on a node that exists and belongs to another live
                # session (its deletion re-runs the whole request)
                blocked = None
                for path, _payload in container_paths(n.host, cname):
                    node = self.tree.find(path)
                    if node is None or node.owner == n.sid or \
                            not self.tree.sessions.get(node.owner):
                        continue
                    for c, cb in self.tree.data_watches.get(path, ()):
                        if c.sid == n.sid and _watch_key(cb) == (cname, False):
                            blocked = (path, node)
                            break
                    if blocked:
                        break
                if blocked is None:
                    clause = 'lost-wakeup'
                    if self.xdel_used:
                        self.count('lost_wakeup_after_external_delete')
                    else:
                        self.violate(
                            clause, '_watch',
                            {'node': n.name, 'container': cname,
                             'why': 'create replied "wait" but no armed watch '
                                    'of this request sits on a node owned by '
                                    'another live session',
                             'nodes': {p: None if self.tree.find(p) is None
                                       else self._owner_name(
                                           self.tree.find(p).owner)
                                       for p, _x in
                                       container_paths(n.host, cname)}})
                    continue
                path, node = blocked
                holder = self.by_sid.get(node.owner)
                if holder is not None:
                    app = appcfg.app_name(CONTAINERS[cname]['rid'])
                    hrid = holder.svc.presence.get(app, {}).get(path)
                    waits[(n.name, cname)] = (holder.name, BY_RID.get(hrid))
                self.count('final_waiting_on_live_owner')
        for start in waits:
            cur, hops = start, 0
            while cur in waits and hops <= len(waits):
                cur = waits[cur]
                hops += 1
                if cur == start and self.xdel_used:
                    self.count('circular_wait_after_external_delete')
                    break
                if cur == start:
                    self.violate('circular-wait', '_safe_create',
                                 {'cycle_from': list(start),
                                  'waits': {'%s/%s' % k: list(v)
                                            for k, v in waits.items()}})
                    break

    # -- canonical state -----------------------------------------------------
    def _owner_name(self, sid):
        n = self.by_sid.get(sid)
        return n.name if n is not None and n.sid == sid else sid

    def final_canon(self):
        """Observable outcome of a complete execution."""
        tree = tuple(sorted(
            (p, d, self._owner_name(o)) for p, (d, o) in
            self.tree.dump('/', with_stat=True).items() if o))
        nodes = tuple(
            (n.name, tuple(n.live), tuple(sorted(n.status.items())),
             presence_key(n.svc))
            for n in self.nodes)
        return (tree, nodes)

    def key(self):
        """Everything the future of the execution (and of the oracle) is a
        function of - see the soundness note in explore_states()."""
        own = self._owner_name
        tree = tuple(sorted(
            (p, d, own(o)) for p, (d, o) in
            self.tree.dump('/', with_stat=True).items() if o))
        watches = []
        for tname, table in (('d', self.tree.data_watches),
                             ('e', self.tree.exist_watches),
                             ('c', self.tree.child_watches)):
            for path in sorted(table):
                lst = table[path]
                if lst:
                    watches.append((tname, path, tuple(
                        (own(c.sid), _watch_key(cb)) for c, cb in lst)))
        pend = tuple((own(c.sid), _watch_key(cb), ev.type, ev.path)
                     for c, cb, ev in self.tree.pending)
        nodes = []
        for n in self.nodes:
            flight = None
            if n.glet is not None:
                flight = (n.cur, n.start_presence, tuple(n.journal),
                          n.pending[:2], n.inject,
                          tuple(sorted((p, s[0] == n.sid, s[1])
                                       for p, s in n.seen.items())))
            nodes.append((n.name, n.pc, tuple(n.reissue), tuple(n.retries),
                          tuple(n.live), tuple(sorted(n.status.items())),
                          presence_key(n.svc), flight))
        oracle = (tuple(sorted(self.ref.items())),
                  tuple(sorted(self.culprit.items())),
                  self.tr.dev, self.xdel_used,
                  tuple(sorted(self.exempt.items())),
                  tuple(sorted(self.last_ok_create.items())))
        return (tree, tuple(watches), pend, tuple(nodes), oracle)


def presence_key(svc):
    """svc.presence in insertion order (on_delete_request iterates it)."""
    return tuple((app, tuple(t.items())) for app, t in svc.presence.items())


def _cells(fn):
    return dict(zip(fn.__code__.co_freevars,
                    (c.cell_contents for c in fn.__closure__ or ())))


def _watch_key(cb):
    """Identity of a registered DataWatch callback of the fake: which request
    the real `_retry_request` closure retries, and whether the recipe has
    already been stopped."""
    outer = _cells(cb)
    fn = outer.get('fn')
    state = outer.get('state')
    if fn is None or state is None:
        raise HarnessError('unknown watcher %r' % (cb,))
    inner = _cells(getattr(fn, '__wrapped__', fn))
    return (BY_RID.get(inner.get('rsrc_id')), bool(state['stopped']))


def label_of(move):
    if move[0] == 'expire':
        return 'expire %s reissue=%s' % (move[1], ','.join(move[2]))
    return ' '.join(str(x) for x in move)


def execute(cfgname, prefix, max_dev, want_labels=False, xdel=True,
            seen=None):
    """Run ONE schedule: replay `prefix`, then always choice 0.

    With `seen` (a visited-state table, see StateTable) the execution is cut
    as soon as a step taken at or after the end of the prefix leads to a state
    already in the table; states reached for the first time are added.
    tr.cut is the index of the step whose successor was known (alternatives
    are generated only for steps <= cut)."""
    w = World(cfgname, max_dev, want_labels, xdel)
    tr = w.tr
    last = None
    crc = 0
    i = 0
    plen = len(prefix)
    tr.cut = None
    while True:
        mine, others, env = w.enabled(last)
        moves = mine + others
        if not moves:
            w.check_quiescent()
            moves = [('stop',)]
            opts = (1, 0, len(env))
        else:
            opts = (len(mine), len(others), len(env))
        moves = moves + env
        c = prefix[i] if i < plen else 0
        if c >= len(moves):
            raise HarnessError('choice %d at step %d outside 0..%d (%s %r)'
                               % (c, i, len(moves) - 1, cfgname,
                                  list(prefix)))
        move = moves[c]
        if opts[0] and opts[0] <= c < opts[0] + opts[1]:
            tr.pre += 1
        tr.choices.append(c)
        tr.opts.append(opts)
        n = w.by_name[move[1]] if move[0] == 'step' else None
        desc = (move, n.pending[:2] if n is not None else None)
        crc = zlib.crc32(repr(desc).encode(), crc)
        tr.fps.append(crc)
        w.step = i
        if want_labels:
            lab = label_of(move)
            if n is not None:
                lab += '  -> %s %s [%s]' % n.pending
            tr.labels.append(lab)
        if move[0] == 'stop':
            tr.complete = True
            break
        who = w.apply(move)
        if want_labels and move[0] in ('next', 'retry'):
            nn = w.by_name[move[1]]
            tr.labels[-1] += '  [%s]%s' % (
                w.started, '  -> %s %s [%s]' % nn.first_op
                if nn.first_op else '  (no ZooKeeper call)')
        if who is not None:
            last = who
        if seen is not None and i >= plen - 1:
            if not seen.add(hash(w.key())):
                tr.cut = i
                tr.complete = False
                w.kill()
                break
        i += 1
        if i > 400:
            raise HarnessError('execution longer than 400 steps')
    if plen > i + 1:
        raise HarnessError('prefix longer than the execution')
    tr.final = w.final_canon() if tr.complete else None
    return tr


# ---------------------------------------------------------------------------
# mode A: stateless DFS, iterative preemption bounding, no pruning
# ---------------------------------------------------------------------------
def _note_violations(out, tr):
    n = len(tr.choices)
    for v in tr.violations:
        key = (v['clause'], v['site'])
        cur = out['violations'].get(key)
        cand = (tr.pre + tr.dev, n, list(tr.choices))
        if cur is None:
            cur = out['violations'][key] = {'v': v, 'count': 1, 'best': cand,
                                            'best0': None}
        else:
            cur['count'] += 1
            if cand < cur['best']:
                cur['best'] = cand
                cur['v'] = v
        if tr.dev == 0 and (cur['best0'] is None or cand < cur['best0']):
            cur['best0'] = cand     # simplest case without any deviation


def _new_out():
    return {'runs': 0, 'steps': 0, 'ops': 0, 'contended': 0, 'shared': 0,
            'violations': {}, 'overflow': [], 'finals': set(),
            'counters': {}, 'incomplete': False, 'max_len': 0,
            'with_dev': 0, 'complete_runs': 0}


def _account(out, tr):
    n = len(tr.choices)
    out['runs'] += 1
    out['steps'] += n
    out['ops'] += tr.ops
    if n > out['max_len']:
        out['max_len'] = n
    out['contended'] += tr.contended
    out['shared'] += tr.shared
    out['with_dev'] += bool(tr.dev)
    if tr.final is not None:
        out['complete_runs'] += 1
        out['finals'].add(tr.final)
    for k, v in tr.counters.items():
        out['counters'][k] = out['counters'].get(k, 0) + v
    _note_violations(out, tr)


def _work(chunk):
    cfgname, max_dev, bound, items, deadline, xdel = chunk
    out = _new_out()
    stack = list(items)
    while stack:
        if time.perf_counter() > deadline:
            out['incomplete'] = True
            break
        prefix, want = stack.pop()
        tr = execute(cfgname, prefix, max_dev, xdel=xdel)
        plen = len(prefix)
        if want is not None and plen > 1 and tr.fps[plen - 2] != want:
            raise HarnessError('replay divergence: %s prefix %r'
                               % (cfgname, list(prefix)))
        _account(out, tr)
        n = len(tr.choices)
        pre = tr.pre
        choices = bytes(tr.choices)
        for i in range(plen, n):
            n_last, n_other, n_env = tr.opts[i]
            total = n_last + n_other + n_env
            if total == 1:
                continue
            fp = tr.fps[i - 1] if i else None
            head = choices[:i]
            for alt in range(1, total):
                cost = 1 if (n_last and n_last <= alt < n_last + n_other) \
                    else 0
                child = (head + bytes((alt,)), fp)
                if pre + cost <= bound:
                    stack.append(child)
                else:
                    out['overflow'].append(child)
    return out


def _merge(res, out):
    for k in ('runs', 'steps', 'ops', 'contended', 'shared', 'with_dev',
              'complete_runs'):
        res[k] += out[k]
    res['max_len'] = max(res['max_len'], out['max_len'])
    res['finals'] |= out['finals']
    for k, v in out['counters'].items():
        res['counters'][k] = res['counters'].get(k, 0) + v
    for key, rec in out['violations'].items():
        cur = res['violations'].get(key)
        if cur is None:
            res['violations'][key] = rec
        else:
            cur['count'] += rec['count']
            if rec['best'] < cur['best']:
                cur['best'] = rec['best']
                cur['v'] = rec['v']
            if rec['best0'] is not None and (cur['best0'] is None or
                                             rec['best0'] < cur['best0']):
                cur['best0'] = rec['best0']


def _new_res(cfgname, max_dev):
    return {'config': cfgname, 'max_deviations': max_dev, 'runs': 0,
            'steps': 0, 'ops': 0, 'contended': 0, 'shared': 0, 'with_dev': 0,
            'complete_runs': 0, 'caps_hit': [], 'violations': {},
            'counters': {}, 'max_len': 0, 'finals': set()}


def explore(cfgname, max_dev, max_bound, workers, time_cap, log, xdel=True):
    """Rounds b = 0, 1, 2, ...: round b executes exactly the schedules with b
    preemptions (and <= max_dev deviations); every schedule is executed once.
    Stops when nothing is left (= unbounded), after max_bound, or when the
    time cap is reached (then the last completed bound is reported)."""
    t0 = time.perf_counter()
    deadline = t0 + time_cap
    res = _new_res(cfgname, max_dev)
    res.update({'by_bound': {}, 'bound_completed': -1, 'unbounded': False})
    items = [(b'', None)]
    bound = 0
    rate = None
    pool = make_pool(workers)
    try:
        while items:
            if max_bound is not None and bound > max_bound:
                res['not_expanded'] = (
                    '%d schedule prefixes with %d preemptions'
                    % (len(items), bound))
                break
            remaining = deadline - time.perf_counter()
            if rate and len(items) / rate > remaining:
                res['caps_hit'].append(
                    '%s stateless: time cap before preemption bound %d '
                    '(%d prefixes, > %.0fs needed, %.0fs left); bound %d '
                    'completed' % (cfgname, bound, len(items),
                                   len(items) / rate, remaining, bound - 1))
                break
            tr0 = time.perf_counter()
            nchunks = max(1, min(len(items), workers * 6))
            chunks = [(cfgname, max_dev, bound, items[k::nchunks], deadline,
                       xdel) for k in range(nchunks)]
            if pool is not None and len(chunks) > 1:
                outs = pool.imap_unordered(_work, chunks)
            else:
                outs = (_work(c) for c in chunks)
            nxt = []
            incomplete = False
            runs = 0
            for out in outs:
                runs += out['runs']
                _merge(res, out)
                nxt.extend(out['overflow'])
                incomplete = incomplete or out['incomplete']
            res['by_bound'][bound] = runs
            dt = time.perf_counter() - tr0
            if runs > 200:
                rate = runs / max(dt, 1e-3)
            log('%s stateless dev<=%d bound %d: %d schedules in %.1fs, %d '
                'prefixes for bound %d' % (cfgname, max_dev, bound, runs, dt,
                                           len(nxt), bound + 1))
            if incomplete:
                res['caps_hit'].append(
                    '%s stateless: time cap hit inside preemption bound %d; '
                    'bound %d completed' % (cfgname, bound, bound - 1))
                break
            res['bound_completed'] = bound
            items = nxt
            bound += 1
        else:
            res['unbounded'] = True
    finally:
        if pool is not None:
            pool.terminate()
            pool.join()
    res['wall_s'] = round(time.perf_counter() - t0, 2)
    return res


# ---------------------------------------------------------------------------
# mode B: the same DFS with visited-state pruning (no preemption bound)
# ---------------------------------------------------------------------------
class StateTable:
    """Set of 64-bit state hashes in shared memory (open addressing), written
    by all forked workers without locks.  add(h) -> True iff h was not there.
    A race can only lose an entry or let two workers both see 'new' - then a
    state is expanded twice; it can never report an unseen state as seen,
    which is what the soundness of the pruning needs (aligned 8-byte stores
    are atomic; a slot only ever holds 0 or a complete hash)."""

    def __init__(self, bits=22):
        import ctypes
        self.size = 1 << bits
        self.mask = self.size - 1
        self.slots = multiprocessing.RawArray(ctypes.c_uint64, self.size)
        self.added = 0

    def add(self, h):
        h &= 0xFFFFFFFFFFFFFFFF
        if h == 0:
            h = 1
        slots = self.slots
        i = (h ^ (h >> 29)) & self.mask
        probes = 0
        while True:
            v = slots[i]
            if v == h:
                return False
            if v == 0:
                slots[i] = h
                self.added += 1
                return True
            i = (i + 1) & self.mask
            probes += 1
            if probes > 4096:
                raise HarnessError('state table full')

    def count(self):
        import numpy as np
        return int(np.count_nonzero(np.frombuffer(self.slots, dtype=np.uint64)))


TABLE = None         # allocated by the parent before the pool is forked


def _work_states(chunk):
    cfgname, max_dev, items, deadline, max_runs, xdel = chunk
    out = _new_out()
    out['left'] = []
    stack = list(items)
    table = TABLE
    added0 = table.added
    while stack:
        if out['runs'] >= max_runs or time.perf_counter() > deadline:
            out['left'] = stack
            break
        prefix = stack.pop()
        tr = execute(cfgname, prefix, max_dev, xdel=xdel, seen=table)
        _account(out, tr)
        n = len(tr.choices)
        # alternatives belong to the state BEFORE a step; that state is new
        # for steps plen .. (cut or the last step)
        hi = n if tr.cut is None else tr.cut + 1
        choices = bytes(tr.choices)
        for i in range(len(prefix), hi):
            total = sum(tr.opts[i])
            head = choices[:i]
            for alt in range(1, total):
                stack.append(head + bytes((alt,)))
    out['added'] = table.added - added0
    return out


def explore_states(cfgname, max_dev, workers, time_cap, log, xdel=True,
                   runs_per_chunk=250, table_bits=22):
    """Reachability over canonical states, unbounded preemptions.

    Soundness of the pruning (DESIGN 2.4): World.key() contains the whole
    shared state that the code or the oracle can observe (ephemeral nodes with
    data and owner, armed watches with the request they retry and their
    stopped flag, undelivered watch events in order, live sessions by node),
    every node's persistent local state (request directory, program counter,
    re-issue and retry queues, the service's `presence` table in insertion
    order, last reply per request), for a request in flight the tuple
    (request, `presence` at its start, every ZooKeeper call made so far with
    the node state the call found) of which the continuation of the
    deterministic handler is a function, and the oracle's own memory
    (reference table, exemptions, last writer per path, deviations used).
    Session ids are replaced by node names: the code only compares them for
    equality.  Two executions that reach the same key therefore have the same
    set of futures and the same verdicts on them, so the futures of a key are
    explored once.  Moves cost nothing here, so `last` (preemption accounting)
    is not part of the key.  All workers share one visited table; work is
    re-balanced in rounds (every worker returns its unexplored prefixes after
    a bounded number of executions)."""
    global TABLE                # pylint: disable=global-statement
    t0 = time.perf_counter()
    deadline = t0 + time_cap
    res = _new_res(cfgname, max_dev)
    res.update({'rounds': 0, 'exhaustive': False, 'expanded_twice': 0})
    TABLE = StateTable(table_bits)
    added = 0
    items = [b'']
    pool = None
    try:
        while items:
            if time.perf_counter() > deadline:
                res['caps_hit'].append(
                    '%s state search: time cap %.0fs with %d unexplored '
                    'prefixes' % (cfgname, time_cap, len(items)))
                break
            if res['rounds'] == 0 or workers <= 1 or len(items) < 2:
                # seed phase: a few executions in this process
                chunks = [(cfgname, max_dev, items, deadline,
                           30 if workers > 1 else 10 ** 9, xdel)]
                outs = (_work_states(c) for c in chunks)
            else:
                if pool is None:
                    pool = make_pool(workers)
                nchunks = min(len(items), workers * 3)
                per = runs_per_chunk if len(items) >= workers * 3 else 40
                chunks = [(cfgname, max_dev, items[k::nchunks], deadline,
                           per, xdel) for k in range(nchunks)]
                outs = pool.imap_unordered(_work_states, chunks)
            nxt = []
            for out in outs:
                _merge(res, out)
                added += out['added']
                nxt.extend(out['left'])
            res['rounds'] += 1
            items = nxt
            if res['rounds'] % 20 == 0:
                log('%s state search dev<=%d: round %d, %d executions, %d '
                    'prefixes left' % (cfgname, max_dev, res['rounds'],
                                       res['runs'], len(items)))
        else:
            res['exhaustive'] = True
    finally:
        if pool is not None:
            pool.terminate()
            pool.join()
    res['states'] = TABLE.count() + 1          # + the initial state
    res['expanded_twice'] = max(0, added - (res['states'] - 1))
    TABLE = None
    res['wall_s'] = round(time.perf_counter() - t0, 2)
    log('%s state search dev<=%d: %d states, %d executions, %d rounds, '
        '%.1fs, exhaustive=%s' % (cfgname, max_dev, res['states'],
                                  res['runs'], res['rounds'], res['wall_s'],
                                  res['exhaustive']))
    return res


class LocalTable:
    """Same interface on a plain set (replay / single process)."""

    def __init__(self):
        self.set = set()
        self.added = 0

    def add(self, h):
        if h in self.set:
            return False
        self.set.add(h)
        self.added += 1
        return True


def make_pool(workers):
    if workers <= 1:
        return None
    return multiprocessing.get_context('fork').Pool(workers)
