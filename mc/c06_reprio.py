"""C06, dynamic Loader slice: first-come means ORIGINAL arrival.

Bounded-exhaustive enumeration of every history of exactly DEPTH events over

    ('submit', p)    next instance (at most 3) appears in /scheduled with
                     manifest priority p (None = key absent) -> Loader.load_app
    ('prio', i, p)   manifest priority of instance i rewritten (what
                     masterapi.update_app_priorities does) -> Loader.load_app
    ('aprio', p)     priority of the assignment rewritten in /allocations
                     -> Loader.load_allocations + load_apps (Master's
                     'allocations' event)
    ('reload',)      Loader.load_apps (every manifest re-read)
    ('cycle',)       one real Cell.schedule()

starting from an empty cell, driving the real Loader on the in-memory backend
of mc/c06_loader.py.  After EVERY event `Allocation.utilization_queue` of the
partition is judged, after every cycle also the order handed to
`Cell._find_placements`, by the integer reference of mc/c06_model.py with

    priority   = manifest priority if present else the assignment's priority
    running    = the instance was placed by an earlier cycle
    first-come = order of the 'submit' events (never changed by a re-read).
"""

from mc import c06_model as M
from mc import c06_loader as L
from mc.vclock import CLOCK, BASE

from treadmill import scheduler as S
from treadmill.scheduler import loader as loader_mod

PRIOS = (None, 0, 3, 5)
APRIOS = (0, 3, 5)
APRIO0 = 3
MAXI = 3
DEMAND = (2, 1, 1)
NODE = [[4, 2, 2], 100, 10, None]
DEPTH = {'quick': 4, 'thorough': 5}
PREFIX = 2
LABEL = '_default'
MUST_FIRE = ('rank_adjustment_changed_under_instances',
             'priority_changed_into_class_of_later_arrival',
             'assignment_priority_changed_under_instances',
             'cycles_judged', 'reloads', 'queues_with_2plus_instances')


# The allocation's configuration is one integer: the assignment priority,
# plus 100 when its rank adjustment has been reconfigured to 0.
def _prio_of(code):
    return code % 100


def _adj_of(code):
    return NODE[2] if code < 100 else 0


def _node_of(code):
    return [NODE[0], NODE[1], _adj_of(code), NODE[3]]


def _allocations(code):
    return [{'name': 't', 'partition': LABEL,
             'memory': '%dM' % NODE[0][0], 'cpu': '%d%%' % NODE[0][1],
             'disk': '%dM' % NODE[0][2],
             'rank': NODE[1], 'rank_adjustment': _adj_of(code),
             'assignments': [{'pattern': 'p1.*',
                              'priority': _prio_of(code)}]}]


def _name(i):
    # name order is the reverse of arrival order
    return 'p1.a#%010d' % (MAXI - i)


def enabled(man, aprio):
    """Events enabled in the abstract state (manifest priorities, aprio)."""
    evs = []
    if len(man) < MAXI:
        evs += [('submit', p) for p in PRIOS]
    for i, cur in enumerate(man):
        evs += [('prio', i, p) for p in PRIOS if p != cur]
    evs += [('aprio', p) for p in APRIOS if p != _prio_of(aprio)]
    # the rank adjustment of the allocation reconfigured (10 <-> 0)
    evs += [('adj', 0 if aprio < 100 else NODE[2])]
    evs += [('reload',), ('cycle',)]
    return evs


def step_abs(man, aprio, ev):
    if ev[0] == 'submit':
        return man + (ev[1],), aprio
    if ev[0] == 'prio':
        return man[:ev[1]] + (ev[2],) + man[ev[1] + 1:], aprio
    if ev[0] == 'aprio':
        return man, ev[1] + (100 if aprio >= 100 else 0)
    if ev[0] == 'adj':
        return man, _prio_of(aprio) + (0 if ev[1] else 100)
    return man, aprio


def histories(prefix, depth):
    """Every enabled history of exactly `depth` events extending prefix."""
    man, aprio = (), APRIO0
    for ev in prefix:
        man, aprio = step_abs(man, aprio, ev)

    def rec(hist, man, aprio):
        if len(hist) == depth:
            yield hist
            return
        for ev in enabled(man, aprio):
            m2, a2 = step_abs(man, aprio, ev)
            for h in rec(hist + (ev,), m2, a2):
                yield h

    return rec(tuple(prefix), man, aprio)


def prefixes(depth):
    return list(histories((), min(PREFIX, depth)))


class World:
    def __init__(self):
        CLOCK.reset()
        self.backend = backend = L.MemBackend()
        backend.data['/allocations'] = _allocations(APRIO0)
        self.ldr = ldr = loader_mod.Loader(backend, 'top')
        ldr.load_partitions()
        ldr.load_allocations()
        self.cell = cell = ldr.cell
        srv = S.Server('srv', M.SERVER_CAP, up_since=BASE, label=LABEL)
        cell.add_node(srv)
        cell.partitions[LABEL].add(srv, None)
        self.man = ()
        self.aprio = APRIO0

    def _manifest(self, i):
        m = {'memory': '%dM' % DEMAND[0], 'cpu': '%d%%' % DEMAND[1],
             'disk': '%dM' % DEMAND[2], 'affinity': 'p1.a'}
        if self.man[i] is not None:
            m['priority'] = self.man[i]
        return m

    def apply(self, ev):
        """-> (queue, handed or None)"""
        kind = ev[0]
        self.man, self.aprio = step_abs(self.man, self.aprio, ev)
        handed = None
        if kind == 'submit':
            i = len(self.man) - 1
            self.backend.data['/scheduled/' + _name(i)] = self._manifest(i)
            self.ldr.load_app(_name(i))
        elif kind == 'prio':
            i = ev[1]
            self.backend.data['/scheduled/' + _name(i)] = self._manifest(i)
            self.ldr.load_app(_name(i))
        elif kind in ('aprio', 'adj'):
            self.backend.data['/allocations'] = _allocations(self.aprio)
            self.ldr.load_allocations()
            self.ldr.load_apps()
        elif kind == 'reload':
            self.ldr.load_apps()
        elif kind == 'cycle':
            # the running flags the reference uses are those before the cycle
            self.running_before = self.running()
            del M._HANDED[:]
            self.cell.schedule()
            if len(M._HANDED) != 1:
                raise RuntimeError('harness: %d placement passes'
                                   % len(M._HANDED))
            handed = list(M._HANDED[0])
        root = self.cell.partitions[LABEL].allocation
        queue = [(e[-1].name, e[0])
                 for e in root.utilization_queue(S.zero_capacity())]
        return queue, handed

    def running(self):
        return [1 if self.cell.apps[_name(i)].server else 0
                for i in range(len(self.man))]

    def priorities(self):
        return [self.cell.apps[_name(i)].priority
                for i in range(len(self.man))]


def run_history(hist):
    """Run one history on the real Loader; -> per step observation."""
    world = World()
    out = []
    for ev in hist:
        queue, handed = world.apply(ev)
        out.append({
            'event': list(ev), 'manifest': list(world.man),
            'assignment_priority': world.aprio,
            'model_priority': world.priorities(),
            'running': world.running(),
            'running_before_cycle': (list(world.running_before)
                                     if ev[0] == 'cycle' else None),
            'placed': [world.cell.apps[_name(i)].server
                       for i in range(len(world.man))],
            'queue': queue, 'handed': handed})
    return out


def judge_step(obs):
    """-> [(clause, site, detail)] for one step observation."""
    man = obs['manifest']
    n = len(man)
    names = [_name(i) for i in range(n)]
    code = obs['assignment_priority']
    node = _node_of(code)
    eff = [_prio_of(code) if p is None else p for p in man]
    kind = obs['event'][0]
    bad = []
    if obs['model_priority'] != eff:
        bad.append(('loader-assignment', 'Loader.load_app (re-read)',
                    {'observed': obs['model_priority'], 'expected': eff}))
    apps = [(0, eff[i], DEMAND, obs['running'][i]) for i in range(n)]
    ref = M.reference([node], apps, names)
    bad += M.judge([node], apps, names, ref, obs['queue'],
                   M.SITE_QUEUE + ' after Loader ' + kind)
    if obs['handed'] is not None:
        rb = obs['running_before_cycle']
        apps = [(0, eff[i], DEMAND, rb[i]) for i in range(n)]
        ref = M.reference([node], apps, names)
        bad += M.judge([node], apps, names, ref, obs['handed'],
                       M.SITE_HANDED + ' after Loader history',
                       dict(zip(names, obs['placed'])))
    return bad


def confirmed(hist, obs):
    if run_history(hist) != obs or run_history(hist) != obs:
        raise RuntimeError('C06 reprio harness: non-deterministic history %r'
                           % (hist,))


def chunks(tier):
    return [(tier, list(map(list, p))) for p in prefixes(DEPTH[tier])]


def describe(tier):
    depth = DEPTH[tier]
    return {
        'events': ['submit(p)', 'prio(i, p)', 'aprio(p)', 'adj(0|10)',
                   'reload', 'cycle'],
        'manifest_priority': list(PRIOS), 'assignment_priority': list(APRIOS),
        'initial_assignment_priority': APRIO0, 'instances': MAXI,
        'allocation': NODE, 'demand': list(DEMAND), 'depth': depth,
        'histories': sum(1 for _ in histories((), depth))}


def worker(chunk):
    tier, prefix = chunk
    prefix = tuple(tuple(e) for e in prefix)
    depth = DEPTH[tier]
    cases = steps = evals = entries = nontrivial = 0
    cnt = dict.fromkeys(MUST_FIRE, 0)
    viol = {}
    samples = []
    for hist in histories(prefix, depth):
        cases += 1
        obs = run_history(hist)
        interesting = False
        man, aprio = (), APRIO0
        for j, (ev, o) in enumerate(zip(hist, obs)):
            steps += 1
            evals += 1 if o['handed'] is None else 2
            entries += len(o['queue']) + len(o['handed'] or ())
            if len(o['queue']) >= 2:
                cnt['queues_with_2plus_instances'] += 1
                interesting = True
            # ---- antecedents (abstract state only)
            eff0 = [_prio_of(aprio) if p is None else p for p in man]
            man, aprio = step_abs(man, aprio, ev)
            eff1 = [_prio_of(aprio) if p is None else p for p in man]
            if ev[0] == 'adj' and man:
                cnt['rank_adjustment_changed_under_instances'] += 1
            if ev[0] in ('prio', 'aprio'):
                for i in range(len(eff0)):
                    if eff0[i] != eff1[i] and eff1[i] in eff1[i + 1:]:
                        cnt['priority_changed_into_class_of_later_arrival'] \
                            += 1
                        break
                if ev[0] == 'aprio' and eff0 != eff1[:len(eff0)]:
                    cnt['assignment_priority_changed_under_instances'] += 1
            elif ev[0] == 'reload' and man:
                cnt['reloads'] += 1
            elif ev[0] == 'cycle' and man:
                cnt['cycles_judged'] += 1
            bad = judge_step(o)
            if bad:
                sub = hist[:j + 1]
                case = {'history': [list(e) for e in sub]}
                for clause, site, detail in bad:
                    key = (clause, site)
                    if key in viol and len(
                            viol[key]['replay']['case']['history']) <= len(sub):
                        viol[key]['count'] += 1
                        continue
                    confirmed(hist, obs)
                    detail = dict(detail)
                    detail['history'] = case['history']
                    detail['steps'] = obs[:j + 1]
                    count = viol[key]['count'] + 1 if key in viol else 1
                    viol[key] = {'clause': clause, 'site': site,
                                 'detail': detail, 'count': count,
                                 'replay': {'kind': 'reprio', 'case': case}}
        if interesting:
            nontrivial += 1
        if not samples and cases % 211 == 0:
            samples.append({'reprio_history': [list(e) for e in hist],
                            'queue_after_each_event':
                                [o['queue'] for o in obs]})
    cnt['queue_entries'] = entries
    cnt['judgements'] = evals
    cnt['events_executed'] = steps
    return {'cases': cases, 'nontrivial': nontrivial, 'states': cases,
            'violations': list(viol.values()), 'samples': samples,
            'counters': cnt}


def replay_case(case):
    hist = tuple(tuple(e) for e in case['history'])
    obs = run_history(hist)
    confirmed(hist, obs)
    out = []
    seen = set()
    for j, o in enumerate(obs):
        for clause, site, detail in judge_step(o):
            if (clause, site) in seen:
                continue
            seen.add((clause, site))
            detail = dict(detail)
            detail['history'] = [list(e) for e in hist[:j + 1]]
            detail['steps'] = obs[:j + 1]
            out.append({'clause': clause, 'site': site, 'detail': detail,
                        'count': 1,
                        'replay': {'kind': 'reprio', 'case': case}})
    return out


