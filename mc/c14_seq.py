"""C14, sequential part: statex worlds over the real VipMgr / RuleMgr /
EndpointsMgr / NetworkResourceService on run-private temp directories.

Oracle = a dict reference model `entry -> owner` plus the set of live owners:

* allocate: succeeds iff the entry is free (or already the caller's where the
  API says so); every allocated IP lies in the configured network; nothing
  else in the table changes;
* release: changes the table iff the caller owns the entry (then exactly that
  entry goes);
* garbage collection: removes exactly the entries whose owner no longer exists;
* the directory listing equals the reference after every operation.

After a violation is reported the reference is re-synchronised with the
directory, so that one defect is reported where it happens and not again in
every later state.
"""
import collections
import errno
import ipaddress
import logging
import os
import shutil
import tempfile

logging.disable(logging.CRITICAL)

from mc import statex  # noqa: E402

from treadmill import endpoints  # noqa: E402
from treadmill import firewall  # noqa: E402
from treadmill import rulefile  # noqa: E402
from treadmill import vipfile  # noqa: E402
from treadmill.services import network_service  # noqa: E402

_ROOT = None


def make_root():
    """Run-private scratch root (tmpfs when available: 10x faster)."""
    global _ROOT  # pylint: disable=global-statement
    base = '/dev/shm' if os.access('/dev/shm', os.W_OK) else None
    _ROOT = tempfile.mkdtemp(prefix='verif-c14-', dir=base)
    return _ROOT


def drop_root():
    global _ROOT  # pylint: disable=global-statement
    if _ROOT:
        shutil.rmtree(_ROOT, ignore_errors=True)
    _ROOT = None


def fresh_dir():
    """A wiped per-process directory under the run-private root."""
    assert _ROOT, 'scratch root not set'
    d = os.path.join(_ROOT, 'p%d' % os.getpid())
    shutil.rmtree(d, ignore_errors=True)
    os.makedirs(d)
    return d


def listing(path):
    """{entry: basename of the link target} of a symlink directory."""
    out = {}
    for e in os.listdir(path):
        try:
            out[e] = os.path.basename(os.readlink(os.path.join(path, e)))
        except OSError:
            out[e] = '<not-a-link>'
    return out


# Container unique names `<app>-<instance id>-<13-char uniqueid>`: the first
# two are two incarnations of ONE instance (they differ only in the uniqueid),
# the third is another instance of the same application.
UNIQUE_NAMES = ['proid.app-0000000001-AAAAAAAAAAAAA',
                'proid.app-0000000001-BBBBBBBBBBBBB',
                'proid.app-0000000002-CCCCCCCCCCCCC']
# caller identities that are missing rather than wrong
EMPTY_OWNERS = [None, '']


def call(fn, *args, **kw):
    """('ok', value) or ('raise', exception type name, errno)."""
    try:
        return ('ok', fn(*args, **kw))
    except Exception as exc:  # pylint: disable=broad-except
        return ('raise', type(exc).__name__,
                errno.errorcode.get(getattr(exc, 'errno', None)))


class Base:
    """Common bookkeeping: reference table, live owners, comparison."""
    KIND = '?'

    def __init__(self, cfg):
        self.cfg = cfg
        self.viol = []
        self.stats = collections.Counter()
        self.dir = fresh_dir()
        self.ref = {}
        self.live = set()
        self.owner_dir = None    # set by subclass
        self.table_dir = None

    # harness side of owners ------------------------------------------------
    def owner_path(self, o):
        return os.path.join(self.owner_dir, o)

    def appear(self, o):
        if o not in self.live:
            os.mkdir(self.owner_path(o))
            self.live.add(o)

    def vanish(self, o):
        if o in self.live:
            os.rmdir(self.owner_path(o))
            self.live.discard(o)

    # comparison ------------------------------------------------------------
    def actual(self):
        return listing(self.table_dir)

    def report(self, clause, site, ev, **detail):
        detail['event'] = list(ev)
        self.viol.append({'clause': clause, 'site': site, 'detail': detail})

    def settle(self, ev, site, kind, expected, **ctx):
        """Compare the directory with the expected table; classify."""
        act = self.actual()
        if act != expected:
            gone = sorted(set(expected.items()) - set(act.items()))
            extra = sorted(set(act.items()) - set(expected.items()))
            live = sorted(self.live)
            if kind == 'gc':
                if any(o in self.live for _e, o in gone):
                    self.report('gc-removed-entry-of-live-owner', site, ev,
                                removed=gone, live=live)
                if any(o not in self.live for _e, o in extra):
                    self.report('gc-kept-entry-of-dead-owner', site, ev,
                                kept=extra, live=live)
                if not (any(o in self.live for _e, o in gone) or
                        any(o not in self.live for _e, o in extra)):
                    self.report('listing-differs-from-reference', site, ev,
                                missing=gone, extra=extra)
            elif kind == 'release':
                caller = ctx.get('caller')
                if any(o != caller for _e, o in gone):
                    self.report('release-by-non-owner-changed-table', site,
                                ev, removed=gone, caller=caller)
                elif extra and not gone:
                    self.report('release-by-owner-had-no-effect', site, ev,
                                kept=extra, caller=caller)
                else:
                    self.report('listing-differs-from-reference', site, ev,
                                missing=gone, extra=extra)
            elif kind == 'allocate':
                self.report('allocate-table-differs-from-reference', site, ev,
                            missing=gone, extra=extra,
                            outcome=ctx.get('outcome'))
            elif kind == 'filtered':
                addressed = ctx['addressed']
                caller = ctx.get('caller')
                stray = [(e, o) for e, o in gone if e not in addressed]
                others = [(e, o) for e, o in gone if e in addressed and
                          caller is not None and o != caller]
                if stray:
                    self.report('release-removed-entry-not-addressed', site,
                                ev, removed=stray, addressed=sorted(addressed),
                                caller=caller)
                if others:
                    self.report('release-by-non-owner-changed-table', site,
                                ev, removed=others, caller=caller)
                if extra and not gone:
                    self.report('release-by-owner-had-no-effect', site, ev,
                                kept=extra, caller=caller)
                if not (stray or others or (extra and not gone)):
                    self.report('listing-differs-from-reference', site, ev,
                                missing=gone, extra=extra)
            elif kind == 'reset':
                # initialize() is the documented reset of the pool's OWN
                # addresses; anything else it removes is a release by a
                # non-owner
                if gone:
                    self.report('initialize-removed-entry-outside-its-network',
                                site, ev, removed=gone,
                                network=ctx.get('network'),
                                removed_live=[o in self.live
                                              for _e, o in gone])
                if extra:
                    self.report('initialize-kept-entry-of-its-network', site,
                                ev, kept=extra, network=ctx.get('network'))
            else:
                self.report('listing-differs-from-reference', site, ev,
                            missing=gone, extra=extra)
        # never two owners: a symlink has one target; the reference catches a
        # second successful allocate.  Re-synchronise after a report.
        self.ref = act

    def check_allocate(self, ev, site, entry, owner, out, own_ok):
        """Generic allocate of a *named* entry.
        own_ok: None = either outcome fine when already the caller's,
                True = API promises success."""
        holder = self.ref.get(entry)
        expected = dict(self.ref)
        ok = out[0] == 'ok'
        if holder is None:
            self.stats['alloc_free'] += 1
            if ok:
                expected[entry] = owner
            else:
                self.report('allocate-refused-although-free', site, ev,
                            entry=entry, owner=owner, outcome=out)
        elif holder == owner:
            self.stats['alloc_own'] += 1
            if not ok and own_ok:
                self.report('allocate-of-own-entry-refused', site, ev,
                            entry=entry, owner=owner, outcome=out)
        else:
            self.stats['alloc_contended'] += 1
            if ok:
                self.report('allocate-succeeded-on-entry-held-by-other', site,
                            ev, entry=entry, holder=holder, caller=owner,
                            holder_live=holder in self.live)
        self.settle(ev, site, 'allocate', expected, outcome=out)

    def check_release(self, ev, site, entries, owner, out):
        """Release of `entries` in the name of `owner`."""
        expected = dict(self.ref)
        for e in entries:
            holder = self.ref.get(e)
            if holder is None:
                self.stats['release_unallocated'] += 1
            elif holder == owner:
                self.stats['release_by_owner'] += 1
                del expected[e]
            else:
                self.stats['release_by_non_owner'] += 1
                if not owner:
                    self.stats['release_with_empty_owner_of_held_entry'] += 1
        if out[0] != 'ok':
            self.stats['release_raised'] += 1
        self.settle(ev, site, 'release', expected, caller=owner)

    def check_gc(self, ev, site, out):
        expected = {e: o for e, o in self.ref.items() if o in self.live}
        if len(expected) != len(self.ref):
            self.stats['gc_with_orphans'] += 1
        if expected:
            self.stats['gc_with_live_entries'] += 1
        if out[0] != 'ok':
            self.stats['gc_raised'] += 1
        self.settle(ev, site, 'gc', expected)

    def canon(self):
        return (self.KIND, tuple(sorted(self.actual().items())),
                tuple(sorted(self.live))) + self.extra_canon()

    def extra_canon(self):
        return ()

    def common_event(self, ev):
        if ev[0] == 'appear':
            self.appear(ev[1])
            self.settle(ev, 'harness', 'env', dict(self.ref))
            return True
        if ev[0] == 'vanish':
            self.vanish(ev[1])
            self.settle(ev, 'harness', 'env', dict(self.ref))
            return True
        return False


# ---------------------------------------------------------------------------
class VipWorld(Base):
    """Real VipMgr on <dir>/vips with owners under <dir>/resources."""
    KIND = 'vip'

    def __init__(self, cfg):
        super().__init__(cfg)
        self.owner_dir = os.path.join(self.dir, 'resources')
        self.table_dir = os.path.join(self.dir, 'vips')
        os.mkdir(self.owner_dir)
        self.net = ipaddress.IPv4Network(cfg['cidr'])
        self.hosts = [str(h) for h in self.net.hosts()]
        self.mgr = vipfile.VipMgr(cfg['cidr'], self.table_dir, self.owner_dir)
        for o in cfg.get('initial_live', cfg['owners']):
            self.appear(o)

    def in_net(self, ip):
        try:
            return ipaddress.IPv4Address(ip) in self.net
        except ValueError:
            return False

    def apply(self, ev):
        if self.common_event(ev):
            return
        kind = ev[0]
        if kind == 'alloc':
            o = ev[1]
            site = 'VipMgr.alloc'
            out = call(self.mgr.alloc, o)
            free = [h for h in self.hosts if h not in self.ref]
            expected = dict(self.ref)
            if out[0] == 'ok':
                ip = out[1]
                if not self.in_net(ip):
                    self.report('allocated-ip-outside-network', site, ev,
                                ip=ip, cidr=self.cfg['cidr'])
                if ip in self.ref:
                    self.report('allocate-succeeded-on-entry-held-by-other',
                                site, ev, entry=ip, holder=self.ref[ip],
                                caller=o,
                                holder_live=self.ref[ip] in self.live)
                else:
                    expected[ip] = o
                self.stats['alloc_any_ok'] += 1
            else:
                if free:
                    self.report('allocate-refused-although-free', site, ev,
                                free=free, owner=o, outcome=out)
                else:
                    self.stats['alloc_exhausted'] += 1
            self.settle(ev, site, 'allocate', expected, outcome=out)
        elif kind == 'pick':
            o, ip = ev[1], ev[2]
            site = 'VipMgr.alloc'
            out = call(self.mgr.alloc, o, ip)
            if not self.in_net(ip):
                self.stats['pick_outside'] += 1
                if out[0] == 'ok':
                    self.report('allocated-ip-outside-network', site, ev,
                                ip=ip, cidr=self.cfg['cidr'])
                    exp = dict(self.ref)
                    exp[ip] = o
                    self.settle(ev, site, 'allocate', exp, outcome=out)
                else:
                    self.settle(ev, site, 'allocate', dict(self.ref),
                                outcome=out)
            else:
                if out[0] == 'ok' and out[1] != ip:
                    self.report('allocate-returned-other-entry', site, ev,
                                asked=ip, got=out[1])
                self.check_allocate(ev, site, ip, o, out, own_ok=None)
        elif kind == 'free':
            o, ip = ev[1], ev[2]
            out = call(self.mgr.free, o, ip)
            self.check_release(ev, 'VipMgr.free', [ip], o, out)
        elif kind == 'gc':
            out = call(self.mgr.garbage_collect)
            self.check_gc(ev, 'VipMgr.garbage_collect', out)
        elif kind == 'init':
            out = call(self.mgr.initialize)
            # documented reset: "remove any IP we own from our base path"
            expected = {e: o for e, o in self.ref.items()
                        if not self.in_net(e)}
            self.stats['init'] += 1
            self.settle(ev, 'VipMgr.initialize', 'reset', expected,
                        network=self.cfg['cidr'])
        else:
            raise statex.HarnessError('unknown event %r' % (ev,))

    def enabled(self):
        return self.cfg['events']


def vip_cfg(cidr, owners, picks):
    evs = []
    for o in owners:
        evs.append(('alloc', o))
    for o in owners:
        for ip in picks:
            evs.append(('pick', o, ip))
    for o in owners:
        for ip in picks:
            evs.append(('free', o, ip))
    for o in EMPTY_OWNERS:
        for ip in picks[:2]:
            evs.append(('free', o, ip))
    for o in owners:
        evs.append(('vanish', o))
        evs.append(('appear', o))
    evs += [('gc',), ('init',)]
    return {'kind': 'vip', 'cidr': cidr, 'owners': list(owners),
            'picks': list(picks), 'events': evs}


# ---------------------------------------------------------------------------
class VipPoolsWorld(Base):
    """Several real VipMgr pools with disjoint CIDRs sharing ONE vips
    directory and one owners directory (the way warpgate/policy_server
    _init_networks sets them up).  The reference table is the one directory;
    every operation is judged against the pool it was issued on: alloc(pool)
    hands out a free host of THAT pool's network, initialize(pool) may remove
    only addresses of THAT pool's network."""
    KIND = 'vips'

    def __init__(self, cfg):
        super().__init__(cfg)
        self.owner_dir = os.path.join(self.dir, 'sessions')
        self.table_dir = os.path.join(self.dir, 'vips')
        os.mkdir(self.owner_dir)
        self.nets = [ipaddress.IPv4Network(c) for c in cfg['cidrs']]
        self.hosts = [[str(h) for h in n.hosts()] for n in self.nets]
        self.mgrs = [vipfile.VipMgr(c, self.table_dir, self.owner_dir)
                     for c in cfg['cidrs']]
        for o in cfg['owners']:
            self.appear(o)

    def apply(self, ev):
        if self.common_event(ev):
            return
        kind = ev[0]
        if kind == 'alloc':
            k, o = ev[1], ev[2]
            site = 'VipMgr.alloc'
            out = call(self.mgrs[k].alloc, o)
            free = [h for h in self.hosts[k] if h not in self.ref]
            expected = dict(self.ref)
            if out[0] == 'ok':
                ip = out[1]
                if ipaddress.IPv4Address(ip) not in self.nets[k]:
                    self.report('allocated-ip-outside-network', site, ev,
                                ip=ip, cidr=self.cfg['cidrs'][k])
                if ip in self.ref:
                    self.report('allocate-succeeded-on-entry-held-by-other',
                                site, ev, entry=ip, holder=self.ref[ip],
                                caller=o,
                                holder_live=self.ref[ip] in self.live)
                else:
                    expected[ip] = o
                self.stats['alloc_any_ok'] += 1
                if any(e not in self.hosts[k] for e in self.ref):
                    self.stats['alloc_next_to_other_pool'] += 1
            elif free:
                self.report('allocate-refused-although-free', site, ev,
                            free=free, owner=o, outcome=out)
            else:
                self.stats['alloc_exhausted'] += 1
            self.settle(ev, site, 'allocate', expected, outcome=out)
        elif kind == 'free':
            k, o, ip = ev[1], ev[2], ev[3]
            out = call(self.mgrs[k].free, o, ip)
            self.check_release(ev, 'VipMgr.free', [ip], o, out)
        elif kind == 'gc':
            out = call(self.mgrs[ev[1]].garbage_collect)
            self.check_gc(ev, 'VipMgr.garbage_collect', out)
        elif kind == 'init':
            k = ev[1]
            call(self.mgrs[k].initialize)
            expected = {e: o for e, o in self.ref.items()
                        if ipaddress.IPv4Address(e) not in self.nets[k]}
            self.stats['init'] += 1
            if expected:
                self.stats['init_while_other_pool_holds'] += 1
            if any(o in self.live for o in expected.values()):
                self.stats['init_while_other_pool_has_live_owner'] += 1
            self.settle(ev, 'VipMgr.initialize', 'reset', expected,
                        network=self.cfg['cidrs'][k])
        else:
            raise statex.HarnessError('unknown event %r' % (ev,))

    def enabled(self):
        return self.cfg['events']


def vip_pools_cfg(cidrs, owners):
    evs = []
    firsts = [str(next(ipaddress.IPv4Network(c).hosts())) for c in cidrs]
    for k in range(len(cidrs)):
        for o in owners:
            evs.append(('alloc', k, o))
    for k in range(len(cidrs)):
        evs.append(('init', k))
    for k in range(len(cidrs)):
        for o in owners:
            for ip in firsts:
                evs.append(('free', k, o, ip))
    for o in owners:
        evs.append(('vanish', o))
        evs.append(('appear', o))
    evs.append(('gc', 0))
    return {'kind': 'vips', 'cidrs': list(cidrs), 'owners': list(owners),
            'events': evs}


# ---------------------------------------------------------------------------
def rule_menu():
    """DNAT, SNAT and passthrough rules whose file names collide as far as
    the three patterns allow (same chain, same fields, only the kind token
    differs)."""
    return [
        ('TM_X', firewall.DNATRule(proto='tcp', dst_ip='10.0.0.1',
                                   dst_port=5000, new_ip='192.168.0.2',
                                   new_port=8000)),
        ('TM_X', firewall.SNATRule(proto='tcp', dst_ip='10.0.0.1',
                                   dst_port=5000, new_ip='192.168.0.2',
                                   new_port=8000)),
        ('TM_X', firewall.PassThroughRule(src_ip='10.0.0.1',
                                          dst_ip='192.168.0.2')),
    ]


class RuleWorld(Base):
    """Real RuleMgr on <dir>/rules with owners under <dir>/apps."""
    KIND = 'rule'

    def __init__(self, cfg):
        super().__init__(cfg)
        self.owner_dir = os.path.join(self.dir, 'apps')
        self.table_dir = os.path.join(self.dir, 'rules')
        os.mkdir(self.owner_dir)
        os.mkdir(self.table_dir)
        self.rules = rule_menu()
        self.names = [rulefile.RuleMgr._filenameify(c, r)
                      for c, r in self.rules]
        assert len(set(self.names)) == len(self.names)
        self.mgr = rulefile.RuleMgr(self.table_dir, self.owner_dir)
        for o in cfg.get('initial_live', cfg['owners']):
            self.appear(o)

    def apply(self, ev):
        if self.common_event(ev):
            return
        kind = ev[0]
        if kind == 'create':
            i, o = ev[1], ev[2]
            chain, rule = self.rules[i]
            out = call(self.mgr.create_rule, chain=chain, rule=rule, owner=o)
            self.check_allocate(ev, 'RuleMgr.create_rule', self.names[i], o,
                                out, own_ok=True)
        elif kind == 'unlink':
            i, o = ev[1], ev[2]
            chain, rule = self.rules[i]
            out = call(self.mgr.unlink_rule, chain=chain, rule=rule, owner=o)
            self.check_release(ev, 'RuleMgr.unlink_rule', [self.names[i]], o,
                               out)
        elif kind == 'gc':
            out = call(self.mgr.garbage_collect)
            self.check_gc(ev, 'RuleMgr.garbage_collect', out)
        elif kind == 'init':
            call(self.mgr.initialize)
            self.stats['init'] += 1
            self.settle(ev, 'RuleMgr.initialize', 'reset', {})
        else:
            raise statex.HarnessError('unknown event %r' % (ev,))

    def enabled(self):
        return self.cfg['events']


def rule_cfg(owners):
    evs = []
    for i in range(3):
        for o in owners:
            evs.append(('create', i, o))
    for i in range(3):
        for o in owners:
            evs.append(('unlink', i, o))
    for i in range(3):
        for o in EMPTY_OWNERS:
            evs.append(('unlink', i, o))
    for o in owners:
        evs.append(('vanish', o))
        evs.append(('appear', o))
    evs += [('gc',), ('init',)]
    return {'kind': 'rule', 'owners': list(owners), 'events': evs}


# ---------------------------------------------------------------------------
SPECS = [
    # appname, proto, endpoint, real_port, pid, port
    ('proid.a#1', 'tcp', 'http', 5000, 4242, 8000),
    ('proid.a#1', 'udp', 'http', 5000, 4242, 8000),
    ('proid.b#2', 'tcp', 'http', 5001, 4242, 8000),
]


class SpecWorld(Base):
    """Real EndpointsMgr on <dir>/endpoints; an owner is a path under
    <dir>/apps (the container directory, as _run passes it)."""
    KIND = 'spec'

    def __init__(self, cfg):
        super().__init__(cfg)
        self.owner_dir = os.path.join(self.dir, 'apps')
        self.table_dir = os.path.join(self.dir, 'endpoints')
        os.mkdir(self.owner_dir)
        self.mgr = endpoints.EndpointsMgr(self.table_dir)
        self.names = [endpoints._namify(*s) for s in SPECS]
        for o in cfg.get('initial_live', cfg['owners']):
            self.appear(o)

    def _kw(self, i):
        a, p, e, rp, pid, port = SPECS[i]
        return dict(appname=a, proto=p, endpoint=e, real_port=rp, pid=pid,
                    port=port)

    def apply(self, ev):
        if self.common_event(ev):
            return
        kind = ev[0]
        if kind == 'create':
            i, o = ev[1], ev[2]
            out = call(self.mgr.create_spec, owner=self.owner_path(o),
                       **self._kw(i))
            self.check_allocate(ev, 'EndpointsMgr.create_spec', self.names[i],
                                o, out, own_ok=None)
        elif kind == 'unlink':
            i, o = ev[1], ev[2]
            out = call(self.mgr.unlink_spec, owner=self.owner_path(o),
                       **self._kw(i))
            self.check_release(ev, 'EndpointsMgr.unlink_spec',
                               [self.names[i]], o, out)
        elif kind == 'unlink_all':
            app, proto, o = ev[1], ev[2], ev[3]
            # _finish passes the owner's *name* here
            out = call(self.mgr.unlink_all, app, proto=proto, owner=o)
            matching = [n for n, s in zip(self.names, SPECS)
                        if s[0] == app and proto in (None, s[1])]
            self.check_release(ev, 'EndpointsMgr.unlink_all', matching, o,
                               out)
        elif kind == 'gc':
            out = call(endpoints.garbage_collect, self.table_dir)
            self.check_gc(ev, 'endpoints.garbage_collect', out)
        elif kind == 'init':
            call(self.mgr.initialize)
            self.stats['init'] += 1
            self.settle(ev, 'EndpointsMgr.initialize', 'reset', {})
        else:
            raise statex.HarnessError('unknown event %r' % (ev,))

    def enabled(self):
        return self.cfg['events']


FSPECS = [
    # one appname, endpoint names that are prefixes of each other, plus an
    # appname that has the first one as a prefix
    ('proid.a#1', 'tcp', 'http', 5000, 4242, 8000),
    ('proid.a#1', 'tcp', 'https', 5001, 4242, 8443),
    ('proid.a#1', 'udp', 'http', 5002, 4242, 8000),
    ('proid.a#10', 'tcp', 'http', 5003, 4242, 8000),
]
FILTERS = [(None, None), ('tcp', None), ('tcp', 'http'), (None, 'http'),
           ('udp', 'http'), ('tcp', 'https')]


class SpecFilterWorld(Base):
    """Real EndpointsMgr: the filtered forms of unlink_all
    (proto= / endpoint=), with owner= (a container finishing) and without
    (how the tickets / keytabs / nodeinfo services purge their own stale
    specs).  Reference: a filtered unlink_all removes exactly the specs whose
    app, proto and endpoint EQUAL the filter and, when owner= is given, whose
    owner is the caller."""
    KIND = 'fspec'

    def __init__(self, cfg):
        super().__init__(cfg)
        self.owner_dir = os.path.join(self.dir, 'apps')
        self.table_dir = os.path.join(self.dir, 'endpoints')
        os.mkdir(self.owner_dir)
        self.mgr = endpoints.EndpointsMgr(self.table_dir)
        self.names = [endpoints._namify(*f) for f in FSPECS]
        for o in cfg['owners']:
            self.appear(o)

    def apply(self, ev):
        kind = ev[0]
        if kind == 'create':
            i, o = ev[1], ev[2]
            a, p, e, rp, pid, port = FSPECS[i]
            out = call(self.mgr.create_spec, appname=a, proto=p, endpoint=e,
                       real_port=rp, pid=pid, port=port,
                       owner=self.owner_path(o))
            self.check_allocate(ev, 'EndpointsMgr.create_spec', self.names[i],
                                o, out, own_ok=None)
        elif kind == 'unlink':
            # ownerless unlink_spec (owner=None): the documented mode of the
            # host services / Windows, a purge of exactly the named spec
            i = ev[1]
            a, p, e, rp, pid, port = FSPECS[i]
            out = call(self.mgr.unlink_spec, appname=a, proto=p, endpoint=e,
                       real_port=rp, pid=pid, port=port, owner=None)
            self.stats['ownerless_release'] += 1
            expected = {n: h for n, h in self.ref.items()
                        if n != self.names[i]}
            self.settle(ev, 'EndpointsMgr.unlink_spec', 'filtered', expected,
                        addressed={self.names[i]}, caller=None)
        elif kind == 'unlink_all':
            app, proto, endpoint, o = ev[1], ev[2], ev[3], ev[4]
            out = call(self.mgr.unlink_all, app, proto=proto,
                       endpoint=endpoint, owner=o)
            addressed = {n for n, f in zip(self.names, FSPECS)
                         if f[0] == app and proto in (None, f[1]) and
                         endpoint in (None, f[2])}
            expected = {e: h for e, h in self.ref.items()
                        if not (e in addressed and o in (None, h))}
            held = [e for e in self.ref if e in addressed]
            if held and len(self.ref) > len(held):
                self.stats['filtered_release_next_to_unaddressed'] += 1
            if o is None:
                self.stats['ownerless_release'] += 1
            elif any(self.ref[e] != o for e in held):
                self.stats['release_by_non_owner'] += 1
            if out[0] != 'ok':
                self.stats['release_raised'] += 1
            self.settle(ev, 'EndpointsMgr.unlink_all', 'filtered', expected,
                        addressed=addressed, caller=o)
        else:
            raise statex.HarnessError('unknown event %r' % (ev,))

    def enabled(self):
        return self.cfg['events']


def spec_filter_cfg(owners):
    evs = []
    for i in range(len(FSPECS)):
        for o in owners:
            evs.append(('create', i, o))
    for i in range(len(FSPECS)):
        evs.append(('unlink', i, None))
    for proto, endpoint in FILTERS:
        for o in [None] + list(owners):
            evs.append(('unlink_all', 'proid.a#1', proto, endpoint, o))
    return {'kind': 'fspec', 'owners': list(owners), 'events': evs}


def spec_cfg(owners):
    evs = []
    for i in range(len(SPECS)):
        for o in owners:
            evs.append(('create', i, o))
    for i in range(len(SPECS)):
        for o in owners:
            evs.append(('unlink', i, o))
    for app in ('proid.a#1', 'proid.b#2'):
        for o in owners:
            evs.append(('unlink_all', app, None, o))
    for o in owners:
        evs.append(('unlink_all', 'proid.a#1', 'tcp', o))
    for o in owners:
        evs.append(('vanish', o))
        evs.append(('appear', o))
    evs += [('gc',), ('init',)]
    return {'kind': 'spec', 'owners': list(owners), 'events': evs}


# ---------------------------------------------------------------------------
class _CalledProcessError(Exception):
    def __init__(self, returncode=1, cmd=None):
        super().__init__(returncode, cmd)
        self.returncode = returncode
        self.cmd = cmd


class FakeSubproc:
    CalledProcessError = _CalledProcessError


class FakeNetdev:
    """Recorder with the minimal kernel semantics the service reads back:
    devices exist after link_add_veth until link_del_veth, carry an alias, sit
    on the bridge after bridge_addif.  Survives a service restart."""

    def __init__(self):
        self.devs = {}
        self.bridge = []
        self.calls = 0

    def __getattr__(self, name):
        def _rec(*_a, **_kw):
            self.calls += 1
        return _rec

    def dev_mtu(self, _dev):
        return 9000

    def dev_speed(self, _dev):
        return 10000

    def dev_mac(self, _dev):
        return '00:00:00:00:00:01'

    def dev_alias(self, dev):
        return self.devs[dev]['alias']

    def bridge_brif(self, _br):
        return list(self.bridge) + ['tm1']

    def link_add_veth(self, veth0, veth1):
        if veth0 in ('tm0', 'tm1'):
            return
        if veth0 in self.devs:
            raise _CalledProcessError(2, 'ip link add %s' % veth0)
        self.devs[veth0] = {'alias': None, 'peer': veth1}
        self.devs[veth1] = {'alias': None, 'peer': veth0}

    def link_set_alias(self, dev, alias):
        self.devs[dev]['alias'] = alias

    def bridge_addif(self, _br, dev):
        if dev not in self.bridge and dev != 'tm1':
            self.bridge.append(dev)

    def dev_state(self, dev):
        if dev not in self.devs:
            raise OSError(errno.ENOENT, 'no such device', dev)
        return 'up'

    def link_del_veth(self, dev):
        d = self.devs.pop(dev, None)
        if d:
            self.devs.pop(d['peer'], None)
        if dev in self.bridge:
            self.bridge.remove(dev)


class FakeIptables:
    """ip-sets as sets (recorder); constants from the real module."""

    def __init__(self):
        from treadmill import iptables as real
        self.SET_NONPROD_CONTAINERS = real.SET_NONPROD_CONTAINERS
        self.SET_PROD_CONTAINERS = real.SET_PROD_CONTAINERS
        self.sets = {}

    def create_set(self, name, **_kw):
        self.sets.setdefault(name, set())

    def atomic_set(self, name, content, **_kw):
        self.sets[name] = set(content)

    def add_ip_set(self, name, ip):
        self.sets.setdefault(name, set()).add(ip)

    def rm_ip_set(self, name, ip):
        self.sets.setdefault(name, set()).discard(ip)

    def test_ip_set(self, name, ip):
        return ip in self.sets.get(name, ())


RSRC = ['proid.app-0000000001-000000000000a',
        'proid.app-0000000001-000000000000b',
        'proid.app-0000000002-000000000000c']
RSRC_ENV = {RSRC[0]: 'dev', RSRC[1]: 'prod', RSRC[2]: 'dev'}


class NetSvcWorld(Base):
    """Real NetworkResourceService (small CIDR through a subclass attribute)
    with netdev / iptables / subproc replaced by recorders.  Owners are the
    request links under <svc>/resources."""
    KIND = 'netsvc'

    def __init__(self, cfg):
        super().__init__(cfg)
        self.svc_dir = os.path.join(self.dir, 'svc')
        os.mkdir(self.svc_dir)
        self.owner_dir = os.path.join(self.svc_dir, 'resources')
        self.table_dir = os.path.join(self.svc_dir, 'vips')
        self.net = ipaddress.IPv4Network(cfg['cidr'])
        self.hosts = [str(h) for h in self.net.hosts()]
        self.netdev = FakeNetdev()
        self.iptables = FakeIptables()
        self.install()
        self.cls = type(str('Svc'), (network_service.NetworkResourceService,),
                        {'_TM_CIDR': cfg['cidr'], '__slots__': ()})
        self.svc = None
        self.vip_of = {}       # what the service told each requestor
        self.start_service()
        call(self.svc.synchronize)

    def install(self):
        """Put the fakes at the module seams of network_service (a subclass
        may wrap them, see mc/c14_flt.py)."""
        network_service.netdev = self.netdev
        network_service.iptables = self.iptables
        network_service.subproc = FakeSubproc

    def start_service(self):
        self.install()
        self.svc = self.cls(ext_device='eth0', ext_ip='10.0.0.1',
                            ext_mtu=9000, ext_speed=10000)
        self.svc.initialize(self.svc_dir)

    def owners_of(self, r):
        return [ip for ip, o in self.ref.items() if o == r]

    def do_create(self, ev, r, site):
        held = self.owners_of(r)
        free = [h for h in self.hosts if h not in self.ref]
        out = call(self.svc.on_create_request, r,
                   {'environment': RSRC_ENV[r]})
        expected = dict(self.ref)
        if out[0] == 'ok':
            ip = out[1]['vip']
            if ipaddress.IPv4Address(ip) not in self.net:
                self.report('allocated-ip-outside-network', site, ev, ip=ip,
                            cidr=self.cfg['cidr'])
            if held:
                self.stats['create_again'] += 1
                if ip not in held:
                    self.report('repeated-request-got-another-ip', site, ev,
                                held=held, got=ip, rsrc=r)
                    if ip in self.ref:
                        self.report(
                            'allocate-succeeded-on-entry-held-by-other', site,
                            ev, entry=ip, holder=self.ref[ip], caller=r,
                            holder_live=self.ref[ip] in self.live)
                    else:
                        expected[ip] = r
            else:
                self.stats['create_new'] += 1
                if ip in self.ref:
                    self.report('allocate-succeeded-on-entry-held-by-other',
                                site, ev, entry=ip, holder=self.ref[ip],
                                caller=r,
                                holder_live=self.ref[ip] in self.live)
                else:
                    expected[ip] = r
            self.vip_of[r] = ip
        else:
            if held or free:
                self.report('allocate-refused-although-free', site, ev,
                            free=free, held=held, rsrc=r, outcome=out)
            else:
                self.stats['create_exhausted'] += 1
        self.settle(ev, site, 'allocate', expected, outcome=out)

    def apply(self, ev):
        self.install()
        kind = ev[0]
        if kind == 'create':
            r = ev[1]
            self.appear(r)
            self.do_create(ev, r, 'NetworkResourceService.on_create_request')
        elif kind == 'delete':
            r = ev[1]
            self.vanish(r)
            out = call(self.svc.on_delete_request, r)
            self.vip_of.pop(r, None)
            self.check_release(
                ev, 'NetworkResourceService.on_delete_request',
                self.owners_of(r), r, out)
        elif kind == 'restart':
            gone = [r for k, r in enumerate(RSRC) if ev[1] >> k & 1]
            for r in gone:
                self.vanish(r)
                self.vip_of.pop(r, None)
            self.stats['restart'] += 1
            if any(self.owners_of(r) for r in gone):
                self.stats['restart_with_owner_gone'] += 1
            self.start_service()
            # ResourceService._run: existing requests first, then synchronize
            for r in sorted(self.live):
                self.do_create(
                    ev, r,
                    'NetworkResourceService.initialize+on_create_request')
            out = call(self.svc.synchronize)
            self.check_gc(ev, 'NetworkResourceService.synchronize', out)
        else:
            raise statex.HarnessError('unknown event %r' % (ev,))

    def enabled(self):
        evs = []
        n = self.cfg['n']
        for r in RSRC[:n]:
            evs.append(('create', r))
        for r in RSRC[:n]:
            evs.append(('delete', r))
        holders = sum(1 << k for k, r in enumerate(RSRC[:n])
                      if r in self.live)
        for mask in range(1 << n):
            if mask & ~holders:
                continue
            evs.append(('restart', mask))
        return evs

    def extra_canon(self):
        devs = tuple(sorted(
            (name, d.get('ip'), 'device' in d, d.get('environment'),
             bool(d.get('stale')))
            for name, d in self.svc._devices.items()))
        kern = tuple(sorted((name, d['alias'])
                            for name, d in self.netdev.devs.items()))
        sets = tuple(sorted((name, tuple(sorted(ips)))
                            for name, ips in self.iptables.sets.items()))
        return (devs, tuple(sorted(self.netdev.bridge)), kern, sets)


def netsvc_cfg(cidr, n):
    return {'kind': 'netsvc', 'cidr': cidr, 'n': n, 'owners': RSRC[:n],
            'events': None}


WORLDS = {'vip': VipWorld, 'vips': VipPoolsWorld, 'rule': RuleWorld,
          'spec': SpecWorld, 'fspec': SpecFilterWorld,
          'netsvc': NetSvcWorld}


class Spec(statex.Spec):
    def __init__(self, cfg):
        self.cfg = cfg

    def new_world(self):
        return WORLDS[self.cfg['kind']](self.cfg)

    def apply(self, world, event):
        world.apply(tuple(event))

    def enabled(self, world):
        return world.enabled()

    def canon(self, world):
        return world.canon()

    def dev_cost(self, event):
        # 'create!' / 'delete!': one external call of the operation fails
        return 1 if event and str(event[0]).endswith('!') else 0
