"""C06, second slice: allocation and priority as chosen by the real Loader.

`Loader.load_partitions / load_allocations / load_app / find_assignment` run on
an in-memory backend (get / get_default / list are all Loader needs here).
Every population of instances (name pattern x manifest priority x
running/pending, all arrival orders) is loaded one by one in arrival order;
the reference says which allocation and which priority each instance must end
up with (manifest priority unless absent or -1, else the priority of the
matching assignment, else 1 in `_default/<proid>` of the default partition),
and the per-partition queues are then judged by the same statement-derived
reference as the tree sweep (mc/c06_model.py).
"""
import itertools

from mc import c06_model as M
from mc.vclock import CLOCK, BASE

from treadmill import scheduler as S
from treadmill.scheduler import backend as be
from treadmill.scheduler import loader as loader_mod

ALLOCATIONS = [
    {'name': 't1', 'partition': '_default',
     'memory': '4M', 'cpu': '2%', 'disk': '2M',
     'rank': 100, 'rank_adjustment': 10,
     'assignments': [{'pattern': 'p1.db*', 'priority': 10},
                     {'pattern': 'p1.batch*', 'priority': 0}]},
    {'name': 't1/web', 'partition': '_default',
     'memory': '2M', 'cpu': '2%', 'disk': '2M',
     'rank': 100, 'rank_adjustment': 10, 'max_utilization': 1,
     'assignments': [{'pattern': 'p1.web*', 'priority': 50}]},
    {'name': 't2', 'partition': 'part2',
     'memory': '2M', 'cpu': '2%', 'disk': '2M',
     'rank': 0, 'rank_adjustment': 0, 'max_utilization': 2,
     'assignments': [{'pattern': 'p3.*', 'priority': 20}]},
    # rank adjustment larger than the rank (both 0..100 in the schema): the
    # instance within this reservation has rank 5 - 10 = -5 and comes before
    # the rank-0 tenant t2 of the same partition
    {'name': 't3', 'partition': 'part2',
     'memory': '2M', 'cpu': '2%', 'disk': '2M',
     'rank': 5, 'rank_adjustment': 10,
     'assignments': [{'pattern': 'p4.*', 'priority': 30}]},
]

# per partition: the tree the reference expects (parents, node parameters)
TREES = {
    '_default': {
        'paths': ['t1', 't1/web', '_default', '_default/p1', '_default/p2'],
        'nodes': [[[4, 2, 2], 100, 10, None], [[2, 2, 2], 100, 10, 1],
                  [[0, 0, 0], 100, 0, None], [[0, 0, 0], 100, 0, None],
                  [[0, 0, 0], 100, 0, None]]},
    'part2': {
        'paths': ['t2', 't3'],
        'nodes': [[[2, 2, 2], 0, 0, 2], [[2, 2, 2], 5, 10, None]]},
}

# base name -> (partition, allocation path, assignment priority)
EXPECT = {
    'p1.web': ('_default', 't1/web', 50),
    'p1.db': ('_default', 't1', 10),
    'p1.batch': ('_default', 't1', 0),
    'p1.other': ('_default', '_default/p1', 1),   # proid known, no pattern
    'p2.x': ('_default', '_default/p2', 1),       # proid unknown
    'p3.y': ('part2', 't2', 20),
    'p4.z': ('part2', 't3', 30),
}
BASES = sorted(EXPECT)
PRIOS = [None, -1, 0, 7, 100]       # manifest priority (None = key absent)
DEMAND = (2, 1, 1)
OPTIONS = [(b, p, r) for b in BASES for p in PRIOS for r in (0, 1)]
KMAX = {'quick': 2, 'thorough': 3}
SITE = 'Loader.load_app/find_assignment'
MUST_FIRE = ('manifest_priority_used', 'assignment_priority_used',
             'default_tenant_used', 'second_partition_used',
             'negative_boosted_rank_next_to_rank_0')


class MemBackend:
    """The three calls Loader makes, on a dict."""

    def __init__(self):
        self.data = {}

    def get(self, path):
        if path not in self.data:
            raise be.ObjectNotFoundError(path)
        return self.data[path]

    def get_default(self, path, default=None):
        return self.data.get(path, default)

    def list(self, path):
        pre = path.rstrip('/') + '/'
        return sorted(set(k[len(pre):].split('/')[0]
                          for k in self.data if k.startswith(pre)))


def names(k):
    return ['#%010d' % (k - i) for i in range(k)]


def observe(apps):
    """Load everything through a fresh Loader and run one cycle."""
    CLOCK.reset()
    backend = MemBackend()
    backend.data['/partitions/part2'] = {}
    backend.data['/allocations'] = ALLOCATIONS
    ldr = loader_mod.Loader(backend, 'top')
    ldr.load_partitions()
    ldr.load_allocations()
    cell = ldr.cell
    srv = {}
    for label in list(cell.partitions):
        server = S.Server('srv-' + label, M.SERVER_CAP, up_since=BASE,
                          label=label)
        cell.add_node(server)
        cell.partitions[label].add(server, None)
        srv[label] = server
    k = len(apps)
    full = []
    for (base, prio, _run), suffix in zip(apps, names(k)):
        name = base + suffix
        manifest = {'memory': '%dM' % DEMAND[0], 'cpu': '%d%%' % DEMAND[1],
                    'disk': '%dM' % DEMAND[2], 'affinity': base}
        if prio is not None:
            manifest['priority'] = prio
        backend.data['/scheduled/' + name] = manifest
        ldr.load_app(name)
        full.append(name)
    got = []
    for name, (_b, _p, run) in zip(full, apps):
        app = cell.apps[name]
        got.append((app.allocation.label, app.allocation.name, app.priority,
                    [int(x) for x in app.demand]))
        if run and not srv[app.allocation.label].put(app):
            raise RuntimeError('harness: cannot pre-place %s' % name)
    labels = list(cell.partitions)
    queues = {}
    for label in labels:
        queues[label] = [
            (e[-1].name, e[0]) for e in
            cell.partitions[label].allocation.utilization_queue(
                S.zero_capacity())]
    del M._HANDED[:]
    cell.schedule()
    if len(M._HANDED) != len(labels):
        raise RuntimeError('harness: %d placement passes' % len(M._HANDED))
    handed = dict(zip(labels, [list(h) for h in M._HANDED]))
    placed = {name: cell.apps[name].server for name in full}
    return {'names': full, 'assigned': got, 'queues': queues,
            'handed': handed, 'placed': placed}


def expected(apps):
    out = []
    for base, prio, _run in apps:
        label, path, aprio = EXPECT[base]
        out.append((label, path,
                    aprio if prio is None or prio == -1 else prio,
                    list(DEMAND)))
    return out


def check(apps, obs):
    bad = []
    exp = expected(apps)
    for name, e, g in zip(obs['names'], exp, obs['assigned']):
        if tuple(e) != tuple(g):
            bad.append(('loader-assignment', SITE,
                        {'instance': name, 'observed': g, 'expected': e}))
    for label, tree in TREES.items():
        idx = [i for i, e in enumerate(exp) if e[0] == label]
        japps = [(tree['paths'].index(exp[i][1]), exp[i][2], DEMAND,
                  apps[i][2]) for i in idx]
        jnames = [obs['names'][i] for i in idx]
        ref = M.reference(tree['nodes'], japps, jnames)
        bad += M.judge(tree['nodes'], japps, jnames, ref,
                       obs['queues'].get(label, []),
                       M.SITE_QUEUE + ' (Loader-built)')
        bad += M.judge(tree['nodes'], japps, jnames, ref,
                       obs['handed'].get(label, []),
                       M.SITE_HANDED + ' (Loader-built)',
                       {n: obs['placed'][n] for n in jnames})
    return bad


def confirmed(apps, obs):
    if observe(apps) != obs or observe(apps) != obs:
        raise RuntimeError('C06 loader harness: non-deterministic observation'
                           ' for %r' % (apps,))


def chunks(tier):
    return [(tier, i) for i in range(len(OPTIONS))]


def describe(tier):
    kmax = KMAX[tier]
    return {
        'allocations': ALLOCATIONS,
        'instance_names': BASES, 'manifest_priority': PRIOS,
        'running': [0, 1], 'demand': list(DEMAND),
        'instances': [1, kmax],
        'cases': sum(len(OPTIONS) ** k for k in range(1, kmax + 1)),
        'expected_assignment': EXPECT}


def worker(chunk):
    tier, first = chunk
    kmax = KMAX[tier]
    cases = nontrivial = evals = entries = 0
    cnt = dict.fromkeys(MUST_FIRE, 0)
    viol = {}
    samples = []
    for k in range(1, kmax + 1):
        for rest in itertools.product(OPTIONS, repeat=k - 1):
            apps = (OPTIONS[first],) + rest
            cases += 1
            obs = observe(apps)
            bad = check(apps, obs)
            evals += 2 * len(TREES)
            entries += sum(len(q) for q in obs['queues'].values())
            entries += sum(len(q) for q in obs['handed'].values())
            if k >= 2:
                nontrivial += 1
            for base, prio, _run in apps:
                if prio is None or prio == -1:
                    cnt['assignment_priority_used'] += 1
                else:
                    cnt['manifest_priority_used'] += 1
                if EXPECT[base][1].startswith('_default/'):
                    cnt['default_tenant_used'] += 1
                if EXPECT[base][0] != '_default':
                    cnt['second_partition_used'] += 1
            if (any(a[0] == 'p4.z' for a in apps) and
                    any(a[0] == 'p3.y' for a in apps)):
                cnt['negative_boosted_rank_next_to_rank_0'] += 1
            if bad:
                case = {'apps': [list(a) for a in apps]}
                for clause, site, detail in bad:
                    key = (clause, site)
                    if key in viol:
                        viol[key]['count'] += 1
                        continue
                    confirmed(apps, obs)
                    detail = dict(detail)
                    detail['case'] = case
                    detail['observation'] = obs
                    viol[key] = {'clause': clause, 'site': site,
                                 'detail': detail, 'count': 1,
                                 'replay': {'kind': 'loader', 'case': case}}
            if len(samples) < 1 and k == kmax and cases % 101 == 0:
                samples.append({'loader_case': [list(a) for a in apps],
                                'assigned': obs['assigned'],
                                'handed_to_placement': obs['handed']})
    cnt['queue_entries'] = entries
    cnt['judgements'] = evals
    return {'cases': cases, 'nontrivial': nontrivial, 'states': cases,
            'violations': list(viol.values()), 'samples': samples,
            'counters': cnt}


def replay_case(case):
    apps = tuple((a[0], a[1], a[2]) for a in case['apps'])
    obs = observe(apps)
    confirmed(apps, obs)
    out = []
    seen = set()
    for clause, site, detail in check(apps, obs):
        if (clause, site) in seen:
            continue
        seen.add((clause, site))
        detail = dict(detail)
        detail['case'] = case
        detail['observation'] = obs
        out.append({'clause': clause, 'site': site, 'detail': detail,
                    'count': 1, 'replay': {'kind': 'loader', 'case': case}})
    return out
