"""C15 sub-check: firewall rules <-> rule-file names (treadmill.rulefile)."""
from mc import c15_common as cc

# Real chain names (treadmill.iptables) plus the length boundaries of \w{2,32}
CHAINS = ['TM_PASSTHROUGH', 'TM_PREROUTING_DNAT', 'TM_POSTROUTING_SNAT',
          'TM_PREROUTING_VRING', 'TM_POSTROUTING_VRING',
          'a1', 'x' * 31 + '_']
PROTOS = ['tcp', 'udp']
# wildcard spelled the three ways a caller can spell it, plus concrete IPs
IPS = [None, '<ANY_IP>', '<0.0.0.0/0 equal, not identical>',
       '1.2.3.4', '255.255.255.255']
IPS_QUICK = [None, '<ANY_IP>', '<0.0.0.0/0 equal, not identical>', '1.2.3.4']
PORTS = [None, 0, 1, 80, 65535]
PORTS_QUICK = [None, 0, 80, 65535]
NEW_IPS = ['10.0.0.1', '192.168.100.200']
NEW_PORTS = [1, 8080, 65535]
PT_IPS = ['1.2.3.4', '10.0.0.1', '255.255.255.255', '0.0.0.0']


class Rules:
    name = 'rules'
    chunk = 6000

    def __init__(self):
        self._mods = None

    def reset(self):
        pass

    def _m(self):
        if self._mods is None:
            from treadmill import firewall, rulefile
            self._mods = (firewall, rulefile)
        return self._mods

    def menus(self, tier):
        quick = tier == 'quick'
        nat = [('chain', CHAINS), ('proto', PROTOS),
               ('src_ip', IPS_QUICK if quick else IPS),
               ('src_port', PORTS_QUICK if quick else PORTS),
               ('dst_ip', IPS_QUICK if quick else IPS),
               ('dst_port', PORTS_QUICK if quick else PORTS),
               ('new_ip', NEW_IPS[:1] if quick else NEW_IPS),
               ('new_port', NEW_PORTS)]
        return {'dnat': nat, 'snat': nat,
                'passthrough': [('chain', CHAINS), ('src_ip', PT_IPS),
                                ('dst_ip', PT_IPS)]}

    def domain(self, tier):
        m = self.menus(tier)
        return cc.Concat([cc.Product('passthrough', m['passthrough']),
                          cc.Product('dnat', m['dnat']),
                          cc.Product('snat', m['snat'])])

    def _ip(self, token):
        firewall, _ = self._m()
        if token == '<ANY_IP>':
            return firewall.ANY_IP
        if token == '<0.0.0.0/0 equal, not identical>':
            s = ''.join(['0.0.0.0', '/', '0'])
            assert s == firewall.ANY_IP and s is not firewall.ANY_IP
            return s
        return token

    def build(self, case):
        firewall, _ = self._m()
        kind = case[0]
        if kind == 'passthrough':
            _k, chain, src, dst = case
            return chain, firewall.PassThroughRule(src_ip=src, dst_ip=dst)
        _k, chain, proto, sip, sport, dip, dport, nip, nport = case
        cls = firewall.DNATRule if kind == 'dnat' else firewall.SNATRule
        return chain, cls(proto=proto, new_ip=nip, new_port=nport,
                          src_ip=self._ip(sip), src_port=sport,
                          dst_ip=self._ip(dip), dst_port=dport)

    @staticmethod
    def canon(case):
        """Canonical key of the VALUE (chain, rule) - what rule __eq__ sees."""
        kind = case[0]
        if kind == 'passthrough':
            return repr(case)
        _k, chain, proto, sip, sport, dip, dport, nip, nport = case

        def ip(t):
            return '0.0.0.0/0' if t is None or t.startswith('<') else t
        return repr((kind, chain, proto, ip(sip), int(sport or 0), ip(dip),
                     int(dport or 0), nip, int(nport)))

    def evaluate(self, case):
        firewall, rulefile = self._m()
        viol = []
        kind = case[0]
        chain, rule = self.build(case)
        name = rulefile.RuleMgr._filenameify(chain, rule)
        evals = 2
        wild = kind != 'passthrough' and (
            case[3] is None or str(case[3]).startswith('<') or
            case[5] is None or str(case[5]).startswith('<') or
            not case[4] or not case[6])
        site_kind = {'dnat': 'DNATRule', 'snat': 'SNATRule',
                     'passthrough': 'PassThroughRule'}[kind]
        spelled = kind != 'passthrough' and any(
            str(t).startswith('<0.0.0.0/0') for t in (case[3], case[5]))
        site = 'rulefile.RuleMgr._filenameify/get_rule:%s%s' % (
            site_kind, ':wildcard-ip-by-equality' if spelled else '')

        matches = [n for n, rx in (('dnat', rulefile._DNAT_FILE_RE),
                                   ('snat', rulefile._SNAT_FILE_RE),
                                   ('passthrough',
                                    rulefile._PASSTHROUGH_FILE_RE))
                   if rx.match(name)]
        if matches and matches != [kind]:
            viol.append(('rule-name-matches-wrong-patterns', site,
                         {'name': name, 'expected_pattern': kind,
                          'matched': matches}))
        dec = rulefile.RuleMgr.get_rule(name)
        if dec is None:
            viol.append(('rule-name-does-not-decode', site,
                         {'chain': chain, 'rule': repr(rule), 'name': name}))
        else:
            dchain, drule = dec
            same = (dchain == chain and type(drule) is type(rule) and
                    drule == rule and
                    all(type(getattr(drule, a)) is type(getattr(rule, a))
                        for a in rule.__slots__))
            if not same:
                viol.append(('rule-roundtrip-mismatch', site,
                             {'chain': chain, 'rule': repr(rule),
                              'name': name, 'decoded_chain': dchain,
                              'decoded_rule': repr(drule)}))
            again = rulefile.RuleMgr._filenameify(dchain, drule)
            evals += 1
            if again != name:
                viol.append(('rule-name-not-idempotent', site,
                             {'name': name, 'reencoded': again}))
        return {'enc': name, 'val': self.canon(case), 'evals': evals,
                'nontrivial': bool(wild or kind == 'passthrough'),
                'viol': viol}

    def pair_site(self, kind, a, b):
        tag = ''
        for c in (a, b):
            if c[0] != 'passthrough' and any(
                    str(t).startswith('<0.0.0.0/0') for t in (c[3], c[5])):
                tag = ':wildcard-ip-by-equality'
        return 'rulefile.RuleMgr._filenameify:%s/%s%s' % (a[0], b[0], tag)


SUB = Rules()
