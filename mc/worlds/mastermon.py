"""Monitors / oracles for World B (C09, C10, C11)."""
import json

from mc.vclock import logical
from mc.worlds import cellworld
from mc.worlds.masterworld import z, zkutils, tm_master, zkbackend, fakezk


from mc.worlds.cellworld import State  # noqa: E402


def placement_dump(world, tree=None):
    """{(server, instance): (data dict, node)} for /placement/*/*."""
    tree = tree or world.tree
    out = {}
    root = tree.find(z.PLACEMENT)
    for sname, snode in root.children.items():
        for aname, anode in snode.children.items():
            try:
                data = json.loads(anode.data.decode()) if anode.data else None
            except ValueError:
                data = {'_raw': repr(anode.data)}
            out[(sname, aname)] = (data, anode)
    return out


def mon_c09(world, kind):
    """Stored placement == model, existence and content."""
    m = world.master
    cell = m.cell
    dump = placement_dump(world)
    byapp = {}
    for (s, a), (data, _n) in dump.items():
        byapp.setdefault(a, []).append((s, data))
    site = 'Master.' + kind
    placed = 0
    for a in cell.apps.values():
        ent = byapp.get(a.name, [])
        if a.server:
            placed += 1
            where = [s for s, _d in ent]
            if where != [a.server]:
                world.flag('placement-record-missing-or-misplaced', site,
                           {'app': world.tmpl[a.name], 'model': a.server,
                            'stored_under': where})
                continue
            data = ent[0][1] or {}
            if data.get('identity') != a.identity:
                world.flag('stale-identity-in-record', site,
                           {'app': world.tmpl[a.name], 'model': a.identity,
                            'stored': data.get('identity')})
            if data.get('expires') != a.placement_expiry:
                world.flag('stale-expiry-in-record', site,
                           {'app': world.tmpl[a.name],
                            'model': logical(a.placement_expiry),
                            'stored': logical(data.get('expires')),
                            'delta': None if None in (a.placement_expiry,
                                                      data.get('expires'))
                            else a.placement_expiry - data.get('expires')})
        elif ent:
            world.flag('record-for-pending-instance', site,
                       {'app': world.tmpl[a.name],
                        'stored_under': [s for s, _d in ent]})
    if not world.undelivered:
        scheduled = set(world.tree.find(z.SCHEDULED).children)
        for (s, a) in dump:
            if a in cell.apps and a not in scheduled:
                # the model still knows an instance that is no longer in
                # /scheduled although every notification was processed
                world.flag('record-for-instance-not-in-scheduled', site,
                           {'app': world.tmpl[a], 'server': s})
    for (s, a) in dump:
        if a not in cell.apps:
            world.flag('record-for-unscheduled-instance', site,
                       {'app': world.tmpl[a], 'server': s,
                        'server_known': s in m.servers})
    # the reference placement kept in the data of the /placement node (what
    # treadmill.api.state serves as instance -> host)
    import zlib
    node = world.tree.find(z.PLACEMENT)
    summary = None
    if node is not None and node.data:
        try:
            summary = {row[0]: row[3]
                       for row in json.loads(zlib.decompress(node.data).decode())}
        except (ValueError, zlib.error, IndexError, TypeError):
            summary = 'unreadable'
    model = {a.name: a.server for a in cell.apps.values()}
    if summary != model:
        if summary == 'unreadable' or summary is None:
            diff = summary
        else:
            diff = sorted(
                (str(world.tmpl[n]), str(summary.get(n, '-')),
                 str(model.get(n, '-')))
                for n in set(summary) | set(model)
                if summary.get(n, '-') != model.get(n, '-'))[:4]
        world.flag('placement-summary-differs-from-model', site,
                   {'summary_vs_model': diff})
    if placed:
        world.stats['c09_cycles_with_placed'] += 1
        world.stats['c09_records_compared'] += placed


def check_no_double_record(world, when):
    dump = placement_dump(world)
    seen = {}
    for (s, a) in dump:
        seen.setdefault(a, []).append(s)
    world.stats['c10_record_sets_checked'] += 1
    for a, where in seen.items():
        if len(where) > 1:
            world.flag('instance-recorded-under-two-servers', when,
                       {'app': world.tmpl[a], 'servers': sorted(where)})


def zk_requirements(tree, appname):
    """(partition, required traits) of an instance resolved from the stored
    records alone: its manifest and the first /allocations assignment whose
    pattern matches its name."""
    import fnmatch
    man = tree.find(z.path.scheduled(appname))
    if man is None or not man.data:
        return None
    man = json.loads(man.data.decode())
    need = set(man.get('traits', []))
    part = '_default'
    allocs = json.loads(tree.find(z.ALLOCATIONS).data.decode() or '[]')
    hit = None
    for obj in allocs:
        for asg in obj.get('assignments', []):
            if hit is None and fnmatch.fnmatch(
                    appname, asg['pattern'] + '[#]' + '[0-9]' * 10):
                hit = obj
    if hit is not None:
        need |= set(hit.get('traits', []))
        part = hit.get('partition') or '_default'
    return part, need


def _units(text, suffix):
    text = str(text).strip()
    return float(text[:-1]) if text.endswith(suffix) else float(text)


def _model_matches_record(master, srv, rec):
    """The server object the running master holds still describes what the
    stored record says: capacity, partition and trait NAMES (decoded with
    the running master's own table, so that neither the numbering nor the
    new master is trusted).  World-B records spell sizes in M and cpu in %."""
    try:
        cap = [_units(rec['memory'], 'M'), _units(rec['cpu'], '%'),
               _units(rec['disk'], 'M')]
    except (KeyError, ValueError):
        return False
    if [float(x) for x in srv.init_capacity] != cap:
        return False
    if {str(l) for l in srv.labels} != {rec.get('partition') or '_default'}:
        return False
    mask = srv.traits.self_traits
    names = {t for t, c in master.trait_codes.items()
             if t != 'invalid' and mask & c}
    return names == set(rec.get('traits', []))


def mon_c02_zk(world, kind):
    """C02 on the real master, judged on ZooKeeper records alone: after a
    cycle with nothing outstanding, an instance that is scheduled but not
    placed must not have an EMPTY, present, up server of its partition (inside
    the cell, not blacked out) that offers all traits it or its tenant
    requires and has room for it.  (An empty fitting server cannot have been
    needed by an instance ahead in the queue: it would not be empty.)
    Instances with an identity group, a lease, affinity limits or the
    schedule-once flag, and blacklisted ones, are not judged here.  As the
    statement speaks of ONE NEW instance, only the instance submitted by the
    event just applied is judged (an older pending instance whose server
    appeared later is outside the statement - the unchanged tree keeps such
    an instance pending when the trait it needs was unknown at submission:
    its trait mask keeps the INVALID bit until it is re-read)."""
    if kind != 'reschedule' or world.undelivered or world.pending_truth:
        return
    newest = getattr(world, 'just_submitted', None)
    if newest is None:
        return
    tree = world.tree
    dump = placement_dump(world)
    placed = {a for (_s, a) in dump}
    used = {s for (s, _a) in dump}
    present = set(tree.find(z.SERVER_PRESENCE).children)
    blacked = set(tree.find(z.BLACKEDOUT_SERVERS).children)
    top = set(tree.find(z.CELL).children)

    def in_cell(rec):
        name, hops = rec.get('parent'), 0
        while name and hops < 10:
            if name in top:
                return True
            node = tree.find(z.path.bucket(name))
            if node is None or not node.data:
                return False
            name = json.loads(node.data.decode()).get('parent')
            hops += 1
        return False

    for inst in sorted(tree.find(z.SCHEDULED).children):
        if inst in placed or inst != newest:
            continue
        man = json.loads(tree.find(z.path.scheduled(inst)).data.decode())
        if man.get('identity_group') or man.get('lease') or \
                man.get('affinity_limits') or man.get('schedule_once'):
            continue
        if world.truth_blacklisted(inst, False):
            continue
        req = zk_requirements(tree, inst)
        if req is None:
            continue
        world.stats['c02_zk_pending_judged'] += 1
        need = [_units(man['memory'], 'M'), _units(man['cpu'], '%'),
                _units(man['disk'], 'M')]
        for sname, snode in sorted(tree.find(z.SERVERS).children.items()):
            if sname in used or sname not in present or sname in blacked:
                continue
            if world.truth.get(sname) in ('down', 'frozen'):
                continue
            srv = world.master.servers.get(sname)
            if srv is not None and srv.state is not State.up:
                continue        # down / frozen by an event still standing
            rec = json.loads(snode.data.decode()) if snode.data else {}
            if (rec.get('partition') or '_default') != req[0]:
                continue
            if req[1] - set(rec.get('traits', [])):
                continue
            try:
                cap = [_units(rec['memory'], 'M'), _units(rec['cpu'], '%'),
                       _units(rec['disk'], 'M')]
            except (KeyError, ValueError):
                continue
            if any(n > c for n, c in zip(need, cap)) or not in_cell(rec):
                continue
            world.flag('pending-although-an-empty-server-fits',
                       'Master.reschedule',
                       {'app': world.tmpl[inst], 'server': sname,
                        'needs': sorted(req[1]), 'partition': req[0],
                        'server_traits': rec.get('traits', [])})
            break


_READS = ('get', 'get_children', 'exists')


def check_c11(world, fail_read=None):
    """Start a fresh master on a copy of the stored state, load_model() only,
    compare with what is recorded under healthy servers.  fail_read=k: the
    k-th ZooKeeper read of the load fails with ConnectionLoss; the load may
    abort (the caller sees the exception, the master is restarted) - but if
    it completes, what it built is judged like any other load.  Returns the
    number of reads the load issued."""
    import kazoo.exceptions
    tree = world.tree.clone()
    tree.clock_ms = world.tree.clock_ms
    client = tree.client()
    m2 = tm_master.Master(zkbackend.ZkBackend(client), 'cell')
    recorded = placement_dump(world, tree)      # before the load touches it
    rec_list = {k: (dict(v[0] or {}), v[1].ctime) for k, v in recorded.items()}
    scheduled = set(tree.find(z.SCHEDULED).children)
    pres = {s: n.ctime for s, n in tree.find(z.SERVER_PRESENCE).children.items()}
    srv_records = {s: n.data for s, n in tree.find(z.SERVERS).children.items()}
    reads = [0]

    def hook(cl, op, _path):
        if cl is client and op in _READS:
            reads[0] += 1
            if fail_read is not None and reads[0] == fail_read + 1:
                raise kazoo.exceptions.ConnectionLoss('injected')

    tree.hook = hook
    try:
        m2.load_model()
    except kazoo.exceptions.ConnectionLoss:
        if fail_read is None:
            raise
        world.stats['c11_faulted_loads_aborted'] += 1
        return reads[0]
    finally:
        tree.hook = None
    if fail_read is not None:
        world.stats['c11_faulted_loads_completed'] += 1
    old = world.master
    world.stats['c11_reloads'] += 1
    healthy_records = 0
    for (s, a), (data, ctime) in rec_list.items():
        if a not in scheduled:
            continue
        # healthy: present, not restarted since the instance was placed, and
        # still offering capacity / partition / traits of what is recorded
        if s not in pres or pres[s] > ctime:
            continue
        osrv = old.servers.get(s)
        nsrv = m2.servers.get(s)
        rec0 = json.loads(srv_records[s].decode()) if srv_records.get(s) \
            else None
        if osrv is None or nsrv is None or rec0 is None or \
                not _model_matches_record(old, osrv, rec0):
            continue
        # ... and the partition and traits this instance needs NOW (its
        # assignment may have changed since it was placed)
        req = zk_requirements(tree, a)
        rec = json.loads(srv_records[s].decode()) if srv_records.get(s) \
            else {}
        if req is not None:
            if (rec.get('partition') or '_default') != req[0] or \
                    req[1] - set(rec.get('traits', [])):
                world.stats['c11_records_on_unsuitable_server'] += 1
                continue
        # the set recorded on s must still fit s together (capacity offered)
        healthy_records += 1
        app = m2.cell.apps.get(a)
        if app is None:
            world.flag('recorded-instance-not-loaded', 'Loader.load_model',
                       {'app': world.tmpl[a], 'server': s})
            continue
        if app.server != s:
            world.flag('recorded-placement-not-restored',
                       'Loader.restore_placement',
                       {'app': world.tmpl[a], 'recorded': s,
                        'loaded': app.server})
            continue
        if app.identity != data.get('identity'):
            world.flag('recorded-identity-not-restored',
                       'Loader.restore_placement',
                       {'app': world.tmpl[a], 'recorded': data.get('identity'),
                        'loaded': app.identity})
        if app.placement_expiry != data.get('expires'):
            world.flag('recorded-expiry-not-restored',
                       'Loader.restore_placement',
                       {'app': world.tmpl[a],
                        'recorded': logical(data.get('expires')),
                        'loaded': logical(app.placement_expiry)})
    if healthy_records:
        world.stats['c11_reloads_with_healthy_records'] += 1
        world.stats['c11_healthy_records'] += healthy_records
    for app in m2.cell.apps.values():
        if app.server and (app.server, app.name) not in rec_list:
            world.flag('placed-without-record', 'Loader.load_model',
                       {'app': world.tmpl[app.name], 'server': app.server})
    return reads[0]


def mon_c05_published(world, kind):
    """C05 at master level: the identity published for a placed instance is
    the one the model holds, and published identities of a group are unique."""
    cell = world.master.cell
    dump = placement_dump(world)
    seen = {}
    for (s, a), (data, _n) in dump.items():
        app = cell.apps.get(a)
        if app is None or not app.identity_group or app.server != s:
            continue
        ident = (data or {}).get('identity')
        if ident != app.identity:
            world.flag('published-identity-differs', 'Master.' + kind,
                       {'app': world.tmpl[a], 'model': app.identity,
                        'stored': ident})
        if ident is not None:
            seen.setdefault((app.identity_group, ident), []).append(a)
    # against the ZooKeeper truth: the group's count as stored by the admin
    tree = world.tree
    if not world.undelivered:
        for (g, ident), apps in seen.items():
            node = tree.find(z.path.identity_group(g))
            count = 0
            if node is not None and node.data:
                count = (json.loads(node.data.decode()) or {}).get('count', 0)
            if ident >= count:
                world.flag('published-identity-beyond-stored-count',
                           'Master.' + kind,
                           {'group': g, 'identity': ident,
                            'stored_count': count,
                            'apps': [world.tmpl[x] for x in apps]})
    for (g, ident), apps in seen.items():
        if len(apps) > 1:
            world.flag('published-identity-duplicate', 'Master.' + kind,
                       {'group': g, 'identity': ident,
                        'apps': [world.tmpl[x] for x in apps]})


def mon_c01_zk(world, kind):
    """C01 at master level, from the stored tree alone: per server the summed
    demand (manifests in /scheduled) of the instances recorded under
    /placement/<server> fits the capacity declared in /servers/<server>, and
    no instance is recorded under two servers."""
    from treadmill.scheduler import loader
    tree = world.tree
    dump = placement_dump(world)
    per_server = {}
    where = {}
    for (s, a) in dump:
        where.setdefault(a, []).append(s)
        node = tree.find(z.path.scheduled(a))
        if node is not None and node.data:
            manifest = json.loads(node.data.decode())
        else:
            # a record whose manifest is gone still claims the capacity the
            # instance was created with (the harness knows its template)
            manifest = world.cfg['templates'].get(world.tmpl[a])
            if manifest is None:
                continue
        per_server.setdefault(s, []).append(loader.resources(manifest))
    for a, servers in where.items():
        if len(servers) > 1:
            world.flag('recorded-under-two-servers', 'Master.' + kind,
                       {'app': world.tmpl[a], 'servers': sorted(servers)})
    for s, demands in per_server.items():
        rec = tree.find(z.path.server(s))
        if rec is None or not rec.data:
            continue
        cap = loader.resources(json.loads(rec.data.decode()))
        tot = [sum(d[i] for d in demands) for i in range(3)]
        world.stats['c01_zk_server_checks'] += 1
        if any(t > c for t, c in zip(tot, cap)):
            world.flag('records-exceed-declared-capacity', 'Master.' + kind,
                       {'server': s, 'sum': tot, 'declared': cap})


def mon_c03_zk(world, kind):
    """C03 against the ZooKeeper truth: after a cycle every placed instance is
    on a server whose RECORD (/servers/<name>) is in the partition of the
    instance's allocation and lists every trait the instance's manifest and
    its allocation require, and whose presence node exists or which is inside
    its retention (state is C08's business; only partition/traits here)."""
    tree = world.tree
    cell = world.master.cell
    allocs = json.loads(tree.find(z.ALLOCATIONS).data.decode() or '[]')
    for app in cell.apps.values():
        if not app.server:
            continue
        rec = tree.find(z.path.server(app.server))
        if rec is None or not rec.data:
            continue
        rec = json.loads(rec.data.decode())
        man = tree.find(z.path.scheduled(app.name))
        if man is None or not man.data:
            continue
        man = json.loads(man.data.decode())
        need = set(man.get('traits', []))
        part = '_default'
        # the allocation is resolved from the stored /allocations record, not
        # from the model: first assignment whose pattern matches the name
        import fnmatch
        hit = None
        for obj in allocs:
            for asg in obj.get('assignments', []):
                if hit is None and fnmatch.fnmatch(
                        app.name, asg['pattern'] + '[#]' + '[0-9]' * 10):
                    hit = obj
        if hit is not None:
            need |= set(hit.get('traits', []))
            part = hit.get('partition') or '_default'
        world.stats['c03_zk_checks'] += 1
        if (rec.get('partition') or '_default') != part:
            world.flag('placed-on-server-recorded-in-other-partition',
                       'Master.' + kind,
                       {'app': world.tmpl[app.name], 'server': app.server,
                        'server_partition': rec.get('partition'),
                        'allocation_partition': part})
        missing = need - set(rec.get('traits', []))
        if missing:
            world.flag('placed-on-server-whose-record-lacks-traits',
                       'Master.' + kind,
                       {'app': world.tmpl[app.name], 'server': app.server,
                        'missing': sorted(missing),
                        'record_traits': rec.get('traits', [])})


def mon_c08_start(world, kind):
    """C08 across a master restart, judged on ZooKeeper alone: a record that
    the previous master had published under a server that is down (no
    presence node) inside the retention period, or under a frozen server, is
    still there after the new master's start-up cycle.  The running master is
    covered by `cellmon.mon_c08`; this clause closes the gap that the model
    snapshot of a NEW master already lacks what start-up dropped."""
    if kind != 'init_schedule':
        return
    before = getattr(world, 'records_before_start', None)
    if not before:
        return
    from mc.vclock import CLOCK
    import sys
    now = placement_dump(world)
    scheduled = set(world.children(z.SCHEDULED))
    live = set(world.children(z.SERVER_PRESENCE))
    known = set(world.children(z.SERVERS))
    cell = world.master.cell
    for (sname, inst) in before:
        if sname not in known or inst not in scheduled:
            continue
        if sname not in cell.members():
            continue            # server outside the cell: nothing stays there
        app = cell.apps.get(inst)
        if app is None or app.schedule_once:
            # a new master terminates schedule-once instances whose server is
            # down or was restarted (pinned by master_test.
            # test_restore_placement): "itself removed" in the statement
            continue
        if world.truth_blacklisted(inst, app.blacklisted) or app.blacklisted:
            continue
        if getattr(app, 'final_rank', None) == sys.maxsize:
            continue            # over its utilisation cap
        if (sname, inst) in world.marked:
            continue
        kept = (sname, inst) in now
        if sname not in live:
            if world.truth.get(sname) != 'down':
                continue        # death not yet known to the harness clock
            down_L = world.down_since_L.get(sname)
            if down_L is None:
                continue
            r = app.data_retention_timeout
            if r is None or CLOCK.L - down_L >= r:
                continue
            world.stats['c08_start_retention_checks'] += 1
            if not kept:
                world.flag('record-dropped-at-start-within-retention',
                           'Master.init_schedule',
                           {'app': world.tmpl.get(inst, inst),
                            'server': sname, 'down_for': CLOCK.L - down_L,
                            'retention': r,
                            'schedule_once': bool(app.schedule_once)})
        elif world.truth.get(sname) == 'frozen':
            world.stats['c08_start_frozen_checks'] += 1
            if not kept:
                world.flag('record-dropped-at-start-frozen-server',
                           'Master.init_schedule',
                           {'app': world.tmpl.get(inst, inst),
                            'server': sname,
                            'schedule_once': bool(app.schedule_once)})
