"""Configurations (topologies, templates, alphabets) for World A."""

T1, T2 = 1, 2          # trait bits


def k1():
    """1 pod / 2 racks / 3 servers, dimensions vary independently."""
    return {
        'buckets': [('pod:0', None, 'pod'), ('rack:0', 'pod:0', 'rack'),
                    ('rack:1', 'pod:0', 'rack')],
        'partitions': ['_default'],
        'servers': {
            's0': {'parent': 'rack:0', 'variants': [
                {'cap': [10, 10, 10]}, {'cap': [6, 6, 6]}]},
            's1': {'parent': 'rack:1', 'variants': [{'cap': [10, 4, 10]}]},
            's2': {'parent': 'rack:0', 'variants': [{'cap': [4, 10, 10]}]},
        },
        'allocs': {
            'a': {'partition': '_default', 'variants': [
                {'reserved': [0, 0, 0], 'rank': 100},
                {'reserved': [6, 6, 6], 'rank': 100, 'max_util': 1}]},
        },
        'idgroups': {'g': 1},
        'templates': {
            'sm': {'prio': 50, 'demand': [3, 3, 3], 'aff': 'a'},
            'sk': {'prio': 50, 'demand': [6, 2, 2], 'aff': 'b'},
            'ks': {'prio': 50, 'demand': [2, 6, 2], 'aff': 'c', 'idg': 'g'},
            'hi': {'prio': 100, 'demand': [10, 10, 10], 'aff': 'd'},
            'lo': {'prio': 1, 'demand': [8, 8, 8], 'aff': 'e', 'ret': 30},
        },
        'max_apps': 4,
        'events': [],
    }


def k2():
    """2 racks x 2 servers, two partitions, traits."""
    return {
        'buckets': [('rack:0', None, 'rack'), ('rack:1', None, 'rack')],
        'partitions': ['_default', 'p2'],
        'servers': {
            's0': {'parent': 'rack:0', 'variants': [
                {'cap': [10, 10, 10], 'label': '_default', 'traits': 0},
                {'cap': [10, 10, 10], 'label': 'p2', 'traits': T1}]},
            's1': {'parent': 'rack:1', 'variants': [
                {'cap': [10, 6, 10], 'label': '_default', 'traits': T1},
                {'cap': [10, 6, 10], 'label': '_default', 'traits': 0}]},
            's2': {'parent': 'rack:0', 'variants': [
                {'cap': [6, 10, 10], 'label': 'p2', 'traits': T1}]},
            's3': {'parent': 'rack:1', 'variants': [
                {'cap': [10, 10, 10], 'label': 'p2', 'traits': T1 | T2}]},
        },
        'allocs': {
            'a': {'partition': '_default', 'variants': [
                {'rank': 100}, {'rank': 100, 'traits': T1}]},
            'b': {'partition': 'p2', 'variants': [
                {'rank': 100, 'traits': T1}, {'rank': 100, 'traits': T1 | T2}]},
        },
        'templates': {
            'pl': {'prio': 50, 'demand': [3, 3, 3], 'aff': 'a', 'alloc': 'a'},
            't1': {'prio': 50, 'demand': [6, 2, 2], 'aff': 'b', 'alloc': 'a',
                   'traits': T1},
            'p2': {'prio': 50, 'demand': [2, 6, 2], 'aff': 'c', 'alloc': 'b'},
            't2': {'prio': 60, 'demand': [6, 6, 6], 'aff': 'd', 'alloc': 'b',
                   'traits': T2},
            'hi': {'prio': 100, 'demand': [10, 6, 10], 'aff': 'e', 'alloc': 'a'},
        },
        'max_apps': 4,
        'events': [],
    }


def k3(limits):
    """2 pods / 3 racks / 4 servers, uniform capacity, affinity limits."""
    return {
        'buckets': [('pod:0', None, 'pod'), ('pod:1', None, 'pod'),
                    ('rack:0', 'pod:0', 'rack'), ('rack:1', 'pod:0', 'rack'),
                    ('rack:2', 'pod:1', 'rack')],
        'partitions': ['_default'],
        'servers': {
            's0': {'parent': 'rack:0', 'variants': [{'cap': [10, 10, 10]}]},
            's1': {'parent': 'rack:0', 'variants': [{'cap': [10, 10, 10]}]},
            's2': {'parent': 'rack:1', 'variants': [{'cap': [10, 10, 10]}]},
            's3': {'parent': 'rack:2', 'variants': [{'cap': [10, 10, 10]}]},
        },
        'allocs': {'a': {'partition': '_default', 'variants': [{'rank': 100}]}},
        'templates': {
            'la': {'prio': 50, 'demand': [3, 3, 3], 'aff': 'lim',
                   'limits': limits},
            'lb': {'prio': 70, 'demand': [6, 6, 6], 'aff': 'lim',
                   'limits': limits},
            'fill': {'prio': 1, 'demand': [10, 10, 10], 'aff': 'fill'},
            'mid': {'prio': 30, 'demand': [7, 7, 7], 'aff': 'mid'},
            'hi': {'prio': 100, 'demand': [10, 10, 10], 'aff': 'hi'},
        },
        'max_apps': 5,
        'events': [],
    }


def k4():
    """2 servers + identity group g (+ pressure)."""
    return {
        'buckets': [('rack:0', None, 'rack')],
        'partitions': ['_default'],
        'servers': {
            's0': {'parent': 'rack:0', 'variants': [{'cap': [10, 10, 10]}]},
            's1': {'parent': 'rack:0', 'variants': [{'cap': [10, 10, 10]}]},
        },
        'allocs': {'a': {'partition': '_default', 'variants': [
            {'rank': 100},
            {'reserved': [3, 3, 3], 'rank': 100, 'max_util': 1}]}},
        'idgroups': {'g': 1},
        'templates': {
            'id': {'prio': 50, 'demand': [3, 3, 3], 'aff': 'i', 'idg': 'g'},
            'ib': {'prio': 60, 'demand': [8, 8, 8], 'aff': 'i', 'idg': 'g'},
            'on': {'prio': 1, 'demand': [6, 6, 6], 'aff': 'o', 'idg': 'g',
                   'once': True},
            'hi': {'prio': 100, 'demand': [10, 10, 10], 'aff': 'h'},
            'pl': {'prio': 50, 'demand': [4, 4, 4], 'aff': 'p'},
        },
        'max_apps': 4,
        'events': [],
    }


def k5():
    """K1-like with old servers (reboot soon) and leases."""
    day = 24 * 3600
    cfg = k1()
    cfg['servers'] = {
        's0': {'parent': 'rack:0', 'age': 19 * day + 12 * 3600,
               'variants': [{'cap': [10, 10, 10]}]},
        's1': {'parent': 'rack:1', 'age': 10 * day,
               'variants': [{'cap': [10, 10, 10]}]},
        's2': {'parent': 'rack:0', 'age': 0,
               'variants': [{'cap': [4, 10, 10]}]},
    }
    cfg['templates'] = {
        'l1': {'prio': 50, 'demand': [3, 3, 3], 'aff': 'a', 'lease': day},
        'l7': {'prio': 50, 'demand': [6, 2, 2], 'aff': 'b', 'lease': 7 * day},
        'nl': {'prio': 50, 'demand': [6, 6, 6], 'aff': 'c'},
        'hi': {'prio': 100, 'demand': [10, 10, 10], 'aff': 'd', 'lease': day},
    }
    return cfg


def ev(*events):
    return [tuple(e) for e in events]
