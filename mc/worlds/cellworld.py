"""World A: the scheduler's Cell driven the way Loader/Master drive it.

Every event goes through the real `treadmill.scheduler` objects; nothing of the
placement logic is re-implemented here.  The harness mirrors only the thin
glue `Loader` puts around them (remove_server, load_server, adjust_presence,
_freeze_server, load_app on an existing instance), see DESIGN 3.1.
"""
import collections
import logging
import sys

logging.disable(logging.CRITICAL)

import numpy as np  # noqa: E402

from mc import modstate  # noqa: E402
from mc import vclock  # noqa: E402
from mc.vclock import CLOCK, BASE, logical  # noqa: E402

vclock.install()

from treadmill import scheduler as S  # noqa: E402

S.DIMENSION_COUNT = 3
State = S.State
UNPLACED = sys.maxsize

# --------------------------------------------------------------------------
# instrumentation from the harness side (class-level wrappers, no source hook)

_QUEUES = []          # [(label, [app names])] of the cycle in progress
_PUT_SITES = {}       # app name -> site of the last successful Server.put
_PUT_LOG = []         # [(app, site, server)] successful puts of the cycle in progress

_orig_find = S.Cell._find_placements
_orig_put = S.Server.put


def _find_wrap(self, queue, *args, **kwargs):
    # signature-agnostic: only the queue is observed
    _QUEUES.append([a.name for a in queue])
    return _orig_find(self, queue, *args, **kwargs)


_orig_restore = S.Server.restore


def _restore_wrap(self, app, *args, **kwargs):
    rc = _orig_restore(self, app, *args, **kwargs)
    if rc and not any(a == app.name and st.startswith('Server.restore')
                      for a, st, _s in _PUT_LOG[-1:]):
        # a restore that did not go through Server.put
        f = sys._getframe(1)
        site = 'Server.restore<-' + f.f_code.co_name
        _PUT_SITES[app.name] = site
        _PUT_LOG.append((app.name, site, self.name))
    return rc


def _put_wrap(self, app, *args, **kwargs):
    # signature-agnostic: only the instance and the result are observed
    rc = _orig_put(self, app, *args, **kwargs)
    if rc:
        f = sys._getframe(1)
        names = []
        for _ in range(3):
            if f is None:
                break
            names.append(f.f_code.co_name)
            f = f.f_back
        if names[0] == 'put':
            site = 'Bucket.put'
        elif names[0] == 'restore':
            site = 'Server.restore<-' + (names[1] if len(names) > 1 else '?')
        else:
            site = 'Server.put<-' + names[0]
        _PUT_SITES[app.name] = site
        _PUT_LOG.append((app.name, site, self.name))
    return rc


S.Cell._find_placements = _find_wrap
S.Server.put = _put_wrap
S.Server.restore = _restore_wrap


def vec(a):
    return tuple(int(x) if float(x).is_integer() else float(x) for x in a)


class Pre:
    """Snapshot taken just before a cycle."""
    __slots__ = ('apps', 'servers', 'now_L', 'groups')


class CellWorld:
    def __init__(self, cfg):
        CLOCK.reset()
        _PUT_SITES.clear()
        self.cfg = cfg
        self.viol = []
        self.stats = collections.Counter()
        self.cell = S.Cell('top')
        self.buckets = {}
        for name, parent, level in cfg['buckets']:
            b = S.Bucket(name, level=level)
            self.buckets[name] = b
            (self.buckets[parent] if parent else self.cell).add_node(b)
        for label in cfg.get('partitions', ['_default']):
            self.cell.partitions[label] = S.Partition(label=label)
        self.srv = {}
        self.variant = {}
        for name, spec in cfg['servers'].items():
            if spec.get('initial', True):
                self.add_server(name, 0)
        self.allocs = {}
        self.alloc_variant = {}
        for aname, spec in cfg['allocs'].items():
            alloc = self.cell.partitions[spec['partition']].allocation
            # 'path' lets two tenants of different partitions share a name
            for part in spec.get('path', aname).split('/'):
                alloc = alloc.get_sub_alloc(part)
            self.allocs[aname] = alloc
            self.set_alloc(aname, 0)
        for g, n in cfg.get('idgroups', {}).items():
            self.cell.configure_identity_group(g, n)
        self.seq = 0
        self.tmpl = {}          # app name -> template name
        self.last_cycle = None  # (pre, result, queues) of the last cycle
        self.monitors = cfg.get('monitors', [])
        self.down_since_L = {}  # server -> logical second it went down
        self.marked = set()     # (server, app) explicitly marked for unscheduling
        self.cycles = 0

    # -- glue mirroring Loader ------------------------------------------------
    def add_server(self, name, v):
        spec = self.cfg['servers'][name]
        var = spec['variants'][v]
        server = S.Server(name, var['cap'],
                          up_since=BASE + CLOCK.L - spec.get('age', 0),
                          label=var.get('label', '_default'),
                          traits=var.get('traits', 0))
        self.buckets[spec['parent']].add_node(server)
        self.srv[name] = server
        self.variant[name] = v
        # Loader.adjust_server_state with no stored state and presence up
        server.set_state(State.down, CLOCK.time())
        server.state = State.up
        for label in server.labels:
            self.cell.partitions[label].add(server, None)

    def remove_server(self, name):
        server = self.srv[name]
        server.remove_all()
        server.parent.remove_node(server)
        for label in server.labels:
            self.cell.partitions[label].remove(server)
        del self.srv[name]
        self.down_since_L.pop(name, None)

    def _move_keeps_limits(self, server, target):
        """True counts (from the leaves) after moving `server` below
        `target` stay within every declared limit on the new ancestors."""
        def under(node):
            if isinstance(node, S.Server):
                return list(node.apps.values())
            out = []
            for ch in node.children_iter():
                out.extend(under(ch))
            return out
        moving = list(server.apps.values())
        if not moving:
            return True
        old = set()
        n = server.parent
        while n is not None:
            old.add(id(n))
            n = n.parent
        n = target
        while n is not None:
            if id(n) not in old:
                apps = under(n) + moving
                for aff in {a.affinity.name for a in moving}:
                    same = [a for a in apps if a.affinity.name == aff]
                    for a in same:
                        lim = a.affinity.limits.get(n.level)
                        if lim is not None and len(same) > lim:
                            return False
            n = n.parent
        return True

    def set_alloc(self, aname, v):
        var = self.cfg['allocs'][aname]['variants'][v]
        alloc = self.allocs[aname]
        alloc.update(list(var.get('reserved', [0, 0, 0])), var.get('rank', 100),
                     var.get('adj', 0), var.get('max_util'))
        alloc.set_traits(var.get('traits', 0))
        self.alloc_variant[aname] = v

    def live(self):
        return list(self.cell.apps)

    # -- events -----------------------------------------------------------------
    def apply(self, ev):
        body, cyc = ev[:-1], ev[-1]
        kind = body[0]
        cell = self.cell
        if kind == 'add':
            t = self.cfg['templates'][body[1]]
            self.seq += 1
            name = 'p.%s#%010d' % (body[1], self.seq)
            app = S.Application(
                name, t.get('prio', 50), list(t['demand']), t.get('aff', body[1]),
                affinity_limits=t.get('limits'),
                data_retention_timeout=t.get('ret', 0),
                lease=t.get('lease', 0),
                identity_group=t.get('idg'),
                traits=t.get('traits', 0),
                schedule_once=t.get('once', False))
            self.tmpl[name] = body[1]
            cell.add_app(self.allocs[t.get('alloc', 'a')], app)
        elif kind == 'rm':
            name = self.live()[body[1]]
            cell.remove_app(name)
        elif kind == 'prio':
            app = cell.apps[self.live()[body[1]]]
            app.priority = body[2]
            cell.add_app(app.allocation, app)
        elif kind == 'move':
            app = cell.apps[self.live()[body[1]]]
            cell.add_app(self.allocs[body[2]], app)
        elif kind == 'down':
            server = self.srv[body[1]]
            if server.state is not State.down:
                self.down_since_L[body[1]] = CLOCK.L
            server.state = State.down
            for label in server.labels:
                cell.partitions[label].remove(server)
        elif kind == 'up':
            server = self.srv[body[1]]
            was_down = server.state is State.down
            server.set_state(State.up, CLOCK.time())
            self.down_since_L.pop(body[1], None)
            if was_down:
                for label in server.labels:
                    cell.partitions[label].add(server, None)
        elif kind == 'frz':
            server = self.srv[body[1]]
            if body[2] >= 0:
                names = list(server.apps)
                if body[2] < len(names):
                    server.apps[names[body[2]]].unschedule = True
                    self.marked.add((body[1], names[body[2]]))
            server.set_state(State.frozen, CLOCK.time())
            self.down_since_L.pop(body[1], None)
        elif kind == 'srm':
            self.remove_server(body[1])
        elif kind == 'smv':
            # the server, with what is placed on it, moves below another
            # bucket (Node.remove_node / add_node of the scheduler API)
            server = self.srv[body[1]]
            server.parent.remove_node(server)
            self.buckets[body[2]].add_node(server)
        elif kind == 'rld':
            # a 'cell' event: Loader.load_cell rebuilds the top level of the
            # tree from the (here unchanged) list of top-level buckets
            tops = list(cell.children_iter())
            cell.reset_children()
            for bucket in tops:
                cell.add_node(bucket)
        elif kind == 'sadd':
            self.add_server(body[1], body[2])
        elif kind == 'alloc':
            self.set_alloc(body[1], body[2])
        elif kind == 'idg':
            cell.configure_identity_group(body[1], body[2])
        elif kind == 'idgrm':
            cell.remove_identity_group(body[1])
        elif kind == 'bl':
            cell.apps[self.live()[body[1]]].blacklisted = bool(body[2])
        elif kind == 'renew':
            cell.apps[self.live()[body[1]]].renew = True
        elif kind == 'tick':
            CLOCK.advance(body[1])
            now = CLOCK.time()
            for part in cell.partitions.values():
                part.tick(now)
        elif kind == 'noop':
            pass
        elif kind == 'probe':
            self.apply_probe(body[1])
            return
        else:
            raise AssertionError('unknown event %r' % (ev,))
        normalise_hidden(cell)
        if cyc:
            self.cycle()
            normalise_hidden(cell)

    def apply_probe(self, idx):
        """C02: submit one probe instance to a dedicated, uncapped allocation
        directly under its partition root, run a cycle, compare with the
        leaf-scan oracle evaluated on the state before submission."""
        from mc.worlds import cellmon
        p = self.cfg['probes'][idx]
        cell = self.cell
        self.seq += 1
        name = 'q.probe#%010d' % self.seq
        app = S.Application(
            name, p.get('prio', 50), list(p['demand']), p['aff'],
            affinity_limits=p.get('limits'),
            lease=p.get('lease', 0), identity_group=p.get('idg'),
            traits=p.get('traits', 0))
        alloc = cell.partitions[p.get('label', '_default')].allocation \
            .get_sub_alloc('probe')
        alloc.update(None, p.get('rank', 100), 0, None)
        self.allocs.setdefault('probe:' + p.get('label', '_default'), alloc)
        self.alloc_variant.setdefault('probe:' + p.get('label', '_default'), 0)
        fits, why = cellmon.oracle_fits(self, app, p.get('label', '_default'))
        self.tmpl[name] = 'probe%d' % idx
        cell.add_app(alloc, app)
        self.cycle()
        self.stats['c02_probes'] += 1
        if fits:
            self.stats['c02_probes_fitting'] += 1
            if app.server is None:
                self.flag('fitting-instance-left-pending',
                          cellmon.c02_site(self, app),
                          {'probe': p, 'fits_on': why,
                           'pending': [self.tmpl[a.name] for a in
                                       cell.apps.values() if not a.server
                                       and a is not app]})
        else:
            self.stats['c02_probes_not_fitting'] += 1

    def snapshot(self):
        return snapshot_cell(self.cell)

    def cycle(self):
        del _QUEUES[:]
        del _PUT_LOG[:]
        pre = self.snapshot()
        res = self.cell.schedule()
        self.cycles += 1
        queues = [list(q) for q in _QUEUES]
        self.put_log = list(_PUT_LOG)
        self.last_cycle = (pre, res, queues)
        self.stats['cycles'] += 1
        for mon in self.monitors:
            mon(self, pre, res, queues)

    def flag(self, clause, site, detail):
        self.viol.append({'clause': clause, 'site': site, 'detail': detail})

    def put_site(self, appname):
        return _PUT_SITES.get(appname, '?')

    # -- menu -------------------------------------------------------------------
    def enabled(self):
        cfg = self.cfg
        menu = []
        nlive = len(self.cell.apps)
        for e in cfg['events']:
            kind = e[0]
            if kind == 'add':
                if nlive >= cfg.get('max_apps', 4):
                    continue
                if self.seq >= cfg.get('max_adds', 99):
                    continue
            elif kind in ('rm', 'prio', 'move', 'bl', 'renew'):
                if e[1] >= nlive:
                    continue
                app = self.cell.apps[self.live()[e[1]]]
                if kind == 'prio' and app.priority == e[2]:
                    continue
                if kind == 'move' and app.allocation is self.allocs[e[2]]:
                    continue
                if kind == 'bl' and app.blacklisted == bool(e[2]):
                    continue
                if kind == 'renew':
                    if not self._can_renew(app):
                        continue
            elif kind == 'smv':
                if e[1] not in self.srv or \
                        self.srv[e[1]].parent is self.buckets[e[2]]:
                    continue
                if not self._move_keeps_limits(self.srv[e[1]],
                                               self.buckets[e[2]]):
                    # the move itself would exceed a limit: the scheduler
                    # never re-validates limits of standing placements
                    continue
            elif kind in ('down', 'up', 'frz', 'srm'):
                if e[1] not in self.srv:
                    continue
                st = self.srv[e[1]].state
                if kind == 'down' and st is State.down:
                    continue
                if kind == 'up' and st is State.up:
                    continue
                if kind == 'frz':
                    if st is State.frozen:
                        continue
                    if e[2] >= len(self.srv[e[1]].apps):
                        continue
            elif kind == 'sadd':
                if e[1] in self.srv:
                    continue
            elif kind == 'alloc':
                if self.alloc_variant[e[1]] == e[2]:
                    continue
            elif kind == 'idg':
                grp = self.cell.identity_groups.get(e[1])
                if grp is not None and grp.count == e[2]:
                    continue
            elif kind == 'idgrm':
                if e[1] not in self.cell.identity_groups:
                    continue
            for cyc in (True, False):
                if not cyc and (kind in ('noop', 'renew')
                                or not cfg.get('allow_nocycle', True)):
                    continue
                menu.append(tuple(e) + (cyc,))
        return menu

    def _can_renew(self, app):
        if not app.server or app.renew or app.blacklisted:
            return False
        srv = self.srv.get(app.server)
        if srv is None or srv.state is not State.up:
            return False
        if app.identity_group_ref is not None:
            if app.identity is None or \
                    app.identity >= app.identity_group_ref.count:
                return False
        return True

    # -- canonical form -----------------------------------------------------------
    def canon(self):
        return (canon_cell(self.cell, lambda n: self.tmpl[n]),
                tuple(sorted(self.alloc_variant.items())), CLOCK.L,
                modstate.digest())


def normalise_hidden(cell):
    """`IdentityGroup.acquire` pops from a set; CPython's `set.pop` resumes
    from a hidden per-object cursor, so which identity is handed out depends
    on the pop/add history of that very object and not on its contents.  The
    harness owns that nondeterminism (DESIGN 2.1): after every event the set
    is rebuilt from its sorted contents, which makes the choice a function of
    the visible state and keeps the canonical key exact."""
    for grp in cell.identity_groups.values():
        grp.available = set(sorted(grp.available))


def snapshot_cell(cell):
    pre = Pre()
    pre.apps = {
        a.name: dict(server=a.server, identity=a.identity,
                     blacklisted=a.blacklisted, renew=a.renew,
                     evicted=a.evicted, unschedule=a.unschedule,
                     expiry=a.placement_expiry, lease=a.lease,
                     group=a.identity_group)
        for a in cell.apps.values()}
    pre.servers = {
        n: dict(state=s.state, since=s.get_state()[1],
                apps=list(s.apps), valid_until=s.valid_until)
        for n, s in cell.members().items()}
    pre.groups = {g: grp.count for g, grp in cell.identity_groups.items()}
    pre.now_L = CLOCK.L
    return pre


def _seq(name):
    return int(name.rsplit('#', 1)[1])


def canon_cell(cell, tmpl, extra_roots=()):
    """Canonical projection of a Cell: every field that steers the scheduler,
    instances renamed to (template, arrival rank)."""
    names = set(cell.apps)
    for srv in cell.members().values():
        names.update(srv.apps)

    def _servers_below(n):
        if isinstance(n, S.Server):
            yield n
        else:
            for ch in n.children_iter():
                for x in _servers_below(ch):
                    yield x
    for r in extra_roots:
        for srv in _servers_below(r):
            names.update(srv.apps)
    rank = {n: i for i, n in enumerate(sorted(names, key=_seq))}
    apps = tuple(
        (tmpl(a.name), rank[a.name], a.server, a.identity, a.priority,
         a.evicted, a.unschedule, a.renew, a.blacklisted,
         '/'.join(a.allocation.path) if a.allocation else None,
         str(a.allocation.label) if a.allocation else None,
         logical(a.placement_expiry), a.data_retention_timeout, a.lease)
        for a in cell.apps.values())

    def alloc(al):
        mu = al.max_utilization
        return ('/'.join(al.path), vec(al.reserved), al.rank,
                al.rank_adjustment, None if mu == float('inf') else mu,
                al.traits, tuple(rank.get(n, n) for n in al.apps),
                tuple(alloc(sub) for _n, sub in
                      sorted(al.sub_allocations.items())))

    def node(n):
        if isinstance(n, S.Server):
            return ('S', n.name, n.state.value, logical(n.get_state()[1]),
                    vec(n.init_capacity), vec(n.free_capacity),
                    tuple(sorted(map(str, n.labels))), n.traits.traits,
                    logical(n.valid_until),
                    tuple(rank.get(a, a) for a in n.apps),
                    tuple(sorted((k, v) for k, v in
                                 n.affinity_counters.items() if v)))
        return ('B', n.name, vec(n.free_capacity),
                tuple(sorted(map(str, n.labels))), n.traits.traits,
                logical(n.valid_until),
                tuple(sorted((k, v) for k, v in
                             n.affinity_counters.items() if v)),
                tuple(sorted((aff, st.current_idx) for aff, st in
                             n.affinity_strategies.items())),
                tuple(node(c) if c else None for c in n.children))
    groups = tuple(sorted(
        (g, grp.count, tuple(sorted(grp.available)))
        for g, grp in cell.identity_groups.items()))
    parts = tuple(
        (str(label), alloc(part.allocation),
         tuple((logical(b.timestamp),
                tuple(sorted(s.name for s in b.servers)))
               for b in part._reboot_buckets if b.servers))
        for label, part in sorted(cell.partitions.items(),
                                  key=lambda kv: str(kv[0])))
    # subtrees the loader knows but that are not part of the cell
    detached = tuple(sorted((node(r) for r in extra_roots),
                            key=lambda t: t[1]))
    return (apps, node(cell), groups, parts, detached)
