"""Configurations for World B."""


def m1():
    """rack:0 {s0, s1}, rack:1 {s2}; one tenant; identity group g."""
    return {
        'buckets': [('rack:0', None), ('rack:1', None)],
        'servers': {
            's0': {'parent': 'rack:0', 'variants': [
                {'cap': ['10M', '10%', '10M']}, {'cap': ['6M', '6%', '6M']}]},
            's1': {'parent': 'rack:0', 'variants': [
                {'cap': ['10M', '10%', '10M']}]},
            's2': {'parent': 'rack:1', 'variants': [
                {'cap': ['10M', '4%', '10M']}]},
        },
        'allocations': [
            [{'name': 'ta', 'partition': '_default', 'rank': 100,
              'memory': '0M', 'cpu': '0%', 'disk': '0M',
              'assignments': [{'pattern': 'p.*', 'priority': 50}]}],
            [{'name': 'ta', 'partition': '_default', 'rank': 100,
              'memory': '6M', 'cpu': '6%', 'disk': '6M', 'max_utilization': 1,
              'assignments': [{'pattern': 'p.*', 'priority': 50}]}],
        ],
        'idgroups': {'g': 2},
        'templates': {
            'sm': {'memory': '3M', 'cpu': '3%', 'disk': '3M', 'affinity': 'a',
                   'data_retention_timeout': '30s'},
            'id': {'memory': '6M', 'cpu': '2%', 'disk': '2M', 'affinity': 'b',
                   'identity_group': 'g'},
            'hi': {'memory': '10M', 'cpu': '10%', 'disk': '10M',
                   'affinity': 'c', 'priority': 100},
            'on': {'memory': '6M', 'cpu': '6%', 'disk': '6M', 'affinity': 'd',
                   'priority': 1, 'schedule_once': True},
            'ls': {'memory': '2M', 'cpu': '2%', 'disk': '2M', 'affinity': 'e',
                   'lease': '1d', 'data_retention_timeout': '30s'},
        },
        # patterns are fnmatch globs over proid.app: a literal proid, a glob
        # in the proid part, no dot at all
        'blacklists': [[], ['p.sm'], ['*.sm'], ['p*m']],
        'max_apps': 4,
        'events': [],
    }


def ev(*events):
    return [tuple(e) for e in events]


def m2():
    """Two partitions, traits, two tenants; allocation variants move the
    pattern p.* to the tenant of the other partition / change its traits."""
    def allocs(p_to, ta_traits, ta_part='_default'):
        ta = {'name': 'ta', 'partition': ta_part, 'rank': 100,
              'memory': '0M', 'cpu': '0%', 'disk': '0M',
              'traits': ta_traits, 'assignments': []}
        tb = {'name': 'tb', 'partition': 'p2', 'rank': 100,
              'memory': '0M', 'cpu': '0%', 'disk': '0M',
              'traits': ['t1'], 'assignments': [
                  {'pattern': 'q.*', 'priority': 50}]}
        if p_to is not None:
            (ta if p_to == 'ta' else tb)['assignments'].append(
                {'pattern': 'p.*', 'priority': 50})
        return [ta, tb]
    return {
        'traits': ['t1', 't2'],
        'partitions': {'p2': {}},
        'buckets': [('rack:0', None), ('rack:1', None)],
        'servers': {
            's0': {'parent': 'rack:0', 'variants': [
                {'cap': ['10M', '10%', '10M'], 'partition': None},
                {'cap': ['10M', '10%', '10M'], 'partition': 'p2',
                 'traits': ['t1']},
                {'cap': ['10M', '10%', '10M'], 'partition': None,
                 'traits': ['t1']}]},
            's1': {'parent': 'rack:1', 'variants': [
                {'cap': ['10M', '6%', '10M'], 'partition': None,
                 'traits': ['t1']},
                {'cap': ['10M', '6%', '10M'], 'partition': None}]},
            's2': {'parent': 'rack:0', 'variants': [
                {'cap': ['6M', '10%', '10M'], 'partition': 'p2',
                 'traits': ['t1']}]},
            's3': {'parent': 'rack:1', 'variants': [
                {'cap': ['10M', '10%', '10M'], 'partition': 'p2',
                 'traits': ['t1', 't2']}]},
        },
        # variant 3: tenant 'ta' itself moves to partition p2 (same
        # allocation name in another partition)
        'allocations': [allocs('ta', []), allocs('tb', []),
                        allocs('ta', ['t1']), allocs('ta', ['t1'], 'p2'),
                        # variant 4: the assignment of p.* is withdrawn
                        # (instances fall back to the default tenant)
                        allocs(None, []),
                        # variant 5: the tenant requires a trait that no
                        # server offers and /traits does not list
                        allocs('ta', ['zz'])],
        'templates': {
            'pl': {'memory': '3M', 'cpu': '3%', 'disk': '3M', 'affinity': 'a'},
            't1': {'memory': '6M', 'cpu': '2%', 'disk': '2M', 'affinity': 'b',
                   'traits': ['t1']},
            'tx': {'memory': '2M', 'cpu': '2%', 'disk': '2M', 'affinity': 'c',
                   'traits': ['nosuch']},
            'hi': {'memory': '10M', 'cpu': '6%', 'disk': '10M',
                   'affinity': 'd', 'priority': 100},
        },
        'blacklists': [[], ['p.pl']],
        'max_apps': 4,
        'events': [],
    }


def m4():
    """One server, identity group of 2: re-placement lands on the same server."""
    cfg = m1()
    cfg['buckets'] = [('rack:0', None)]
    cfg['servers'] = {
        's0': {'parent': 'rack:0', 'variants': [
            {'cap': ['10M', '10%', '10M']}, {'cap': ['8M', '8%', '8M']}]},
    }
    cfg['idgroups'] = {'g': 2}
    cfg['templates'] = {
        'id': {'memory': '2M', 'cpu': '2%', 'disk': '2M', 'affinity': 'b',
               'identity_group': 'g'},
        'ls': {'memory': '2M', 'cpu': '2%', 'disk': '2M', 'affinity': 'e',
               'lease': '1d'},
    }
    return cfg
