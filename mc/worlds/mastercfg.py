"""Configurations for World B."""


def m1():
    """rack:0 {s0, s1}, rack:1 {s2}; one tenant; identity group g."""
    return {
        'buckets': [('rack:0', None), ('rack:1', None)],
        'servers': {
            's0': {'parent': 'rack:0', 'variants': [
                {'cap': ['10M', '10%', '10M']}, {'cap': ['6M', '6%', '6M']}]},
            's1': {'parent': 'rack:0', 'variants': [
                {'cap': ['10M', '10%', '10M']}]},
            's2': {'parent': 'rack:1', 'variants': [
                {'cap': ['10M', '4%', '10M']}]},
        },
        'allocations': [
            [{'name': 'ta', 'partition': '_default', 'rank': 100,
              'memory': '0M', 'cpu': '0%', 'disk': '0M',
              'assignments': [{'pattern': 'p.*', 'priority': 50}]}],
            [{'name': 'ta', 'partition': '_default', 'rank': 100,
              'memory': '6M', 'cpu': '6%', 'disk': '6M', 'max_utilization': 1,
              'assignments': [{'pattern': 'p.*', 'priority': 50}]}],
        ],
        'idgroups': {'g': 2},
        'templates': {
            'sm': {'memory': '3M', 'cpu': '3%', 'disk': '3M', 'affinity': 'a',
                   'data_retention_timeout': '30s'},
            'id': {'memory': '6M', 'cpu': '2%', 'disk': '2M', 'affinity': 'b',
                   'identity_group': 'g'},
            'hi': {'memory': '10M', 'cpu': '10%', 'disk': '10M',
                   'affinity': 'c', 'priority': 100},
            'on': {'memory': '6M', 'cpu': '6%', 'disk': '6M', 'affinity': 'd',
                   'priority': 1, 'schedule_once': True},
            'ls': {'memory': '2M', 'cpu': '2%', 'disk': '2M', 'affinity': 'e',
                   'lease': '1d', 'data_retention_timeout': '30s'},
        },
        'blacklists': [[], ['p.sm']],
        'max_apps': 4,
        'events': [],
    }


def ev(*events):
    return [tuple(e) for e in events]
