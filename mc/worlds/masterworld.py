"""World B: the real Master + ZkBackend + masterapi on the in-memory ZooKeeper.

Cell content is created with the real `masterapi` from an admin session;
server presence nodes are ephemerals of per-node sessions.  The master's
handlers are called exactly as the watcher would call them (un-wrapped from
exit_on_unhandled).  See DESIGN 3.2.
"""
import collections
import logging

logging.disable(logging.CRITICAL)

from mc import modstate  # noqa: E402
from mc import vclock  # noqa: E402
from mc.vclock import CLOCK, logical  # noqa: E402

vclock.install()

from mc import fakezk  # noqa: E402
from mc.worlds import cellworld  # noqa: E402  (sets DIMENSION_COUNT, wrappers)
from mc.worlds.cellworld import S, State  # noqa: E402

from treadmill import zknamespace as z  # noqa: E402
from treadmill import zkutils  # noqa: E402
from treadmill.scheduler import master as tm_master  # noqa: E402
from treadmill.scheduler import masterapi  # noqa: E402
from treadmill.scheduler import zkbackend  # noqa: E402

ADMIN_SID = 1

ROOTS = [
    z.ALLOCATIONS, z.APPMONITORS, z.BLACKEDOUT_SERVERS, z.BUCKETS, z.CELL,
    z.ENDPOINTS, z.EVENTS, z.FINISHED, z.FINISHED_HISTORY, z.IDENTITY_GROUPS,
    z.PARTITIONS, z.PLACEMENT, z.REBOOTS, z.RUNNING, z.SCHEDULED, z.SCHEDULER,
    z.SERVER_PRESENCE, z.SERVERS, z.SERVER_TRACE, z.STATE_REPORTS,
    z.STRATEGIES, z.TRACE, z.TRACE_HISTORY, z.TRAITS, z.VERSION,
]

_SCHEDULE_RESULTS = []
_orig_schedule = S.Cell.schedule


def _schedule_wrap(self):
    res = _orig_schedule(self)
    _SCHEDULE_RESULTS.append(res)
    return res


S.Cell.schedule = _schedule_wrap

_BASE_CACHE = {}

# servers the master froze by itself (Master._check_pending_start), observed
# at the method it shares with the admin's server_state events
_FREEZES = []
_orig_freeze = tm_master.Master._freeze_server


def _freeze_wrap(self, servername, apps=None, *args, **kwargs):
    _FREEZES.append((servername, list(apps or [])))
    return _orig_freeze(self, servername, apps, *args, **kwargs)


tm_master.Master._freeze_server = _freeze_wrap


class StepCrash(Exception):
    """Marks the world as dead after an injected crash."""


def _server_record(spec_variant, parent):
    rec = {'parent': parent, 'partition': spec_variant.get('partition'),
           'memory': spec_variant['cap'][0], 'cpu': spec_variant['cap'][1],
           'disk': spec_variant['cap'][2]}
    if spec_variant.get('traits'):
        rec['traits'] = list(spec_variant['traits'])
    if 'up_since' in spec_variant:
        rec['up_since'] = spec_variant['up_since']
    return rec


def build_base(cfg):
    """Base tree (all nodes stamped with event index 0)."""
    tree = fakezk.Tree(clock_ms=CLOCK.zk_ms)
    admin = tree.client(ADMIN_SID)
    for p in ROOTS:
        admin.ensure_path(p)
    if cfg.get('traits'):
        zkutils.put(admin, z.path.traits(), cfg['traits'])
    for label, data in cfg.get('partitions', {}).items():
        zkutils.put(admin, z.path.partition(label), data)
    for name, parent in cfg['buckets']:
        masterapi.create_bucket(admin, name, parent)
        if name in cfg.get('bucket_levels', {}):
            # a bucket whose record states its level explicitly
            zkutils.update(admin, z.path.bucket(name),
                           {'level': cfg['bucket_levels'][name]})
        if parent is None and name not in cfg.get('out_of_cell', ()):
            masterapi.cell_insert_bucket(admin, name)
    sid = 10
    for name, spec in cfg['servers'].items():
        if not spec.get('initial', True):
            continue
        var = spec['variants'][0]
        masterapi.create_server(admin, name, spec['parent'],
                                partition=var.get('partition'))
        zkutils.update(admin, z.path.server(name),
                       _server_record(var, spec['parent']))
        node = tree.client(sid)
        sid += 1
        zkutils.put(node, z.path.server_presence(name), {}, ephemeral=True)
    masterapi.update_allocations(admin, cfg['allocations'][0])
    for g, n in cfg.get('idgroups', {}).items():
        masterapi.update_identity_group(admin, g, n)
    for ev in admin.get_children(z.EVENTS):
        admin.delete(z.path.event(ev))
    tree.next_sid = 100
    tree.log = []
    tree.write_count = 0
    return tree


class _Tmpl:
    """dict-like view name -> template, so that World-A monitors can be
    reused on the master's cell."""

    def __getitem__(self, name):
        return name.split('#')[0].split('.', 1)[1]

    def get(self, name, default=None):
        try:
            return self[name]
        except (IndexError, AttributeError):
            return default


class MasterWorld:
    tmpl = _Tmpl()

    def __init__(self, cfg):
        CLOCK.reset()
        cellworld._PUT_SITES.clear()
        self.cfg = cfg
        self.viol = []
        self.stats = collections.Counter()
        key = id(cfg)
        if key not in _BASE_CACHE:
            _BASE_CACHE[key] = build_base(cfg)
            CLOCK.reset()
            # building the base tree ran real code (masterapi, zkutils):
            # whatever it left at module level is not part of any history
            modstate.reset()
        self.tree = _BASE_CACHE[key].clone()
        self.admin = fakezk.Client(self.tree, ADMIN_SID)
        self.monitors = cfg.get('monitors', [])
        self.cellmonitors = cfg.get('cellmonitors', [])
        self.down_since_L = {}
        self.marked = set()
        self.api_deleted = set()
        self.truth = {}         # server -> 'up' | 'down' | 'frozen' (harness truth)
        self.pending_truth = []  # freeze/unfreeze events not yet processed
        self.bl_idx = 0
        self.late = False
        self.split_after = None  # deviation 'S': admin writes before the split
        self.admin_writes = 0
        self.undelivered = []   # [(path, children)] captured, not yet processed
        self.put_log = []
        self.srv_variant = {n: 0 for n, s in cfg['servers'].items()
                            if s.get('initial', True)}
        self.alloc_variant = 0
        self.master = None
        self.master_sid = None
        self.dead = False
        self.last_results = []
        self.crash_at = None
        self.master_writes = 0
        self._log_pos = 0
        self.tree.hook = self._hook
        self.start_master(first=True)

    # -- plumbing -----------------------------------------------------------
    @property
    def cell(self):
        return self.master.cell

    def tmpl_of(self, name):
        return name.split('#')[0].split('.', 1)[1]

    @property
    def exception_site_suffix(self):
        # masterapi.delete_server removed /placement/<server> while the
        # master still holds that server with instances on it
        for name in self.api_deleted:
            srv = self.master.servers.get(name)
            if srv is not None and srv.apps:
                return (' [placement records removed by masterapi.'
                        'delete_server before the master handled the '
                        'deletion]')
        return ''

    def flag(self, clause, site, detail):
        self.viol.append({'clause': clause, 'site': site, 'detail': detail})

    def put_site(self, appname):
        return cellworld._PUT_SITES.get(appname, '?')

    def _hook(self, client, op, path):
        """Called before every ZooKeeper operation.  `master_writes` counts
        the *successful* mutations of the current master session (taken from
        tree.log); a crash is injected at the first operation issued after
        `crash_at` of them reached ZooKeeper."""
        if client.sid == ADMIN_SID and self.split_after is not None and \
                op in ('create', 'set', 'delete'):
            # deviation 'S': the master's watches fire between two writes of
            # ONE admin API call (its handlers and a cycle run on what has
            # reached ZooKeeper so far)
            if self.admin_writes == self.split_after:
                self.split_after = None
                self.stats['admin_calls_split'] += 1
                self.deliver(z.EVENTS, z.SCHEDULED)
                # the stored state is half-way through an admin call the
                # master has not been told about: clauses that compare with
                # what is stored wait for the end of the call
                saved, self.monitors = self.monitors, []
                try:
                    self.cycle()
                finally:
                    self.monitors = saved
            self.admin_writes += 1
        if client.sid != self.master_sid:
            return
        log = self.tree.log
        while self._log_pos < len(log):
            if log[self._log_pos][0] == self.master_sid:
                self.master_writes += 1
            self._log_pos += 1
        if self.crash_at is not None and self.master_writes >= self.crash_at:
            self.crash_at = None
            raise fakezk.Crash()

    def children(self, path):
        return self.admin.get_children(path)

    def live(self):
        """Scheduled instances in arrival order."""
        return sorted(self.children(z.SCHEDULED), key=cellworld._seq)

    # -- master life cycle ----------------------------------------------------
    def new_master(self):
        if self.master_sid is not None:
            self.tree.expire(self.master_sid)
        client = self.tree.client()
        self.master_sid = client.sid
        self.master_client = client
        self.master_writes = 0
        backend = zkbackend.ZkBackend(client)
        self.master = tm_master.Master(backend, 'cell')
        return self.master

    def start_master(self, first=False, cycle=True):
        """Body of Master.run_loop up to (and including) the first loop turn."""
        # what the previous master had published (ZooKeeper truth for the
        # start-up clauses of C08)
        from mc.worlds import mastermon as _mm
        self.records_before_start = sorted(_mm.placement_dump(self))
        m = self.new_master()
        self.undelivered = []
        self.api_deleted = set()
        m.load_model()
        self._init_schedule()
        self.after_cycle('init_schedule')
        # attach_watchers(): every watch fires once with the current children
        m.process_server_presence(self.children(z.SERVER_PRESENCE))
        m.up_to_date = False
        m.process_scheduled(self.children(z.SCHEDULED))
        m.process_events(self.children(z.EVENTS))
        m.process_blackedout_servers(self.children(z.BLACKEDOUT_SERVERS))
        self._apply_pending_truth()
        self._track_states(full=True)
        if cycle:
            self.cycle()

    def _init_schedule(self):
        del _SCHEDULE_RESULTS[:]
        self.master.init_schedule()
        self.last_results = list(_SCHEDULE_RESULTS)

    def cycle(self):
        m = self.master
        if m.up_to_date:
            return
        del _SCHEDULE_RESULTS[:]
        del cellworld._QUEUES[:]
        del cellworld._PUT_LOG[:]
        pre = cellworld.snapshot_cell(m.cell) if self.cellmonitors else None
        sched_before = self.children(z.SCHEDULED)
        m.reschedule()
        if self.children(z.SCHEDULED) != sched_before and not any(
                p == z.SCHEDULED for p, _k in self.undelivered):
            # the master unscheduled instances itself (_unschedule_evicted):
            # its own /scheduled watch fires and is processed later
            self.undelivered.append(
                (z.SCHEDULED, list(self.children(z.SCHEDULED))))
        self.last_results = list(_SCHEDULE_RESULTS)
        self.stats['cycles'] += 1
        if self.cellmonitors:
            # model-level properties are stated "after every scheduling
            # cycle": checked before the master's own integrity check can
            # abort the loop
            self.put_log = list(cellworld._PUT_LOG)
            queues = [list(q) for q in cellworld._QUEUES]
            for mon in self.cellmonitors:
                mon(self, pre, self.last_results[-1], queues)
        m.check_placement_integrity()
        self.after_cycle('reschedule')

    def after_cycle(self, kind):
        for mon in self.monitors:
            mon(self, kind)

    def deliver(self, *paths):
        """Deliver the children watches of the given paths, in that order.

        Model of the watcher threads: at most one notification per path is
        outstanding (the watcher blocks until the master has processed it).
        With `self.late` set (deviation 'L') the children list is captured now
        - as the watcher thread would when the notification arrives - but
        processed later, i.e. after later changes reached ZooKeeper.  When an
        outstanding notification is finally processed and the children have
        changed meanwhile, the re-armed watch fires again; that new
        notification arrives asynchronously and is processed at the next
        delivery (so a scheduling cycle can fall in between)."""
        outstanding = {p for p, _k in self.undelivered}
        if self.late:
            for path in paths:
                if path not in outstanding:
                    self.undelivered.append((path, list(self.children(path))))
                    outstanding.add(path)
            return
        queue, self.undelivered = self.undelivered, []
        for path, kids in queue:
            self._process(path, kids)
            current = self.children(path)
            changed = current != kids
            if path == z.EVENTS:
                # the master deletes the event nodes it processed itself
                changed = bool(set(current) - set(kids))
            if changed and path not in paths:
                self.undelivered.append((path, list(current)))
            if path == z.EVENTS:
                # only the state events that were in the processed batch
                self._apply_pending_truth(set(kids))
        for path in paths:
            kids_now = self.children(path)
            self._process(path, kids_now)
            if path == z.EVENTS:
                self._apply_pending_truth(set(kids_now))

    def _process(self, path, kids):
        m = self.master
        if path == z.SCHEDULED:
            m.process_scheduled(kids)
        elif path == z.EVENTS:
            m.process_events(kids)
        elif path == z.SERVER_PRESENCE:
            m.process_server_presence(kids)
            self._presence_examined(kids)
        elif path == z.BLACKEDOUT_SERVERS:
            m.process_blackedout_servers(kids)
        m.up_to_date = False

    # -- events -------------------------------------------------------------
    def apply(self, ev):
        try:
            self._apply(ev)
        finally:
            m = getattr(self, 'master', None)
            if m is not None and getattr(m, 'cell', None) is not None:
                cellworld.normalise_hidden(m.cell)
                self.api_deleted = {
                    n for n in self.api_deleted
                    if n in m.servers and m.servers[n].apps}

    def _apply(self, ev):
        if self.dead:
            raise AssertionError('world is dead')
        CLOCK.next_event()
        body, cyc = ev[:-1], ev[-1]
        self.late = (cyc == 'L')
        if self.late:
            cyc = False
        self.split_after = None
        self.admin_writes = 0
        if cyc == 'S':
            self.split_after = 1
            cyc = True
        kind = body[0]
        cfg = self.cfg
        admin = self.admin
        self.just_submitted = None
        if kind == 'app+':
            t = cfg['templates'][body[1]]
            before_ = set(self.children(z.SCHEDULED))
            masterapi.create_apps(admin, 'p.' + body[1], dict(t), 1)
            new_ = sorted(set(self.children(z.SCHEDULED)) - before_)
            self.just_submitted = new_[0] if len(new_) == 1 else None
            self.deliver(z.SCHEDULED)
        elif kind == 'app-':
            masterapi.delete_apps(admin, [self.live()[body[1]]])
            self.deliver(z.SCHEDULED)
        elif kind == 'prio':
            masterapi.update_app_priorities(
                admin, {self.live()[body[1]]: body[2]})
            self.deliver(z.EVENTS)
        elif kind == 'pres-':
            admin.delete(z.path.server_presence(body[1]))
            self.deliver(z.SERVER_PRESENCE)
            self._track_states()
        elif kind == 'pres+':
            name, v = body[1], body[2]
            spec = cfg['servers'][name]
            if v != self.srv_variant.get(name):
                # sproc/init._node_initialize: a cold-started node merges
                # what it detects (capacity, traits) into its record and
                # then registers; nobody posts a 'servers' event - the
                # master re-reads the record because the server comes up
                zkutils.update(admin, z.path.server(name),
                               _server_record(spec['variants'][v],
                                              spec['parent']))
                self.srv_variant[name] = v
            node = self.tree.client()
            zkutils.put(node, z.path.server_presence(name), {},
                        ephemeral=True)
            self.deliver(z.EVENTS, z.SERVER_PRESENCE)
        elif kind == 'srv':
            # admin changes the record of a server (capacity / partition /
            # traits variant) while it is registered
            name, v = body[1], body[2]
            spec = cfg['servers'][name]
            zkutils.update(admin, z.path.server(name),
                           _server_record(spec['variants'][v], spec['parent']))
            masterapi.create_event(admin, 0, 'servers', [name])
            self.srv_variant[name] = v
            self.deliver(z.EVENTS)
        elif kind == 'srv-':
            srv = self.master.servers.get(body[1])
            if srv is not None and srv.apps:
                self.api_deleted.add(body[1])
            masterapi.delete_server(admin, body[1])
            if admin.exists(z.path.server_presence(body[1])):
                admin.delete(z.path.server_presence(body[1]))
            self.srv_variant.pop(body[1], None)
            self.deliver(z.EVENTS, z.SERVER_PRESENCE)
        elif kind == 'srv+':
            name, v = body[1], body[2]
            spec = cfg['servers'][name]
            var = spec['variants'][v]
            masterapi.create_server(admin, name, spec['parent'],
                                    partition=var.get('partition'))
            zkutils.update(admin, z.path.server(name),
                           _server_record(var, spec['parent']))
            masterapi.create_event(admin, 0, 'servers', [name])
            self.srv_variant[name] = v
            node = self.tree.client()
            zkutils.put(node, z.path.server_presence(name), {},
                        ephemeral=True)
            self.deliver(z.EVENTS, z.SERVER_PRESENCE)
        elif kind == 'alloc':
            masterapi.update_allocations(admin, cfg['allocations'][body[1]])
            self.alloc_variant = body[1]
            self.deliver(z.EVENTS)
        elif kind == 'idg':
            masterapi.update_identity_group(admin, body[1], body[2])
            self.deliver(z.EVENTS)
        elif kind == 'idg-':
            masterapi.delete_identity_group(admin, body[1])
            self.deliver(z.EVENTS)
        elif kind == 'state':
            name, state, mark = body[1], body[2], body[3]
            apps = None
            if mark >= 0:
                placed = sorted(self.children(z.path.placement(name)),
                                key=cellworld._seq)
                apps = placed[mark:mark + 1]
                if state == 'frozen':
                    self.marked.update((name, a) for a in apps)
            ev_before = set(self.children(z.EVENTS))
            masterapi.update_server_state(admin, name, state, apps)
            ev_new = sorted(set(self.children(z.EVENTS)) - ev_before)
            # the freeze truth changes when the master processes THIS event
            self.pending_truth.append((name, state,
                                       ev_new[0] if ev_new else None))
            self.deliver(z.EVENTS)
        elif kind == 'bl':
            self.bl_idx = body[1]
            zkutils.put(admin, z.BLACKEDOUT_APPS, cfg['blacklists'][body[1]])
            masterapi.create_event(admin, 0, 'apps_blacklist', None)
            self.deliver(z.EVENTS)
        elif kind == 'srvp':
            # admin moves a server below another bucket
            masterapi.update_server_parent(admin, body[1], body[2])
            self.deliver(z.EVENTS)
        elif kind == 'blk':
            node = z.path.blackedout_server(body[1])
            if body[2]:
                zkutils.ensure_exists(admin, node)
            else:
                zkutils.ensure_deleted(admin, node)
            self.deliver(z.BLACKEDOUT_SERVERS)
        elif kind == 'cell-':
            masterapi.cell_remove_bucket(admin, body[1])
            self.deliver(z.EVENTS)
        elif kind == 'cell+':
            masterapi.cell_insert_bucket(admin, body[1])
            self.deliver(z.EVENTS)
        elif kind == 'tick':
            # time alone never makes the master run a cycle
            CLOCK.advance(body[1])
            self.master.tick_reboots()
        elif kind == 'noop':
            self.master.up_to_date = False
        elif kind == 'run+':
            # the node agent started the container: /running/<instance>
            inst, host = self._startable(body[1])
            node = self.tree.client()
            zkutils.put(node, z.path.running(inst), host, ephemeral=True)
        elif kind == 'chk':
            # periodic task of Master.run_loop (every 30 s): instances that
            # are placed but not running for _APP_START_INTERVAL make the
            # master freeze their server and unschedule them
            del _FREEZES[:]
            self.master.check_integrity()
            self.stats['integrity_checks'] += 1
            for name, apps in _FREEZES:
                self.stats['servers_frozen_by_master'] += 1
                self.marked.update((name, a) for a in apps)
                if self.truth.get(name) != 'down':
                    self.truth[name] = 'frozen'
            del _FREEZES[:]
        elif kind == 'restart':
            self.start_master(cycle=cyc)
            return
        elif kind == 'dup':
            # a newly elected master finds an instance recorded under two
            # servers (left behind by an older master; Loader.
            # restore_placements has a branch for exactly this): a copy of
            # the record appears under a second server and a master starts
            inst, cur = self._dup_target(body[1], body[2])
            data = zkutils.get_default(admin, z.path.placement(cur, inst))
            zkutils.put(admin, z.path.placement(body[2], inst), data)
            self.stats['dup_restarts'] += 1
            self.start_master(cycle=cyc)
            return
        elif kind == 'crash':
            self.crash_step(body[1], body[2],
                            event=tuple(body[3]) if len(body) > 3 else None)
            return
        elif kind == 'reload-check':
            from mc.worlds import mastermon
            n = mastermon.check_c11(self)
            self.last_reload_reads = n
            return
        elif kind == 'reload-fault':
            # the same load with its k-th ZooKeeper read failing
            from mc.worlds import mastermon
            mark = len(self.viol)
            mastermon.check_c11(self, fail_read=body[1])
            for v in self.viol[mark:]:
                v['site'] += ' [one read of the load failed]'
            return
        else:
            raise AssertionError('unknown event %r' % (ev,))
        self._track_states()
        if cyc:
            self.cycle()

    def _startable(self, idx):
        """(instance, host) if instance `idx` is recorded under a present
        server and not yet reported running, else None."""
        live = self.live()
        if idx >= len(live):
            return None
        inst = live[idx]
        if inst in self.children(z.RUNNING):
            return None
        present = set(self.children(z.SERVER_PRESENCE))
        for s in self.children(z.PLACEMENT):
            if s in present and inst in self.children(z.path.placement(s)):
                return inst, s
        return None

    def _sweep_running(self):
        """A container whose placement record is gone (or whose node lost its
        session) is not running any more: the node agent removes the
        /running node (ephemeral of the node's session)."""
        present = set(self.children(z.SERVER_PRESENCE))
        for inst in self.children(z.RUNNING):
            host = zkutils.get_default(self.admin, z.path.running(inst))
            if host not in present or not self.admin.exists(
                    z.path.placement(host, inst)):
                self.admin.delete(z.path.running(inst))

    def level_of(self, node):
        """Topology level of a node of the master's tree, from ZooKeeper."""
        if node is self.master.cell:
            return 'cell'
        if isinstance(node, S.Server):
            return 'server'
        rec = zkutils.get_default(self.admin, z.path.bucket(node.name)) or {}
        return rec.get('level', node.name.split(':')[0])

    def _dup_target(self, idx, other):
        """(instance, server it is recorded under) if instance `idx` has
        exactly one record and it is not under `other`, else None."""
        live = self.live()
        if idx >= len(live) or other not in self.children(z.PLACEMENT):
            return None
        inst = live[idx]
        at = [s for s in self.children(z.PLACEMENT)
              if inst in self.children(z.path.placement(s))]
        if len(at) != 1 or at[0] == other:
            return None
        return inst, at[0]

    def _track_states(self, full=False):
        self._sweep_running()
        self._track_states_(full)

    def _track_states_(self, full=False):
        """Harness-side truth about server states, independent of the model.

        Presence: when the master processes a presence notification it
        re-checks ZooKeeper for exactly the servers on which the list
        disagrees with what it knew; `_presence_examined` mirrors that from
        the harness' own truth.  `full=True` (master start) reads everything.
        Frozen: while a processed freeze event stands.  Otherwise the model's
        own state (up, or down by an explicit state event) is used."""
        known = set(self.children(z.SERVERS))
        if full:
            live = set(self.children(z.SERVER_PRESENCE))
            for name in known:
                if name not in live:
                    self.truth[name] = 'down'
                elif self.truth.get(name) == 'down':
                    self.truth.pop(name)
        for name in list(self.truth):
            if name not in known:
                del self.truth[name]
        for name in known:
            srv = self.master.servers.get(name)
            down = self.truth.get(name) == 'down' or (
                name not in self.truth and srv is not None and
                srv.state is State.down)
            if down:
                self.down_since_L.setdefault(name, CLOCK.L)
            else:
                self.down_since_L.pop(name, None)
        for name in list(self.down_since_L):
            if name not in known:
                del self.down_since_L[name]

    def _presence_examined(self, kids):
        live = set(self.children(z.SERVER_PRESENCE))
        for name in self.children(z.SERVERS):
            known_present = self.truth.get(name) != 'down'
            if (name in kids) != known_present:
                if name in live:
                    if self.truth.get(name) == 'down':
                        self.truth.pop(name)
                else:
                    self.truth[name] = 'down'
        self._track_states()

    def _apply_pending_truth(self, processed=None):
        """processed: names of the /events nodes the master has just handled
        (None: everything stored, e.g. at a master start)."""
        rest = []
        for name, state, evnode in self.pending_truth:
            if processed is not None and evnode is not None and \
                    evnode not in processed:
                rest.append((name, state, evnode))
                continue
            if state == 'frozen':
                self.truth[name] = 'frozen'
            else:
                self.truth.pop(name, None)
        self.pending_truth = rest

    def truth_state(self, name, model_state):
        # self.truth only changes at points where the master has processed
        # every presence notification (see _track_states), so it is what the
        # master can know even while a newer notification is outstanding
        return {'down': State.down,
                'frozen': State.frozen}.get(self.truth.get(name), model_state)

    def truth_blacklisted(self, appname, model_flag):
        import fnmatch
        if any(p == z.EVENTS for p, _k in self.undelivered):
            return model_flag
        base = appname.split('#')[0]
        return any(fnmatch.fnmatch(base, pat)
                   for pat in self.cfg.get('blacklists', [[]])[self.bl_idx])

    # -- crash injection ------------------------------------------------------
    def count_writes(self, step, event=None):
        """Run `step` to completion and return the number of master writes."""
        self._hook(self.master_client, 'flush', '/')
        before = self.master_writes
        sid = self.master_sid
        self.step_died = False
        try:
            self.run_step(step, event)
        except Exception as exc:  # pylint: disable=broad-except
            from mc import statex
            if statex.impl_site(exc.__traceback__) == 'harness':
                raise
            # the master dies by itself at the end of what it wrote: one more
            # cut point (after its last write)
            self.step_died = True
        extra = 1 if self.step_died else 0
        if step == 'restart':
            # all writes of the new session belong to the step
            return sum(1 for e in self.tree.log
                       if e[0] == self.master_sid) + extra
        self._hook(self.master_client, 'flush', '/')
        assert sid == self.master_sid
        return self.master_writes - before + extra

    def run_step(self, step, event=None):
        if step == 'event':
            self.apply(event)
        elif step == 'cycle':
            self.cycle()
        elif step == 'restart':
            self.start_master(cycle=True)
        else:
            raise AssertionError(step)

    def crash_step(self, step, k, event=None):
        """Cut `step` before its (k+1)-th storage write, check the stored
        state, then start a new master on it (C10)."""
        from mc.worlds import mastermon
        if step == 'restart':
            # the crash hits the *new* master during its start-up
            self.new_master()
            self.crash_at = k
            crashed = self._crashing(self._startup_body)
        elif step == 'event':
            # the master dies while handling `event` (handlers + cycle)
            self._hook(self.master_client, 'flush', '/')
            self.crash_at = self.master_writes + k
            CLOCK.ev -= 1       # the nested apply() takes its own event index
            crashed = self._crashing(lambda: self.apply(event))
        else:
            self._hook(self.master_client, 'flush', '/')
            self.crash_at = self.master_writes + k
            crashed = self._crashing(self.cycle)
        self.crash_at = None
        self.stats['c10_cuts'] += 1
        if not crashed:
            self.stats['c10_cut_beyond_end'] += 1
            return
        mastermon.check_no_double_record(self, 'at-crash:' + step)
        try:
            self.start_master(cycle=True)
        except Exception as exc:  # pylint: disable=broad-except
            import traceback
            from mc import statex
            site = statex.impl_site(exc.__traceback__)
            if site == 'harness':
                raise
            self.flag('restart-after-crash-failed', site,
                      {'step': step, 'k': k,
                       'error': '%s: %s' % (type(exc).__name__,
                                            str(exc)[:200]),
                       'tb': traceback.format_exc()[-800:]})
            self.dead = True
            return
        mastermon.check_no_double_record(self, 'after-restart')

    def _startup_body(self):
        m = self.master
        m.load_model()
        self._init_schedule()
        m.process_server_presence(self.children(z.SERVER_PRESENCE))
        m.up_to_date = False
        m.process_scheduled(self.children(z.SCHEDULED))
        m.process_events(self.children(z.EVENTS))
        m.process_blackedout_servers(self.children(z.BLACKEDOUT_SERVERS))
        self.cycle()

    def _crashing(self, fn):
        """True if the step was cut (injected crash) or the master died in it
        by an exception of its own (exit_on_unhandled): either way the stored
        state is what a newly elected master finds."""
        from mc import statex
        saved = self.monitors
        saved_cell = self.cellmonitors
        self.monitors = []          # the interrupted step has no "after"
        self.cellmonitors = []
        try:
            fn()
            return False
        except fakezk.Crash:
            return True
        except Exception as exc:  # pylint: disable=broad-except
            if statex.impl_site(exc.__traceback__) == 'harness':
                raise
            self.stats['c10_master_died_in_step'] += 1
            return True
        finally:
            self.monitors = saved
            self.cellmonitors = saved_cell

    # -- menu ---------------------------------------------------------------
    def enabled(self):
        cfg = self.cfg
        menu = []
        live = self.live()
        nlive = len(live)
        present = set(self.children(z.SERVER_PRESENCE))
        known = set(self.children(z.SERVERS))
        for e in cfg['events']:
            kind = e[0]
            if kind == 'app+':
                if nlive >= cfg.get('max_apps', 4):
                    continue
            elif kind in ('app-', 'prio'):
                if e[1] >= nlive:
                    continue
                if kind == 'prio':
                    man = zkutils.get_default(self.admin,
                                              z.path.scheduled(live[e[1]]))
                    if man and man.get('priority') == e[2]:
                        continue
            elif kind == 'pres-':
                if e[1] not in present:
                    continue
            elif kind == 'pres+':
                if e[1] in present or e[1] not in known:
                    continue
            elif kind == 'srv':
                if e[1] not in known or self.srv_variant.get(e[1]) == e[2]:
                    continue
            elif kind == 'srv-':
                if e[1] not in known:
                    continue
            elif kind == 'srv+':
                if e[1] in known:
                    continue
            elif kind == 'srvp':
                if e[1] not in known:
                    continue
                rec = zkutils.get_default(self.admin, z.path.server(e[1])) or {}
                if rec.get('parent') == e[2]:
                    continue
            elif kind == 'blk':
                if (e[1] in self.children(z.BLACKEDOUT_SERVERS)) == bool(e[2]):
                    continue
            elif kind == 'cell-':
                if e[1] not in self.children(z.CELL):
                    continue
            elif kind == 'cell+':
                if e[1] in self.children(z.CELL):
                    continue
            elif kind == 'alloc':
                if self.alloc_variant == e[1]:
                    continue
            elif kind == 'idg':
                cur = zkutils.get_default(self.admin,
                                          z.path.identity_group(e[1]))
                if cur and cur.get('count') == e[2]:
                    continue
            elif kind == 'idg-':
                if e[1] not in self.children(z.IDENTITY_GROUPS):
                    continue
            elif kind == 'state':
                srv = self.master.servers.get(e[1])
                if srv is None:
                    # the admin may address a server the master has not
                    # loaded yet (its 'servers' event is still outstanding)
                    if not (e[1] in known and e[3] < 0 and any(
                            p == z.EVENTS for p, _k in self.undelivered)):
                        continue
                elif srv.state.value == e[2]:
                    continue
                if e[1] not in present:
                    continue
                if srv is not None and e[3] >= len(srv.apps):
                    continue
            elif kind == 'run+':
                if self._startable(e[1]) is None:
                    continue
            elif kind == 'dup':
                if self._dup_target(e[1], e[2]) is None or \
                        e[2] not in present:
                    continue
            elif kind == 'bl':
                cur = zkutils.get_default(self.admin, z.BLACKEDOUT_APPS) or []
                if cur == cfg['blacklists'][e[1]]:
                    continue
            for cyc in (True, False, 'L'):
                if cyc is False and (kind == 'noop'
                                     or not cfg.get('allow_nocycle', True)):
                    continue
                if cyc == 'L' and (not cfg.get('allow_late', False) or kind in (
                        'noop', 'tick', 'restart', 'dup', 'run+', 'chk')):
                    continue
                if cyc == 'L' and 'late_kinds' in cfg and \
                        kind not in cfg['late_kinds']:
                    continue
                menu.append(tuple(e) + (cyc,))
            if kind in cfg.get('split_kinds', ()):
                menu.append(tuple(e) + ('S',))
        return menu

    # -- canonical form -----------------------------------------------------------
    def canon(self):
        tree = self.tree
        names = set(self.children(z.SCHEDULED)) | set(self.cell.apps)
        names.update(n for n in self.children(z.FINISHED) if '#' in n)
        for srv in self.children(z.PLACEMENT):
            names.update(self.children(z.path.placement(srv)))
        rank = {n: i for i, n in enumerate(sorted(names, key=cellworld._seq))}

        # /events nodes are sequential: only their relative order matters
        evs = set(self.children(z.EVENTS))
        for p_, kids_ in self.undelivered:
            if p_ == z.EVENTS:
                evs.update(kids_)
        ev_rank = {e: i for i, e in enumerate(
            sorted(evs, key=lambda e: int(e.rsplit('-', 1)[1])))}

        def ren(n):
            if n in ev_rank:
                return (n.rsplit('-', 1)[0], ev_rank[n])
            return (self.tmpl_of(n), rank[n]) if n in rank else n
        # ctime ranks among presence / placement nodes
        stamps = set()
        pres = {}
        for s in self.children(z.SERVER_PRESENCE):
            node = tree.find(z.path.server_presence(s))
            pres[s] = node
            stamps.add(node.ctime)
        plc = {}
        for s in self.children(z.PLACEMENT):
            snode = tree.find(z.path.placement(s))
            for a, anode in snode.children.items():
                plc[(s, a)] = anode
                stamps.add(anode.ctime)
        order = {t: i for i, t in enumerate(sorted(stamps))}
        import json

        def placement_data(node):
            try:
                d = json.loads(node.data.decode()) if node.data else None
            except ValueError:
                return repr(node.data)
            if isinstance(d, dict):
                d = dict(d)
                if 'expires' in d:
                    d['expires'] = logical(d['expires'])
                if 'since' in d:
                    d['since'] = logical(d['since'])
                return tuple(sorted((k, repr(v)) for k, v in d.items()))
            return repr(d)
        zk = (
            tuple((ren(n), tree.find(z.path.scheduled(n)).data)
                  for n in sorted(self.children(z.SCHEDULED), key=cellworld._seq)),
            tuple(sorted((s, tree.find(z.path.server(s)).data)
                         for s in self.children(z.SERVERS))),
            tuple(sorted((s, order[n.ctime], placement_data(n))
                         for s, n in pres.items())),
            tuple(sorted((s, placement_data(tree.find(z.path.placement(s))))
                         for s in self.children(z.PLACEMENT))),
            tuple(sorted((s, ren(a), order[n.ctime], placement_data(n))
                         for (s, a), n in plc.items())),
            tree.find(z.ALLOCATIONS).data,
            tuple(sorted((g, tree.find(z.path.identity_group(g)).data)
                         for g in self.children(z.IDENTITY_GROUPS))),
            tuple(sorted((ren(e), tree.find(z.path.event(e)).data)
                         for e in self.children(z.EVENTS))),
            tuple(self.children(z.CELL)),
            tuple(sorted(self.children(z.BLACKEDOUT_SERVERS))),
            tuple(sorted(self.truth.items())), self.bl_idx,
            tuple((n_, s_, ren(e_) if e_ else None)
                  for n_, s_, e_ in self.pending_truth),
            tuple(sorted(self.api_deleted)),
            tuple(sorted(ren(n) for n in self.children(z.FINISHED))),
            (tree.find(z.BLACKEDOUT_APPS).data
             if tree.find(z.BLACKEDOUT_APPS) else None),
            tuple(sorted((ren(n), tree.find(z.path.running(n)).data)
                         for n in self.children(z.RUNNING))),
        )
        m = self.master
        und = tuple((p, tuple(ren(k) if ('#' in k or k in ev_rank) else k
                              for k in kids))
                    for p, kids in self.undelivered)
        roots = [b for b in m.buckets.values()
                 if b.parent is None and b is not m.cell]
        roots += [sv for sv in m.servers.values() if sv.parent is None]
        return (zk, und,
                cellworld.canon_cell(m.cell, self.tmpl_of, roots),
                m.up_to_date,
                tuple(sorted(m.servers)), tuple(m.apps_blacklist), CLOCK.L,
                modstate.digest(),
                tuple(sorted((ren(a), d['servername'], logical(d['since']))
                             for a, d in m.pending_start.items())),
                # marks that can still matter: the instance is on that server
                tuple(sorted((s_, ren(a)) for s_, a in self.marked
                             if s_ in m.servers and a in m.servers[s_].apps)))
