"""Monitors for World A.  Each is `mon(world, pre, result, queues)` and is run
after every scheduling cycle.  Oracles recompute everything from the leaves
(`Cell.members()`, `Cell.apps`) and never trust the scheduler's aggregates.
"""
import collections

import numpy as np

from mc.vclock import CLOCK, logical
from mc.worlds.cellworld import S, State, UNPLACED, vec


def _apps_under(node):
    if isinstance(node, S.Server):
        return list(node.apps.values())
    out = []
    for ch in node.children_iter():
        out.extend(_apps_under(ch))
    return out


def _nodes(node):
    yield node
    if not isinstance(node, S.Server):
        for ch in node.children_iter():
            for n in _nodes(ch):
                yield n


def _changed(res):
    return {n: (b, a) for (n, b, _eb, a, _ea) in res if a != b}


# ------------------------------------------------------------------ C01 -----
def mon_c01(w, pre, res, queues):
    cell = w.cell
    mem = cell.members()
    changed = _changed(res)
    placed_on = collections.defaultdict(list)
    for n, srv in mem.items():
        tot = np.zeros(S.DIMENSION_COUNT)
        for an, a in srv.apps.items():
            tot = tot + a.demand
            placed_on[an].append(n)
            if a.server != n or cell.apps.get(an) is not a:
                w.flag('view-mismatch', w.put_site(an),
                       {'server': n, 'app': w.tmpl.get(an, an),
                        'app.server': a.server})
        if np.any(tot > srv.init_capacity):
            moved = [an for an in srv.apps if an in changed] or list(srv.apps)
            w.flag('oversubscribed', w.put_site(moved[-1]),
                   {'server': n, 'sum': vec(tot),
                    'capacity': vec(srv.init_capacity)})
        if not np.array_equal(srv.free_capacity, srv.init_capacity - tot):
            w.flag('free-capacity-mismatch', 'server',
                   {'server': n, 'free': vec(srv.free_capacity),
                    'expected': vec(srv.init_capacity - tot)})
        if tot.any():
            w.stats['c01_loaded_server_checks'] += 1
    for an, where in placed_on.items():
        if len(where) > 1:
            w.flag('double-placement', w.put_site(an), {'servers': where})
    for a in cell.apps.values():
        if a.server and (a.server not in mem or a.name not in mem[a.server].apps):
            w.flag('view-mismatch', w.put_site(a.name),
                   {'app': w.tmpl[a.name], 'app.server': a.server,
                    'server_known': a.server in mem})
    for (n, _b, _eb, after, _ea) in res:
        a = cell.apps.get(n)
        if a is not None and a.server != after:
            w.flag('result-mismatch', 'Cell.schedule',
                   {'app': w.tmpl[n], 'tuple': after, 'model': a.server})
    if changed:
        w.stats['c01_cycles_with_moves'] += 1


# ------------------------------------------------------------------ C03 -----
def _eligible(srv, app):
    miss = []
    if app.allocation is not None and app.allocation.label not in srv.labels:
        miss.append('partition')
    if (srv.traits.traits & app.traits) != app.traits:
        miss.append('traits')
    return miss


def mon_c03(w, pre, res, queues):
    cell = w.cell
    mem = cell.members()
    for (n, before, _eb, after, exp_after) in res:
        if after is None or after == before:
            continue
        app = cell.apps.get(n)
        if app is None:
            continue
        srv = mem.get(after)
        if srv is None:
            continue
        w.stats['c03_new_placements'] += 1
        site = w.put_site(n)
        state = getattr(w, 'truth_state', lambda _n, st: st)(after, srv.state)
        if state is not State.up:
            w.flag('placed-on-non-up-server', site,
                   {'app': w.tmpl[n], 'server': after,
                    'state': state.value, 'model_state': srv.state.value})
        for m in _eligible(srv, app):
            w.flag('placed-without-' + m, site,
                   {'app': w.tmpl[n], 'server': after})
        if app.lease:
            w.stats['c03_lease_placements'] += 1
            if exp_after is None or exp_after > srv.valid_until:
                w.flag('lease-beyond-reboot', site,
                       {'app': w.tmpl[n], 'server': after,
                        'expiry': logical(exp_after),
                        'valid_until': logical(srv.valid_until)})
    # renewals granted in this cycle (same server, new expiry)
    for (n, before, exp_before, after, exp_after) in res:
        app = cell.apps.get(n)
        if app is None or after is None or after != before:
            continue
        if exp_after != exp_before and app.lease and after in mem:
            w.stats['c03_renewals'] += 1
            if exp_after is None or exp_after > mem[after].valid_until:
                w.flag('lease-beyond-reboot', 'renew',
                       {'app': w.tmpl[n], 'server': after,
                        'expiry': logical(exp_after),
                        'valid_until': logical(mem[after].valid_until)})
    for app in cell.apps.values():
        if not app.server or app.server not in mem:
            continue
        for m in _eligible(mem[app.server], app):
            w.stats['c03_stale_seen'] += 1
            w.flag('stale-constraint-' + m,
                   'kept' if pre.apps.get(app.name, {}).get('server') ==
                   app.server else w.put_site(app.name),
                   {'app': w.tmpl[app.name], 'server': app.server})


# ------------------------------------------------------------------ C04 -----
def mon_c04(w, pre, res, queues):
    cell = w.cell
    log = getattr(w, 'put_log', [])
    evictions = any(b is not None and a != b for (_n, b, _eb, a, _ea) in res)
    if evictions:
        w.stats['c04_cycles_with_displacement'] += 1
    if any(site.startswith('Server.restore') for (_a, site, _s) in log):
        w.stats['c04_cycles_with_restore'] += 1
    if any(site.startswith('Server.put<-') for (_a, site, _s) in log):
        w.stats['c04_cycles_with_evict_put'] += 1
    level_of = getattr(w, 'level_of', None)
    for node in _nodes(cell):
        apps = _apps_under(node)
        cnt = collections.Counter(a.affinity.name for a in apps)
        names_under = {a.name for a in apps}
        # the level a node stands for: on the real master from the stored
        # bucket record (an explicit `level`, else the name prefix), so that
        # the model's own idea of the level is not trusted
        level = level_of(node) if level_of else node.level
        for aff, c in cnt.items():
            limit = min(a.affinity.limits[level] for a in apps
                        if a.affinity.name == aff)
            if limit != float('inf'):
                w.stats['c04_limited_checks'] += 1
            if c > limit:
                culprit = [site for (an, site, _s) in log
                           if an in names_under and
                           cell.apps[an].affinity.name == aff
                           if an in cell.apps]
                w.flag('affinity-limit-exceeded',
                       culprit[-1] if culprit else 'no-put-this-cycle',
                       {'level': level, 'node': node.name,
                        'affinity': aff, 'count': c, 'limit': limit})
        for aff in set(cnt) | set(node.affinity_counters):
            if node.affinity_counters.get(aff, 0) != cnt.get(aff, 0):
                w.flag('affinity-counter-mismatch', str(node.level),
                       {'node': node.name, 'affinity': aff,
                        'counter': node.affinity_counters.get(aff, 0),
                        'true': cnt.get(aff, 0)})


# ------------------------------------------------------------------ C05 -----
def mon_c05(w, pre, res, queues):
    cell = w.cell
    bygroup = collections.defaultdict(list)
    for a in cell.apps.values():
        if a.identity_group:
            bygroup[a.identity_group].append(a)
    for gname, members in bygroup.items():
        grp = cell.identity_groups.get(gname)
        count = grp.count if grp is not None else 0
        held = [a.identity for a in members if a.identity is not None]
        if held:
            w.stats['c05_cycles_with_held_identity'] += 1
        if len(held) != len(set(held)):
            w.flag('duplicate-identity', 'group',
                   {'group': gname, 'held': sorted(held)})
        for a in members:
            if a.identity is not None and a.identity >= count:
                w.flag('identity-out-of-range',
                       'placed' if a.server else 'pending',
                       {'app': w.tmpl[a.name], 'identity': a.identity,
                        'count': count})
            if a.server and a.identity is None:
                w.flag('placed-without-identity', w.put_site(a.name),
                       {'app': w.tmpl[a.name], 'server': a.server})
            if not a.server and a.identity is not None:
                w.flag('unplaced-holds-identity',
                       'schedule_once' if a.schedule_once else 'pending',
                       {'app': w.tmpl[a.name], 'identity': a.identity})
        if grp is not None:
            free = set(range(count)) - set(held)
            lost = free - set(grp.available)
            if lost:
                w.flag('free-identity-not-available', 'group',
                       {'group': gname, 'lost': sorted(lost),
                        'available': sorted(grp.available)})


# ------------------------------------------------------------------ C07 -----
def mon_c07(w, pre, res, queues):
    cell = w.cell
    pos = {}
    for qi, q in enumerate(queues):
        for i, n in enumerate(q):
            pos[n] = (qi, i)
    gained = [n for (n, b, _eb, a, _ea) in res if a is not None and a != b]
    displaced = 0
    for (n, before, _eb, after, _ea) in res:
        if before is None or after == before:
            continue
        app = cell.apps.get(n)
        if app is None:
            continue
        p = pre.apps.get(n)
        ps = pre.servers.get(before)
        if p is None or ps is None or ps['state'] is not State.up:
            continue
        if p['blacklisted'] or app.blacklisted:
            continue
        if p['renew']:
            # "failing a lease renewal" by the stated rule: the lease, taken
            # from now, does not end before the server's reboot
            from mc.vclock import BASE
            lease = p['lease'] or 0
            if lease and not (BASE + pre.now_L + lease < ps['valid_until']):
                w.stats['c07_failed_renewals'] += 1
                continue
            w.stats['c07_renewals_that_fit'] += 1
        if getattr(app, 'final_rank', None) == UNPLACED:
            continue
        if p['group'] is not None:
            cnt = pre.groups.get(p['group'], 0)
            if p['identity'] is None or p['identity'] >= cnt:
                continue
        displaced += 1
        if n not in pos:
            w.flag('displaced-not-in-queue', 'Cell.schedule',
                   {'app': w.tmpl[n]})
            continue
        ahead = [m for m in gained if m in pos and pos[m][0] == pos[n][0]
                 and pos[m][1] < pos[n][1]]
        if not ahead:
            w.flag('unjustified-displacement',
                   'moved' if after else 'evicted',
                   {'app': w.tmpl[n], 'from': before, 'to': after,
                    'queue': [w.tmpl[x] for x in queues[pos[n][0]]],
                    'gained': [w.tmpl[x] for x in gained]})
    if displaced:
        w.stats['c07_cycles_with_displacement'] += 1
        w.stats['c07_displacements'] += displaced


# ------------------------------------------------------------------ C08 -----
def mon_c08(w, pre, res, queues):
    cell = w.cell
    tuples = {n: (b, a) for (n, b, _eb, a, _ea) in res}
    now_L = pre.now_L
    truth_state = getattr(w, 'truth_state', lambda _n, st: st)
    truth_bl = getattr(w, 'truth_blacklisted', lambda _n, flag: flag)
    for sname, ps in pre.servers.items():
        st = truth_state(sname, ps['state'])
        if st is State.down:
            down_L = w.down_since_L.get(sname)
            if down_L is None:
                continue        # not known to the harness (notification pending)
            for an in ps['apps']:
                app = cell.apps.get(an)
                p = pre.apps.get(an)
                if app is None or p is None:
                    continue
                if p['blacklisted'] or app.blacklisted or \
                        truth_bl(an, False):
                    continue
                if getattr(app, 'final_rank', None) == UNPLACED:
                    continue
                r = app.data_retention_timeout
                expired = True if r is None else (now_L - down_L >= r)
                if expired:
                    w.stats['c08_retention_expired'] += 1
                    if app.server == sname:
                        w.flag('kept-after-retention', 'down',
                               {'app': w.tmpl[an], 'server': sname,
                                'down_for': now_L - down_L, 'retention': r})
                else:
                    w.stats['c08_retention_kept'] += 1
                    if app.server != sname:
                        w.flag('lost-within-retention',
                               'moved' if app.server else 'evicted',
                               {'app': w.tmpl[an], 'server': sname,
                                'down_for': now_L - down_L, 'retention': r,
                                'now_on': app.server})
        elif st is State.frozen:
            for an in ps['apps']:
                app = cell.apps.get(an)
                p = pre.apps.get(an)
                if app is None or p is None:
                    continue
                if p['blacklisted'] or app.blacklisted or \
                        truth_bl(an, False):
                    continue
                # "explicitly marked for unscheduling" is what the harness
                # asked for on THIS server, not the scheduler's own flag
                if (sname, an) in w.marked:
                    continue
                if getattr(app, 'final_rank', None) == UNPLACED:
                    continue
                w.stats['c08_frozen_kept_checks'] += 1
                if app.server != sname:
                    w.flag('frozen-server-lost-instance',
                           'moved' if app.server else 'evicted',
                           {'app': w.tmpl[an], 'server': sname,
                            'now_on': app.server})
        if st is not State.up:
            for an, (b, a) in tuples.items():
                if a == sname and b != sname:
                    w.flag('placed-on-non-up-server', w.put_site(an),
                           {'app': w.tmpl.get(an, an), 'server': sname,
                            'state': st.value})
    for a in cell.apps.values():
        if truth_bl(a.name, a.blacklisted):
            w.stats['c08_blacklisted_checks'] += 1
            if a.server:
                w.flag('blacklisted-placed',
                       'kept' if pre.apps.get(a.name, {}).get('server') ==
                       a.server else w.put_site(a.name),
                       {'app': w.tmpl[a.name], 'server': a.server})


# ------------------------------------------------------------------ C02 -----
def oracle_fits(w, app, label):
    """Leaf scan, independent of every aggregate: is there an up server of the
    probe's partition with the traits, lifetime, room in every dimension and
    affinity head-room at every level, and a free identity if needed?"""
    from mc.vclock import BASE
    cell = w.cell
    if app.identity_group:
        grp = cell.identity_groups.get(app.identity_group)
        count = grp.count if grp is not None else 0
        held = {a.identity for a in cell.apps.values()
                if a.identity_group == app.identity_group
                and a.identity is not None}
        if not set(range(count)) - held:
            return False, 'no free identity'
    need_traits = app._traits          # dedicated allocation has no traits
    for sname, srv in cell.members().items():
        if srv.state is not State.up:
            continue
        if label not in srv.labels:
            continue
        if (srv.traits.self_traits & need_traits) != need_traits:
            continue
        if app.lease and not (BASE + CLOCK.L + app.lease < srv.valid_until):
            continue
        used = np.zeros(S.DIMENSION_COUNT)
        for a in srv.apps.values():
            used = used + a.demand
        if np.any(app.demand > srv.init_capacity - used):
            continue
        node = srv
        ok = True
        while node is not None:
            c = sum(1 for a in _apps_under(node)
                    if a.affinity.name == app.affinity.name)
            if not c < app.affinity.limits[node.level]:
                ok = False
                break
            node = node.parent
        if ok:
            return True, sname
    return False, None


def mon_c02_aggregates(w, pre, res, queues):
    """C02, second sentence: what racks, pods and the cell aggregate over
    their servers must never hide a server.  After every cycle, for every
    node of the tree and every UP server below it: the node carries the
    server's partition labels and traits, offers at least its free capacity
    in every dimension (what Node.check_app_constraints prunes on; the
    lifetime is checked on servers only - Bucket.valid_until is kept but
    never consulted, so it is not judged)."""
    del pre, res, queues
    cell = w.cell

    def walk(node):
        """-> up servers below node"""
        if isinstance(node, S.Server):
            return [node] if node.state is State.up else []
        below = []
        for ch in node.children_iter():
            below.extend(walk(ch))
        for srv in below:
            w.stats['c02_aggregate_checks'] += 1
            bad = None
            if not set(srv.labels) <= set(node.labels):
                bad = ('labels', sorted(map(str, srv.labels)),
                       sorted(map(str, node.labels)))
            elif not node.traits.has(srv.traits.self_traits):
                bad = ('traits', srv.traits.self_traits, node.traits.traits)
            elif np.any(np.asarray(srv.free_capacity) >
                        np.asarray(node.free_capacity)):
                bad = ('free_capacity', vec(srv.free_capacity),
                       vec(node.free_capacity))
            if bad:
                w.flag('aggregate-hides-a-server',
                       '%s.%s' % (node.level, bad[0]),
                       {'node': node.name, 'server': srv.name,
                        'what': bad[0], 'server_has': bad[1],
                        'node_has': bad[2]})
        return below

    walk(cell)


def c02_site(w, app):
    """Why was a fitting probe missed?  Distinguish the feasibility tracker
    (another pending instance of the same shape) from tree pruning."""
    shape = app.shape()[0]
    for a in w.cell.apps.values():
        if a is not app and not a.server and a.shape()[0] == shape:
            return 'same-shape-pending'
    return 'tree-search'


# ------------------------------------------------------------------ C06 -----
def mon_c06_once(w, pre, res, queues):
    """Each cycle considers every instance of a partition exactly once: the
    queues handed to placement, taken together, contain every instance of
    Cell.apps exactly once and nothing else (also after instances were moved
    between allocations or removed)."""
    cell = w.cell
    seen = collections.Counter()
    for q in queues:
        seen.update(q)
    w.stats['c06_cycles_checked'] += 1
    if any(len(q) > 1 for q in queues):
        w.stats['c06_cycles_with_two_or_more_queued'] += 1
    for name, n in seen.items():
        if n > 1:
            w.flag('instance-queued-more-than-once', 'Cell.schedule',
                   {'app': w.tmpl.get(name, name), 'times': n})
        if name not in cell.apps:
            w.flag('removed-instance-still-queued', 'Cell.schedule',
                   {'app': w.tmpl.get(name, name)})
    for name in cell.apps:
        if name not in seen:
            w.flag('instance-not-queued', 'Cell.schedule',
                   {'app': w.tmpl.get(name, name)})
