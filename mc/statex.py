"""statex - explicit-state breadth-first search over real objects.

A state is the event history reaching it; live objects are rebuilt by replay.
Level-synchronous BFS, frontier partitioned over forked workers, dedup on a
canonical projection (plus the number of deviations spent, because a state
reached with fewer deviations has more futures inside the bound).
"""
import collections
import hashlib
import multiprocessing
import os
import time
import traceback

from mc import modstate

_SPEC = None          # set before the pool forks


class Spec:
    """Interface a world/property pair implements."""

    def new_world(self):
        raise NotImplementedError

    def apply(self, world, event):
        """Apply one event through the real code and run the monitors.
        Violations are appended to world.viol, counters go to world.stats."""
        raise NotImplementedError

    def enabled(self, world):
        raise NotImplementedError

    def canon(self, world):
        raise NotImplementedError

    def dev_cost(self, event):
        return 0

    # optional: probe(history) -> (violations, stats), run once per distinct
    # state when it is expanded (and once more for the last level)
    probe = None

    # exceptions escaping the implementation: None = recorded, state terminal,
    # not a violation; a string = reported as violation with that clause.
    exception_clause = None


def impl_site(tb):
    """Innermost frame of an exception that lies in /repo."""
    site = None
    for fs in traceback.extract_tb(tb):
        if '/repo/' in fs.filename or 'treadmill' in fs.filename:
            site = '%s:%s' % (os.path.basename(fs.filename), fs.name)
    return site or 'harness'


def build(spec, history):
    # every history starts from the same process-wide state (mc/modstate.py)
    modstate.reset()
    w = spec.new_world()
    for ev in history:
        spec.apply(w, ev)
    return w


def step(spec, world, event):
    """Apply with exception capture.  Returns (ok, exc_info_dict)."""
    try:
        spec.apply(world, event)
        return True, None
    except HarnessError:
        raise
    except Exception as exc:  # pylint: disable=broad-except
        info = {
            'type': type(exc).__name__,
            'msg': str(exc)[:300],
            'site': impl_site(exc.__traceback__),
            'tb': traceback.format_exc()[-1500:],
        }
        if info['site'] == 'harness':
            raise
        # scenario signature kept by the world (qualifies known findings so
        # that they cannot mask another failure at the same site)
        info['site'] += getattr(world, 'exception_site_suffix', '') or ''
        return False, info


class HarnessError(Exception):
    """A defect of the harness itself (never reported as a violation)."""


def digest(canon):
    return hashlib.blake2b(repr(canon).encode(), digest_size=12).digest()


def _expand(args):
    """Worker: expand a chunk of frontier histories by one event each."""
    chunk, max_dev = args
    spec = _SPEC
    out = []
    for hidx, hist in enumerate(chunk):
        if spec.probe is not None:
            pv, pstats = spec.probe(hist)
            out.append((hidx, None, None, 0, pv, pstats, None))
        if max_dev < 0:
            continue            # probe-only pass
        base = build(spec, hist)
        menu = spec.enabled(base)
        spent = sum(spec.dev_cost(e) for e in hist)
        first = True
        for ev in menu:
            cost = spec.dev_cost(ev)
            if spent + cost > max_dev:
                continue
            if first:
                w = base
                first = False
            else:
                w = build(spec, hist)
            mark = len(w.viol)
            before = collections.Counter(w.stats)
            ok, exc = step(spec, w, ev)
            viol = [dict(v) for v in w.viol[mark:]]
            if not ok:
                if spec.exception_clause:
                    viol.append({'clause': spec.exception_clause,
                                 'site': exc['site'],
                                 'detail': exc})
                delta = collections.Counter(w.stats)
                delta.subtract(before)
                delta['impl_exceptions'] += 1
                out.append((hidx, ev, None, spent + cost, viol, dict(delta), exc))
                continue
            delta = collections.Counter(w.stats)
            delta.subtract(before)
            out.append((hidx, ev, digest(spec.canon(w)), spent + cost, viol,
                        {k: v for k, v in delta.items() if v}, None))
    return out


def _bisim(pairs):
    """Worker: two histories merged by the canonical key must have the same
    menu and pairwise-merging one-step successors with the same verdicts."""
    spec = _SPEC
    out = []
    def one(hist, ev):
        # worlds share process-wide state (virtual clock): never keep two alive
        w = build(spec, hist)
        k = len(w.viol)
        ok, _ = step(spec, w, ev)
        v = sorted((x['clause'], str(x['site'])) for x in w.viol[k:])
        return ok, v, (digest(spec.canon(w)) if ok else None)

    for h1, h2 in pairs:
        m1 = spec.enabled(build(spec, h1))
        m2 = spec.enabled(build(spec, h2))
        if m1 != m2:
            out.append((False, (list(h1), list(h2), 'menus differ')))
            continue
        ok = True
        for ev in m1:
            if one(h1, ev) != one(h2, ev):
                ok = False
                out.append((False, (list(h1), list(h2), list(ev))))
                break
        if ok:
            out.append((True, None))
    return out


def _chunks(seq, n):
    for i in range(0, len(seq), n):
        yield seq[i:i + n]


class Result:
    def __init__(self):
        self.states = 0
        self.transitions = 0
        self.executions = 0
        self.depth_completed = 0
        self.exhausted = False
        self.caps_hit = []
        self.stats = collections.Counter()
        self.violations = {}      # (clause, site) -> {history, detail, count}
        self.samples = []
        self.exceptions = []
        self.level_sizes = []
        self.wall_s = 0.0
        self.bisim_pairs = 0
        self.bisim_failures = []


def bfs(spec, max_depth, max_dev=0, workers=None, time_cap=None,
        state_cap=None, chunk=16, progress=None, init_histories=((),),
        bisim_depth=0):
    """Level-synchronous BFS.  Returns Result."""
    global _SPEC  # pylint: disable=global-statement
    _SPEC = spec
    workers = workers or min(16, os.cpu_count() or 1)
    res = Result()
    t0 = time.perf_counter()

    seen = set()
    first = {}          # key -> first history (only for depth <= bisim_depth)
    merges = []         # (first history, later history) mapped to one key
    frontier = []
    for h in init_histories:
        w = build(spec, h)
        key = (digest(spec.canon(w)), sum(spec.dev_cost(e) for e in h))
        if key not in seen:
            seen.add(key)
            frontier.append(tuple(h))
            for v in w.viol:
                _note(res, v, tuple(h))
    ctx = multiprocessing.get_context('fork')
    pool = ctx.Pool(workers) if workers > 1 else None
    try:
        for depth in range(1, max_depth + 1):
            if not frontier:
                res.exhausted = True
                break
            nxt = []
            jobs = [(c, max_dev) for c in _chunks(frontier, chunk)]
            it = (pool.imap(_expand, jobs) if pool
                  else (_expand(j) for j in jobs))
            aborted = False
            level_new = 0
            lvl_trans = 0
            lvl_stats = collections.Counter()
            lvl_viol = []
            for job, outs in zip(jobs, it):
                if time_cap and time.perf_counter() - t0 > time_cap:
                    aborted = True
                    break
                for (hidx, ev, dg, spent, viol, delta, exc) in outs:
                    hist = job[0][hidx]
                    if ev is None:          # probe result for hist itself
                        lvl_stats.update(delta)
                        for v in viol:
                            lvl_viol.append((v, hist + tuple(
                                tuple(e) for e in v.pop('suffix', ()))))
                        continue
                    lvl_trans += 1
                    lvl_stats.update(delta)
                    h2 = hist + (ev,)
                    for v in viol:
                        lvl_viol.append((v, h2))
                    if exc is not None:
                        if len(res.exceptions) < 5:
                            res.exceptions.append({'history': h2, 'exc': exc})
                        continue
                    key = (dg, spent)
                    if key not in seen:
                        seen.add(key)
                        nxt.append(h2)
                        level_new += 1
                        if depth <= bisim_depth:
                            first[key] = h2
                    elif depth <= bisim_depth and key in first \
                            and first[key] != h2:
                        merges.append((first[key], h2))
            if aborted:
                if pool:
                    pool.terminate()
                    pool = None
                res.caps_hit.append('time_cap %ss hit inside depth %d; '
                                    'claimed depth is %d'
                                    % (time_cap, depth, depth - 1))
                # violations seen in the partial level are still real
                for v, h2 in lvl_viol:
                    _note(res, v, h2)
                res.transitions += lvl_trans
                res.stats.update(lvl_stats)
                break
            for v, h2 in lvl_viol:
                _note(res, v, h2)
            res.transitions += lvl_trans
            res.stats.update(lvl_stats)
            res.depth_completed = depth
            res.level_sizes.append(level_new)
            if progress:
                progress('depth %d: +%d states, %d transitions, %.1fs'
                         % (depth, level_new, res.transitions,
                            time.perf_counter() - t0))
            if level_new:
                res.samples.append(list(nxt[len(nxt) // 2]))
            frontier = nxt
            if state_cap and len(seen) > state_cap:
                res.caps_hit.append('state_cap %d exceeded after depth %d'
                                    % (state_cap, depth))
                break
        else:
            if not frontier:
                res.exhausted = True
        if spec.probe is not None and frontier and pool is not None \
                and not res.caps_hit:
            jobs = [(c, -1) for c in _chunks(frontier, chunk)]
            for job, outs in zip(jobs, pool.imap(_expand, jobs)):
                for (hidx, ev, dg, spent, viol, delta, exc) in outs:
                    res.stats.update(delta)
                    for v in viol:
                        _note(res, v, job[0][hidx] + tuple(
                            tuple(e) for e in v.pop('suffix', ())))
            res.final_probe_pass = True
        if merges and pool is not None:
            bad = 0
            jobs = list(_chunks(merges, 8))
            for outs in pool.imap(_bisim, jobs):
                res.bisim_pairs += len(outs)
                for ok, pair in outs:
                    if not ok:
                        bad += 1
                        if len(res.bisim_failures) < 3:
                            res.bisim_failures.append(pair)
            if bad:
                raise HarnessError(
                    'canonical key too coarse: %d merged pairs have diverging '
                    'successors, e.g. %r' % (bad, res.bisim_failures[0]))
    finally:
        if pool:
            pool.close()
            pool.join()
    res.states = len(seen)
    res.executions = res.transitions
    res.wall_s = time.perf_counter() - t0
    res.frontier = frontier
    return res


def _note(res, v, hist):
    key = (v['clause'], v.get('site'))
    cur = res.violations.get(key)
    if cur is None:
        res.violations[key] = {'clause': v['clause'], 'site': v.get('site'),
                               'detail': v.get('detail'),
                               'history': list(hist), 'count': 1}
    else:
        cur['count'] += 1
        if len(hist) < len(cur['history']):
            cur['history'] = list(hist)
            cur['detail'] = v.get('detail')
