"""C12 world: the real EventMgr cache synchronisation on a temp dir + fake ZK.

Code under test (real, from $VERIF_REPO/lib/python): treadmill.eventmgr
EventMgr._synchronize / _cache / _cache_notify, treadmill.fs.write_safe /
replace / rm_safe, treadmill.zkutils.get / get_with_metadata,
treadmill.yamlwrapper.

Harness side
  * fake ZooKeeper (mc.fakezk) holding /scheduled/<inst> and
    /placement/<host>/<inst>, ctimes from a harness variable;
  * the name `os` inside treadmill.eventmgr is a proxy: `stat` of cache files
    returns a harness-assigned st_ctime (kernel ctimes have tick granularity),
    `unlink` is a counted FS step; everything else is the real os;
  * the names `os`, `tempfile`, `io` and `open` inside treadmill.fs are
    proxies that make every mutating call a counted *step* (mkstemp, write,
    fchmod, close, replace/rename, unlink, ...) and hand out wrapped streams,
    so that a step can be made to fail (OSError) or the process killed there
    (directory snapshot + private BaseException);
  * `yaml` inside treadmill.eventmgr is a proxy that makes sure the stream the
    manifest is dumped to is a wrapped one (whatever fs opened).
The EventMgr run loop / watches / threads are never started; the methods the
watch callbacks call are invoked directly.
"""
from mc import modstate  # noqa: E402
import collections
import errno
import io
import itertools
import logging
import os
import shutil
import tempfile
import types

from mc import fakezk
from mc import vclock

from treadmill import eventmgr  # noqa: E402
from treadmill import fs as tm_fs  # noqa: E402
from treadmill import yamlwrapper as yaml  # noqa: E402
from treadmill import zknamespace as z  # noqa: E402
from treadmill import zkutils  # noqa: E402

logging.getLogger('treadmill').setLevel(logging.CRITICAL)


class HarnessError(Exception):
    pass


class Kill(BaseException):
    """The node agent dies here."""


HOST = 'node1'
SLOTS = ('proid.app#0000000001', 'proid.app#0000000002',
         'proid.app#0000000003')

# times (seconds); ZooKeeper stamps are ms
T_PLACE = vclock.BASE + 1000.7          # ctime of current placement nodes
                                        # (fractional: ZooKeeper stamps are ms)
T_SYNC = vclock.BASE + 2000.0           # when the sync under test runs
T_RESYNC = vclock.BASE + 3000.0         # when the recovery sync runs

PRIORS = ('A', 'C', 'O', 'N')   # absent, current, older, newer than placement
MANS = (0, 1, 2)                # manifest absent / plain / with overlapping keys
                                # (3 = large manifest, single-slot fault runs only)
PLCS = (0, 1, 2)                # placement node absent / data None / {identity, expires}


def manifest(slot_idx, variant):
    m = {
        'command': '/bin/sleep %d' % (slot_idx + 1),
        'cpu': '10%', 'memory': '100M', 'disk': '100M',
        'services': [{'name': 'main', 'command': '/bin/true',
                      'restart': {'limit': 1, 'interval': 60}}],
        'environ': [{'name': 'X', 'value': 'multi\nline'}],
        'identity_group': None,
    }
    if variant == 3:
        # large enough for several writes of the emitter and of the io stack
        m['environ'] = [{'name': 'VAR%04d' % k, 'value': 'v' * 600}
                        for k in range(60)]
    if variant == 2:
        # keys that the placement data / the task id must override
        m['identity'] = 99
        m['expires'] = 1.0
        m['task'] = 'stale'
    return m


def placement_data(slot_idx, variant):
    if variant == 2:
        # slot 0 holds identity 0: the first member of an identity group
        return {'identity': slot_idx,
                'expires': T_PLACE + 86400.5 + slot_idx}
    return None


def merged(slot_idx, man, plc):
    """The document a correct sync writes (None if it cannot write one)."""
    if not man or not plc:
        return None
    doc = manifest(slot_idx, man)
    doc['task'] = SLOTS[slot_idx].split('#')[1]
    pd = placement_data(slot_idx, plc)
    if pd:
        doc.update(pd)
    return doc


def previous_doc(slot_idx):
    """An older generation of the instance's cache file."""
    doc = manifest(slot_idx, 1)
    doc['command'] = '/bin/old %d' % slot_idx
    doc['task'] = SLOTS[slot_idx].split('#')[1]
    doc['identity'] = 7
    doc['expires'] = T_PLACE - 5000.0
    return doc


def current_doc(slot_idx, man, plc):
    return merged(slot_idx, man or 1, plc or 1)


def prior_file(slot_idx, cfg):
    """(document, ctime) of the prior cache file of a slot, or None."""
    prior, _exp, man, plc = cfg
    if prior == 'A':
        return None
    if prior == 'C':
        return current_doc(slot_idx, man, plc), T_PLACE
    if prior == 'O':
        # older / newer by less than a second, inside the same whole second
        return previous_doc(slot_idx), T_PLACE - 0.4
    if prior == 'N':
        return previous_doc(slot_idx), T_PLACE + 0.2
    raise HarnessError(prior)


_DUMPS = {}


def dump_doc(doc):
    key = repr(sorted(doc.items(), key=repr))
    if key not in _DUMPS:
        _DUMPS[key] = yaml.dump(doc)
    return _DUMPS[key]


# -- FS step machinery ----------------------------------------------------------
class Steps:
    """Counts FS steps; optionally fails / kills at one of them."""

    def __init__(self, world):
        self.world = world
        self.armed = False
        self.n = 0
        self.trace = []
        self.fault = None       # None | ('error', k, torn) | ('kill', k, torn)
        self.fired = None
        self.dead = False
        self.open_files = []
        self.written = set()    # names (re)written under their final name

    def reset(self, fault=None):
        self.n = 0
        self.trace = []
        self.fault = fault
        self.fired = None
        self.dead = False
        self.written = set()

    def step(self, op, path, torn_cb=None):
        """Called before a mutating FS call.  Returns normally if the call is
        to proceed."""
        if not self.armed or self.dead:
            return
        k = self.n
        self.n += 1
        self.trace.append((op, _kind_of(path)))
        f = self.fault
        if f is None or f[1] != k:
            return
        self.fired = (op, _kind_of(path), os.path.basename(str(path)))
        if torn_cb is not None:
            torn_cb(f[2])
        if f[0] == 'error':
            # the clean-up code of the failing call runs for real (and its
            # steps are still traced), no second fault
            self.fault = None
            raise OSError(errno.ENOSPC if op == 'write' else errno.EIO,
                          'injected failure of %s' % op)
        self.world.snapshot = self.world.read_dir()
        self.world.snapshot_ctime = dict(self.world.ctime)
        self.dead = True
        raise Kill()

    def close_all(self):
        for f in self.open_files:
            try:
                f.real_close()
            except (OSError, ValueError):
                pass
        self.open_files = []


def _kind_of(path):
    name = os.path.basename(str(path))
    if name in SLOTS:
        return 'instance-file'
    if name.startswith('.'):
        return 'dot-file'
    return 'other-visible-file'


class FileProxy:
    """Wrapped stream: write and close are steps."""

    def __init__(self, steps, real, path):
        self._steps = steps
        self._real = real
        self._path = path
        self._closed = False
        steps.open_files.append(self)

    @property
    def name(self):
        return self._real.name

    def fileno(self):
        return self._real.fileno()

    def flush(self):
        return self._real.flush()

    def write(self, data):
        def torn(n):
            # part of the data reaches the file before the fault
            if n:
                cut = {1: 1, 2: len(data) // 2, 3: len(data) - 1}[n]
                cut = max(0, min(len(data), cut))
                self._real.write(data[:cut])
            self._real.flush()
        self._steps.step('write', self._path, torn)
        return self._real.write(data)

    def real_close(self):
        if not self._closed:
            self._closed = True
            self._real.close()

    def close(self):
        if self._closed:
            return
        try:
            self._steps.step('close', self._path)
        except OSError:
            self.real_close()
            raise
        self.real_close()

    def __enter__(self):
        return self

    def __exit__(self, *exc):
        self.close()
        return False

    def __getattr__(self, name):
        return getattr(self._real, name)


def _is_write_mode(mode):
    return any(c in mode for c in 'wax+')


class OsProxy:
    """`os` as seen by treadmill.fs."""
    _STEP1 = ('unlink', 'remove', 'chmod', 'truncate', 'utime', 'chown',
              'rmdir', 'mkdir')
    _STEPFD = ('fchmod', 'fchown', 'fsync', 'fdatasync', 'ftruncate')
    _STEP2 = ('replace', 'rename', 'link', 'symlink')

    def __init__(self, steps):
        self._steps = steps

    def __getattr__(self, name):
        real = getattr(os, name)
        steps = self._steps
        if name in self._STEP1:
            def call1(path, *a, **kw):
                steps.step(name, path)
                out = real(path, *a, **kw)
                if name in ('unlink', 'remove'):
                    steps.world.ctime.pop(os.path.basename(path), None)
                return out
            return call1
        if name in self._STEPFD:
            def callfd(fd, *a, **kw):
                steps.step(name, steps.world.path_of_fd(fd))
                return real(fd, *a, **kw)
            return callfd
        if name in self._STEP2:
            def call2(src, dst, *a, **kw):
                steps.step(name, dst)
                out = real(src, dst, *a, **kw)
                steps.world.note_written(dst, src)
                return out
            return call2
        if name == 'open':
            def call_open(path, flags, *a, **kw):
                if flags & (os.O_WRONLY | os.O_RDWR | os.O_CREAT):
                    steps.step('open', path)
                    steps.world.note_written(path)
                return real(path, flags, *a, **kw)
            return call_open
        if name == 'write':
            def call_write(fd, data):
                steps.step('write', steps.world.path_of_fd(fd))
                return real(fd, data)
            return call_write
        return real


class TempfileProxy:
    """`tempfile` as seen by treadmill.fs."""

    def __init__(self, steps):
        self._steps = steps

    def __getattr__(self, name):
        return getattr(tempfile, name)

    def NamedTemporaryFile(self, *a, **kw):  # pylint: disable=invalid-name
        d = kw.get('dir') or tempfile.gettempdir()
        self._steps.step('mkstemp', os.path.join(d, kw.get('prefix', 'tmp')))
        real = tempfile.NamedTemporaryFile(*a, **kw)
        self._steps.world.note_created(real.name)
        return FileProxy(self._steps, real, real.name)

    def mkstemp(self, suffix=None, prefix=None, dir=None, text=False):
        self._steps.step('mkstemp', os.path.join(dir or '', prefix or 'tmp'))
        fd, name = tempfile.mkstemp(suffix, prefix, dir, text)
        self._steps.world.note_created(name)
        self._steps.world.fd_paths[fd] = name
        return fd, name


class IoProxy:
    """`io` as seen by treadmill.fs (and the `open` builtin there)."""

    def __init__(self, steps):
        self._steps = steps

    def __getattr__(self, name):
        return getattr(io, name)

    def open(self, file, mode='r', *a, **kw):
        if isinstance(file, int) or not _is_write_mode(mode):
            real = io.open(file, mode, *a, **kw)
            if isinstance(file, int) and _is_write_mode(mode):
                path = self._steps.world.fd_paths.get(file, '?')
                return FileProxy(self._steps, real, path)
            return real
        self._steps.step('open-for-write', file)
        real = io.open(file, mode, *a, **kw)
        self._steps.world.note_written(file)
        return FileProxy(self._steps, real, file)


class EmOsProxy:
    """`os` as seen by treadmill.eventmgr."""

    def __init__(self, world):
        self._world = world

    def __getattr__(self, name):
        return getattr(os, name)

    def stat(self, path, *a, **kw):
        st = os.stat(path, *a, **kw)
        w = self._world
        base = os.path.basename(path)
        if os.path.dirname(path) == w.cache_dir:
            ctime = w.ctime.get(base, w.now)
            w.stats['virtual_stats'] += 1
            return types.SimpleNamespace(
                st_ctime=ctime, st_mtime=ctime, st_atime=ctime,
                st_mode=st.st_mode, st_size=st.st_size, st_ino=st.st_ino,
                st_uid=st.st_uid, st_gid=st.st_gid, st_nlink=st.st_nlink)
        return st

    def unlink(self, path):
        self._world.steps.step('unlink-extra', path)
        os.unlink(path)
        self._world.ctime.pop(os.path.basename(path), None)


class YamlProxy:
    """`yaml` as seen by treadmill.eventmgr: the manifest is dumped through a
    stepping stream whatever kind of file object fs handed to the callback."""

    def __init__(self, world):
        self._world = world

    def __getattr__(self, name):
        return getattr(yaml, name)

    def dump(self, data, stream=None, **kw):
        if stream is not None and not isinstance(stream, FileProxy):
            name = getattr(stream, 'name', '?')
            stream = FileProxy(self._world.steps, stream, name)
            self._world.steps.open_files.remove(stream)
            self._world.note_written_if_final(name)
        if stream is not None:
            # what the code means to store (harness-side copy of the document)
            doc = _parse(dump_doc(data).encode())[1]
            self._world.note_intended(str(stream._path), doc)
        return yaml.dump(data, stream=stream, **kw)


# -- the world ---------------------------------------------------------------------
RUN_ROOT = {'dir': None}


def run_root_begin():
    """Run-private parent of every scratch directory (made before the
    workers are forked, removed by the parent even if workers were killed)."""
    base = '/dev/shm' if os.path.isdir('/dev/shm') and \
        os.access('/dev/shm', os.W_OK) else None
    RUN_ROOT['dir'] = tempfile.mkdtemp(prefix='verif-c12-', dir=base)


def run_root_end():
    if RUN_ROOT['dir']:
        shutil.rmtree(RUN_ROOT['dir'], ignore_errors=True)
    RUN_ROOT['dir'] = None


class _FakeLease:
    def heartbeat(self):
        pass

    def remove(self):
        pass


class _FakeWatchdogs:
    def create(self, name, timeout=None, content=''):
        return _FakeLease()


class _UtilsProxy:
    """`utils` as seen by treadmill.eventmgr during start-up: an unhandled
    exception in a watch callback propagates to the harness instead of
    os._exit()ing the worker."""

    def __getattr__(self, name):
        from treadmill import utils as real
        return getattr(real, name)

    @staticmethod
    def exit_on_unhandled(func):
        return func


class World:
    """One node: temp root, EventMgr, fake ZK."""

    def __init__(self):
        modstate.reset()    # module-level memos do not leak between cases
        self.root = tempfile.mkdtemp(prefix='node-', dir=RUN_ROOT['dir'])
        self.cache_dir = os.path.join(self.root, 'cache')
        os.makedirs(self.cache_dir)
        self.stats = collections.Counter()
        self.steps = Steps(self)
        self.ctime = {}
        self.fd_paths = {}
        self.intended = {}
        self.intended_by_path = {}
        self.now = T_SYNC
        self.snapshot = None
        self.snapshot_ctime = None
        self.zk_ms = 0
        self.tree = None
        self.zk = None
        self._saved = {}
        self._install()
        self.mgr = self.new_mgr()

    # seams ------------------------------------------------------------------
    def _install(self):
        self._saved = {
            'em_os': eventmgr.os, 'em_yaml': eventmgr.yaml,
            'fs_os': tm_fs.os, 'fs_tempfile': tm_fs.tempfile,
            'fs_io': tm_fs.io, 'fs_open': tm_fs.__dict__.get('open'),
        }
        eventmgr.os = EmOsProxy(self)
        eventmgr.yaml = YamlProxy(self)
        tm_fs.os = OsProxy(self.steps)
        tm_fs.tempfile = TempfileProxy(self.steps)
        ioproxy = IoProxy(self.steps)
        tm_fs.io = ioproxy
        tm_fs.open = ioproxy.open

    def close(self):
        self.steps.close_all()
        eventmgr.os = self._saved['em_os']
        eventmgr.yaml = self._saved['em_yaml']
        tm_fs.os = self._saved['fs_os']
        tm_fs.tempfile = self._saved['fs_tempfile']
        tm_fs.io = self._saved['fs_io']
        if self._saved['fs_open'] is None:
            tm_fs.__dict__.pop('open', None)
        else:
            tm_fs.open = self._saved['fs_open']
        shutil.rmtree(self.root, ignore_errors=True)

    def new_mgr(self):
        mgr = eventmgr.EventMgr(self.root)
        mgr._hostname = HOST
        if mgr.tm_env.cache_dir != self.cache_dir:
            raise HarnessError('cache dir %r' % mgr.tm_env.cache_dir)
        return mgr

    # bookkeeping -----------------------------------------------------------
    def path_of_fd(self, fd):
        if fd in self.fd_paths:
            return self.fd_paths[fd]
        for f in self.steps.open_files:
            try:
                if f.fileno() == fd:
                    return f.name
            except (OSError, ValueError):
                continue
        return '?'

    def note_created(self, path):
        if os.path.dirname(path) == self.cache_dir:
            self.ctime[os.path.basename(path)] = self.now

    def note_written(self, path, src=None):
        path = str(path)
        if os.path.dirname(path) == self.cache_dir:
            base = os.path.basename(path)
            self.ctime[base] = self.now
            if not base.startswith('.'):
                self.steps.written.add(base)
            if src is not None and str(src) in self.intended_by_path:
                self.intended.setdefault(base, []).append(
                    self.intended_by_path[str(src)])

    def note_intended(self, path, doc):
        self.intended_by_path[path] = doc
        if os.path.dirname(path) == self.cache_dir and \
                not os.path.basename(path).startswith('.'):
            # the stream is a visible file itself (written in place)
            self.intended.setdefault(os.path.basename(path), []).append(doc)

    def note_written_if_final(self, path):
        if os.path.dirname(str(path)) == self.cache_dir and \
                os.path.basename(str(path)) in SLOTS:
            self.note_written(path)

    def read_dir(self):
        out = {}
        for name in sorted(os.listdir(self.cache_dir)):
            p = os.path.join(self.cache_dir, name)
            try:
                with open(p, 'rb') as f:
                    out[name] = f.read()
            except OSError as err:
                out[name] = 'unreadable: %s' % err
        return out

    def write_dir(self, files, ctimes):
        for name in os.listdir(self.cache_dir):
            os.unlink(os.path.join(self.cache_dir, name))
        for name, data in files.items():
            with open(os.path.join(self.cache_dir, name), 'wb') as f:
                f.write(data)
        self.ctime = dict(ctimes)

    # set-up of one case ----------------------------------------------------
    def setup(self, case):
        """case = {'slots': [(prior, expected, man, plc), ...], 'check': bool}"""
        self.steps.close_all()
        self.steps.armed = False
        self.fd_paths = {}
        self.intended = {}
        self.intended_by_path = {}
        # one agent process per case (whatever the manager object remembers
        # must not leak from one case into the next)
        self.mgr = self.new_mgr()
        tree = fakezk.Tree(clock_ms=lambda: self.zk_ms)
        zk = tree.client()
        self.zk_ms = int((T_PLACE - 10000) * 1000)
        for p in (z.SCHEDULED, z.path.placement(HOST)):
            zk.ensure_path(p)
        files = {}
        ctimes = {}
        for i, cfg in enumerate(case['slots']):
            _prior, _exp, man, plc = cfg
            if man:
                self.zk_ms = int((T_PLACE - 5000) * 1000)
                zkutils.put(zk, z.path.scheduled(SLOTS[i]), manifest(i, man))
            if plc:
                self.zk_ms = int(T_PLACE * 1000)
                zkutils.put(zk, z.path.placement(HOST, SLOTS[i]),
                            placement_data(i, plc))
            pf = prior_file(i, cfg)
            if pf is not None:
                files[SLOTS[i]] = dump_doc(pf[0]).encode()
                ctimes[SLOTS[i]] = pf[1]
        self.tree = tree
        self.zk = zk
        self.write_dir(files, ctimes)
        return files

    def retarget(self, slots2, when):
        """ZooKeeper moves on while the agent runs: per slot the manifest /
        placement node is (re)created or removed as (man, plc) say."""
        self.zk_ms = int(when * 1000)
        for i, (_exp, man, plc) in enumerate(slots2):
            for path, want, data in (
                    (z.path.scheduled(SLOTS[i]), man,
                     manifest(i, man) if man else None),
                    (z.path.placement(HOST, SLOTS[i]), plc,
                     placement_data(i, plc) if plc else None)):
                if self.zk.exists(path):
                    self.zk.delete(path)
                if want:
                    zkutils.put(self.zk, path, data)

    # running ---------------------------------------------------------------
    def sync(self, expected, check_existing, fault=None, when=T_SYNC,
             fresh_mgr=False):
        """The sequence the watch callbacks run: cache marked not ready,
        _synchronize, cache marked ready.  Returns (outcome, info)."""
        if fresh_mgr:
            self.mgr = self.new_mgr()
        self.now = when
        self.zk_ms = int(when * 1000)
        self.snapshot = None
        st = self.steps
        st.reset(fault)
        self.mgr._cache_notify(False)
        st.armed = True
        try:
            self.mgr._synchronize(self.zk, list(expected),
                                  check_existing=check_existing)
        except Kill:
            st.armed = False
            st.close_all()
            return 'killed', st.fired
        except OSError as err:
            st.armed = False
            st.close_all()
            if st.fired is None:
                raise
            return 'error', (st.fired, '%s: %s' % (type(err).__name__, err))
        finally:
            st.armed = False
        st.close_all()
        if fault is not None and st.fired is None:
            raise HarnessError('fault %r did not fire (%d steps)'
                               % (fault, st.n))
        self.mgr._cache_notify(True)
        return 'ok', None

    def startup(self, when=T_SYNC):
        """The real start-up path: EventMgr.run(once=True) with the fake zk
        client as context.GLOBAL.zk.conn.  fakezk's DataWatch / ChildrenWatch
        call back immediately with the current state, as kazoo's do, so the
        first _synchronize is issued by the real _app_watch with the flag the
        real code computes.  Stubbed: the watchdog lease, time.sleep of the
        heartbeat loop, utils.exit_on_unhandled (re-raises instead of
        os._exit).  -> list of check_existing flags of the _synchronize calls
        """
        self.mgr = self.new_mgr()
        self.mgr.tm_env.watchdogs = _FakeWatchdogs()
        self.now = when
        self.zk_ms = int(when * 1000)
        self.snapshot = None
        st = self.steps
        st.reset(None)
        calls = []
        real_sync = eventmgr.EventMgr._synchronize

        def spy(mgr, zkclient, expected, check_existing=False):
            calls.append(bool(check_existing))
            return real_sync(mgr, zkclient, expected,
                             check_existing=check_existing)

        saved = (eventmgr.context, eventmgr.time, eventmgr.utils)
        ns = types.SimpleNamespace
        eventmgr.context = ns(GLOBAL=ns(zk=ns(conn=self.zk)))
        eventmgr.time = ns(sleep=lambda _secs: None, time=lambda: self.now)
        eventmgr.utils = _UtilsProxy()
        eventmgr.EventMgr._synchronize = spy
        st.armed = True
        try:
            self.mgr.run(once=True)
        finally:
            st.armed = False
            eventmgr.EventMgr._synchronize = real_sync
            eventmgr.context, eventmgr.time, eventmgr.utils = saved
            st.close_all()
        return calls


# -- oracle ---------------------------------------------------------------------
_PARSED = {}


def _parse(data):
    """Harness-side reading of a cache file (memoised on the bytes)."""
    if not isinstance(data, bytes):
        return ('unreadable', data)
    if data not in _PARSED:
        if len(_PARSED) > 5000:
            _PARSED.clear()
        try:
            _PARSED[data] = ('doc', yaml.load(data.decode()))
        except Exception as err:  # pylint: disable=broad-except
            _PARSED[data] = ('unparsable', '%s' % type(err).__name__)
    return _PARSED[data]


def _v(clause, site, detail):
    return {'clause': clause, 'site': site, 'detail': detail}


def allowed_docs(case, prior_files):
    """name -> list of complete documents that may be seen under that name."""
    out = {}
    for i, cfg in enumerate(case['slots']):
        docs = []
        if SLOTS[i] in prior_files:
            docs.append(_parse(prior_files[SLOTS[i]])[1])
        new = merged(i, cfg[2], cfg[3])
        if new is not None:
            docs.append(new)
        out[SLOTS[i]] = docs
    return out


def check_visible(files, allowed, where, site, out, stats, intended=None):
    """Absent or complete: every non-dot name holds a complete document equal
    to an old or the new manifest of that instance."""
    for name, data in files.items():
        if name.startswith('.'):
            continue
        stats['visible_files_checked'] += 1
        kind, doc = _parse(data)
        docs = allowed.get(name)
        if docs is not None and intended:
            docs = docs + intended.get(name, [])
        if docs is None:
            out.append(_v('non-instance-name-visible-in-cache', site,
                          {'where': where, 'name': _canon_name(name),
                           'bytes': len(data)}))
            continue
        if kind == 'doc' and isinstance(doc, dict) and doc in docs:
            continue
        out.append(_v('partial-manifest-visible', site,
                      {'where': where, 'name': name,
                       'bytes': len(data) if isinstance(data, bytes) else None,
                       'parsed_as': kind,
                       'keys': sorted(doc) if isinstance(doc, dict)
                       else repr(doc)[:60]}))


def _canon_name(name):
    for s in SLOTS:
        if name.startswith(s):
            return s + '<suffix>'
        if name.startswith('.' + s):
            return '.' + s + '<suffix>'
    return name


def check_synced(case, files, written, where, out, stats):
    """Post-conditions of a completed synchronisation."""
    expected = {SLOTS[i] for i, cfg in enumerate(case['slots']) if cfg[1]}
    names = {n for n in files if not n.startswith('.')}
    stats['sync_postconditions_checked'] += 1
    for n in sorted(names - expected):
        out.append(_v('cache-names-unplaced-instance',
                      'eventmgr.EventMgr._synchronize',
                      {'where': where, 'name': _canon_name(n),
                       'expected': sorted(expected)}))
    for i, cfg in enumerate(case['slots']):
        name = SLOTS[i]
        if cfg[1] and cfg[2] and cfg[3] and name not in names:
            out.append(_v('placed-instance-missing-from-cache',
                          'eventmgr.EventMgr._cache',
                          {'where': where, 'name': name, 'slot': list(cfg)}))
        if (case.get('check') or where != 'after sync') and cfg[0] == 'O' \
                and cfg[1] and cfg[2] and cfg[3] and name in files:
            # a check_existing sync must refresh a file that is older than
            # the placement it belongs to (the quantifier's "outdated files")
            stats['outdated_files_checked'] += 1
            kind, doc = _parse(files[name])
            if kind != 'doc' or doc != merged(i, cfg[2], cfg[3]):
                out.append(_v('outdated-file-not-refreshed',
                              'eventmgr.EventMgr._cache',
                              {'where': where, 'name': name,
                               'slot': list(cfg)}))
        if name in written and name in files:
            stats['written_files_checked'] += 1
            want = merged(i, cfg[2], cfg[3])
            kind, doc = _parse(files[name])
            if kind != 'doc' or doc != want:
                diff = []
                if isinstance(doc, dict) and isinstance(want, dict):
                    diff = sorted(k for k in set(doc) | set(want)
                                  if doc.get(k, '<absent>') !=
                                  want.get(k, '<absent>'))
                placement_keys = [k for k in diff
                                  if k in ('identity', 'expires')]
                clause = 'written-file-not-manifest-merged-with-placement'
                if diff and all(k in ('identity', 'expires', 'task')
                                for k in diff):
                    clause = 'written-file-lacks-placement-data' \
                        if placement_keys else 'written-file-wrong-task-id'
                out.append(_v(clause, 'eventmgr.EventMgr._cache',
                              {'where': where, 'name': name,
                               'differing_keys': diff,
                               'got': {k: doc.get(k, '<absent>')
                                       for k in diff}
                               if isinstance(doc, dict) else repr(doc)[:80],
                               'want': {k: want.get(k, '<absent>')
                                        for k in diff}
                               if isinstance(want, dict) else None}))


def _exc_site(exc):
    import traceback
    for fr in reversed(traceback.extract_tb(exc.__traceback__)):
        if '/treadmill/' in fr.filename:
            return '%s.%s' % (
                fr.filename.split('/treadmill/')[-1][:-3].replace('/', '.')
                .replace('.__init__', ''), fr.name)
    return 'harness'


def run_startup_case(world, case):
    """Start-up slice: the listed instances are exactly those with a
    placement node (the ChildrenWatch delivers the real children); the first
    synchronisation after start is issued by the real EventMgr.run."""
    out = []
    stats = world.stats
    for cfg in case['slots']:
        if bool(cfg[1]) != bool(cfg[3]):
            raise HarnessError('start-up case lists %r' % (cfg,))
    prior_files = world.setup(case)
    world.zk_ms = int((T_PLACE - 9000) * 1000)
    zkutils.put(world.zk, z.path.server_presence(HOST), {}, ephemeral=True)
    allowed = allowed_docs(case, prior_files)
    try:
        calls = world.startup()
    except Exception as exc:  # pylint: disable=broad-except
        site = _exc_site(exc)
        if site == 'harness' or isinstance(exc, HarnessError):
            raise
        out.append(_v('startup-raised', site,
                      {'error': '%s: %s' % (type(exc).__name__,
                                            str(exc).replace(world.root, '<root>')[:160])}))
        return out, {'steps': world.steps.n, 'outcome': 'raised'}
    stats['startups'] += 1
    stats['startup_syncs'] += len(calls)
    stats['startup_syncs_check_existing'] += sum(calls)
    if not calls:
        raise HarnessError('start-up issued no synchronisation')
    info = {'steps': world.steps.n, 'trace': list(world.steps.trace),
            'outcome': 'ok', 'written': sorted(world.steps.written),
            'sync_flags': calls}
    files = world.read_dir()
    where = 'after start-up (first sync issued by EventMgr.run, ' \
            'check_existing=%s)' % calls[0]
    check_synced(case, files, world.steps.written, where, out, stats)
    check_visible(files, allowed, where, 'fs.write_safe', out, stats,
                  world.intended)
    if '.ready' not in files:
        out.append(_v('ready-marker-missing',
                      'eventmgr.EventMgr._cache_notify', {'where': where}))
    return out, info


T_SECOND = vclock.BASE + 2500.0         # a later placement event


def run_two_case(world, case):
    """Two synchronisations by ONE agent process: the first as in
    run_case (check_existing as given), then ZooKeeper and the placement
    list move on to case['slots2'] = [(listed, man, plc), ...] and the watch
    callback synchronises again (check_existing=False).  The
    post-conditions of the statement are judged after the second one."""
    out = []
    stats = world.stats
    prior_files = world.setup(case)
    exp1 = [SLOTS[i] for i, cfg in enumerate(case['slots']) if cfg[1]]
    try:
        outcome, _f = world.sync(exp1, case['check'], None)
        if outcome != 'ok':
            raise HarnessError('first sync outcome %r' % outcome)
        files1 = {n: d for n, d in world.read_dir().items()
                  if not n.startswith('.')}
        world.retarget(case['slots2'], T_SECOND - 1.0)
        exp2 = [SLOTS[i] for i, cfg in enumerate(case['slots2']) if cfg[0]]
        outcome, _f = world.sync(exp2, False, None, when=T_SECOND)
        if outcome != 'ok':
            raise HarnessError('second sync outcome %r' % outcome)
    except Exception as exc:  # pylint: disable=broad-except
        site = _exc_site(exc)
        if site == 'harness' or isinstance(exc, HarnessError):
            raise
        out.append(_v('synchronize-raised', site,
                      {'error': '%s: %s' % (type(exc).__name__,
                                            str(exc).replace(world.root, '<root>')[:160])}))
        return out, {'steps': world.steps.n, 'outcome': 'raised'}
    stats['second_syncs'] += 1
    case2 = {'slots': [['X'] + list(c) for c in case['slots2']],
             'check': False}
    files = world.read_dir()
    where = 'after a second sync by the same agent'
    check_synced(case2, files, world.steps.written, where, out, stats)
    allowed = allowed_docs(case, prior_files)
    for name, docs in allowed_docs(case2, files1).items():
        allowed.setdefault(name, [])
        allowed[name] = allowed[name] + docs
    check_visible(files, allowed, where, 'fs.write_safe', out, stats,
                  world.intended)
    if any(c[0] and c[1] and c[2] and SLOTS[i] not in files1
           for i, c in enumerate(case['slots2'])):
        stats['second_sync_had_to_add_a_file'] += 1
    return out, {'steps': world.steps.n, 'outcome': 'ok',
                 'written': sorted(world.steps.written),
                 'trace': list(world.steps.trace)}


def run_case(world, case, fault=None):
    """-> (violations, info).  `fault` = None | [flavour, k, torn]."""
    if case.get('startup'):
        return run_startup_case(world, case)
    if case.get('slots2') is not None:
        return run_two_case(world, case)
    out = []
    stats = world.stats
    prior_files = world.setup(case)
    allowed = allowed_docs(case, prior_files)
    expected = [SLOTS[i] for i, cfg in enumerate(case['slots']) if cfg[1]]
    # children come back in ZooKeeper's order; the code makes a set of them
    info = {}
    try:
        outcome, fired = world.sync(expected, case['check'],
                                    tuple(fault) if fault else None)
    except Exception as exc:  # pylint: disable=broad-except
        site = _exc_site(exc)
        if site == 'harness' or isinstance(exc, HarnessError):
            raise
        out.append(_v('synchronize-raised', site,
                      {'error': '%s: %s' % (type(exc).__name__,
                                            str(exc).replace(world.root, '<root>')[:160])}))
        return out, {'steps': world.steps.n, 'outcome': 'raised'}
    info['steps'] = world.steps.n
    info['trace'] = list(world.steps.trace)
    info['outcome'] = outcome
    info['written'] = sorted(world.steps.written)
    stats['syncs'] += 1
    if outcome == 'ok':
        files = world.read_dir()
        check_synced(case, files, world.steps.written, 'after sync', out,
                     stats)
        check_visible(files, allowed, 'after sync', 'fs.write_safe', out,
                      stats, world.intended)
        if '.ready' not in files:
            out.append(_v('ready-marker-missing',
                          'eventmgr.EventMgr._cache_notify', {}))
        return out, info
    # a fault fired
    op, kind, _name = fired[0] if outcome == 'error' else fired
    site = 'fs.write_safe'
    if op == 'unlink-extra':
        site = 'eventmgr.EventMgr._synchronize'
    info['fired'] = [op, kind]
    if outcome == 'killed':
        stats['kills'] += 1
        snap = world.snapshot
        check_visible(snap, allowed,
                      'kill snapshot at step %s on a %s' % (op, kind),
                      site, out, stats, world.intended)
        world.write_dir(snap, world.snapshot_ctime)
    else:
        stats['errors'] += 1
        files = world.read_dir()
        check_visible(files, allowed,
                      'after failed %s on a %s' % (op, kind),
                      site, out, stats, world.intended)
    # recovery: the restarted agent synchronises with check_existing=True
    try:
        outcome2, _ = world.sync(expected, True, None, when=T_RESYNC,
                                 fresh_mgr=True)
    except Exception as exc:  # pylint: disable=broad-except
        s2 = _exc_site(exc)
        if s2 == 'harness' or isinstance(exc, HarnessError):
            raise
        out.append(_v('resync-after-fault-raised', s2,
                      {'fault_at': [op, kind],
                       'error': '%s: %s' % (type(exc).__name__,
                                            str(exc).replace(world.root, '<root>')[:160])}))
        return out, info
    if outcome2 != 'ok':
        raise HarnessError('recovery sync outcome %r' % outcome2)
    stats['resyncs'] += 1
    files = world.read_dir()
    # what the interrupted sync may have left under an instance's name is a
    # legitimate "old" document for the recovery
    check_synced(case, files, world.steps.written,
                 'after re-sync following %s at %s' % (outcome, op), out,
                 stats)
    check_visible(files, allowed,
                  'after re-sync following %s at %s' % (outcome, op),
                  site, out, stats, world.intended)
    return out, info


def fault_menu(info):
    """Every fault of a completed fault-free run: [flavour, k, torn]."""
    out = []
    for k, (op, _kind) in enumerate(info['trace']):
        if op == 'write':
            for torn in (0, 1, 2, 3):
                out.append(['kill', k, torn])
            for torn in (0, 2):
                out.append(['error', k, torn])
        else:
            out.append(['kill', k, 0])
            out.append(['error', k, 0])
    return out


# -- menus -------------------------------------------------------------------------
def slot_menu(big=False):
    return [(p, e, m, c) for p in PRIORS for e in (0, 1)
            for m in (MANS + (3,) if big else MANS) for c in PLCS]


def slot_weight(cfg):
    p, e, m, c = cfg
    return (PRIORS.index(p) > 0) + e + (m > 0) + (c > 0)


def cases(nslots):
    menu = sorted(slot_menu(), key=slot_weight)
    for combo in itertools.product(menu, repeat=nslots):
        for check in (False, True):
            yield {'slots': list(combo), 'check': check}
