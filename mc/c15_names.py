"""C15 sub-checks: container unique names and the 13-character unique id.

names : instance name x unique id  ->  _fmt_unique_name -> app_name /
        app_unique_id
uid   : gen_uniqueid / eventfile_unique_name through a virtualised os.stat
        over a lattice of seeds; utils.to_base_n / from_base_n
"""
import os
import string

from mc import c15_common as cc

PROIDS = ['p', 'proid1', 'pro-id', 'pro_id', 'P0']
APPS = ['a', 'a.b', 'a-b', 'a_b', 'a.b-c', 'a-b.c_d', 'a--b', 'a.-b',
        'a-0000000001', '0', 'a.b.c.d', '-a', 'a-']
INSTANCES = ['0000000000', '0000000001', '0000012345', '9999999999']
UIDS = ['0000000000000', '0000000000001', '000000000000z', 'Zzzzzzzzzzzzz',
        'aB3dE5gH7jK9m', 'KQ1QSWZgGHcu3']      # last = 2**77-1 in base 62
ALPHA62 = string.digits + string.ascii_lowercase + string.ascii_uppercase
SEED_BITS = 77
SEED_MAX = 2 ** SEED_BITS - 1


class Names:
    name = 'names'
    chunk = 4000

    def reset(self):
        pass

    def menus(self, tier):
        return {'names': [('proid', PROIDS), ('app', APPS),
                          ('instance', INSTANCES), ('uniqueid', UIDS)]}

    def domain(self, tier):
        return cc.Concat([cc.Product('names', self.menus(tier)['names'])])

    def evaluate(self, case):
        from treadmill import appcfg
        _t, proid, app, inst, uid = case
        name = '%s.%s#%s' % (proid, app, inst)
        site = 'appcfg._fmt_unique_name/app_name/app_unique_id'
        viol = []
        uniq = appcfg._fmt_unique_name(name, uid)
        back_name = appcfg.app_name(uniq)
        back_uid = appcfg.app_unique_id(uniq)
        if back_name != name:
            viol.append(('unique-name-app-name-mismatch', site,
                         {'instance': name, 'uniqueid': uid,
                          'unique_name': uniq, 'app_name': back_name}))
        if back_uid != uid:
            viol.append(('unique-name-id-mismatch', site,
                         {'instance': name, 'uniqueid': uid,
                          'unique_name': uniq, 'app_unique_id': back_uid}))
        if len(back_uid) != 13 or not uniq.endswith('-' + uid):
            viol.append(('unique-name-id-not-13-chars', site,
                         {'unique_name': uniq, 'app_unique_id': back_uid}))
        again = appcfg._fmt_unique_name(back_name, back_uid)
        if again != uniq:
            viol.append(('unique-name-not-idempotent', site,
                         {'unique_name': uniq, 'reencoded': again}))
        # the two object-shaped front ends must agree with the formatter
        m = appcfg.manifest_unique_name({'name': name, 'uniqueid': uid})
        if m != uniq:
            viol.append(('unique-name-front-ends-disagree', site,
                         {'manifest_unique_name': m, 'fmt': uniq}))
        sep = any(c in app for c in '-_.') or any(c in proid for c in '-_')
        return {'enc': uniq, 'val': repr((name, uid)), 'evals': 5,
                'nontrivial': sep, 'viol': viol}

    def pair_site(self, kind, a, b):
        return 'appcfg._fmt_unique_name'


def lattice(tier):
    """Seeds: every 13-digit base-62 value with <= 2 non-zero digits (below
    2**77), every value < 62**3 (62**2 in quick), and 2**k, 2**k +- 1."""
    seeds = set()
    digits = range(1, 62)
    pw = [62 ** i for i in range(13)]
    seeds.add(0)
    for i in range(13):
        for d in digits:
            seeds.add(d * pw[i])
    step = 1 if tier != 'quick' else 2
    dd = [d for d in digits if (d - 1) % step == 0 or d == 61]
    for i in range(13):
        for j in range(i + 1, 13):
            for d1 in dd:
                for d2 in dd:
                    seeds.add(d1 * pw[i] + d2 * pw[j])
    seeds.update(range(62 ** 3 if tier != 'quick' else 62 ** 2))
    for k in range(SEED_BITS + 1):
        for x in (2 ** k - 1, 2 ** k, 2 ** k + 1):
            seeds.add(x)
    return sorted(s for s in seeds if 0 <= s <= SEED_MAX)


class _Stat:
    __slots__ = ('st_ctime', 'st_ino')

    def __init__(self, ctime, ino):
        self.st_ctime = ctime
        self.st_ino = ino


class _FakeOs:
    """os as seen by treadmill.appcfg: stat is virtual, path is real."""
    path = os.path

    def __init__(self):
        self.table = {}

    def stat(self, path):
        return self.table[path]


# two ways of producing the same seed: which instance id / inode / ctime.
# The ctime bases have the bits just above the 13 kept ones SET, so that a
# mask wider than 77 bits (or a different shift) cannot go unnoticed.
DECOMP = [('inst=1,ctime=2018+bits13..24', 1,
           ((1537800000 * 10 ** 6) | (0xFFF << 13)) & ~0x1FFF),
          ('inst=9999999999,ctime=bit13', 9999999999, 1 << 13)]
BASE_ALPHABETS = [('default36', None, None), ('alnum62', 62, ALPHA62),
                  ('hex-of-default', 16, None)]


class Uid:
    name = 'uid'
    chunk = 12000

    def __init__(self):
        self._lat = {}
        self._fake = None

    def reset(self):
        self._fake = None

    def menus(self, tier):
        return {'uid': [('seed', 'lattice: 13-digit base-62 values with <= 2 '
                         'non-zero digits%s; all values < 62**%d; 2**k and '
                         '2**k+-1 for k <= 77; all <= 2**77-1'
                         % (' (digit menu 1,3,5,..,61)' if tier == 'quick'
                            else '', 2 if tier == 'quick' else 3)),
                        ('decomposition (instance id, ctime base)',
                         [d[0] for d in DECOMP])],
                'base_n': [('alphabet/base', [b[0] for b in BASE_ALPHABETS])]}

    def _lattice(self, tier):
        if tier not in self._lat:
            self._lat[tier] = lattice(tier)
        return self._lat[tier]

    def domain(self, tier):
        return cc.Concat([cc.Explicit('uid', self._lattice(tier))])

    def _install(self):
        from treadmill import appcfg
        if self._fake is None or appcfg.os is not self._fake:
            self._fake = _FakeOs()
            appcfg.os = self._fake
        return appcfg

    def evaluate(self, case):
        from treadmill import utils
        appcfg = self._install()
        _t, seed = case
        site = 'appcfg.gen_uniqueid'
        viol = []
        evals = 0
        uids = []
        for _label, inst, base_us in DECOMP:
            # choose (ctime, ino, instance) that the documented recipe maps to
            # `seed`: low 64 bits = ino ^ (instance << 31), high 13 bits = the
            # low 13 bits of ctime in microseconds.
            low = seed & (2 ** 64 - 1)
            high = seed >> 64
            ino = low ^ ((inst << 31) & (2 ** 64 - 1))
            # a float ctime whose microsecond count has the wanted low bits
            us = base_us + high
            ctime = us / 10 ** 6
            if int(ctime * 10 ** 6) != us:       # float rounding: next try
                ctime = (us + 0.5) / 10 ** 6
            assert int(ctime * 10 ** 6) == us, (seed, us)
            path = '/virtual/apps/proid.app#%010d' % inst
            self._fake.table = {path: _Stat(ctime, ino)}
            uid = appcfg.gen_uniqueid(path)
            evals += 1
            uids.append(uid)
            if len(uid) != 13 or any(c not in ALPHA62 for c in uid):
                viol.append(('uniqueid-not-13-alnum-chars', site,
                             {'seed': seed, 'uniqueid': uid}))
            back = utils.from_base_n(uid, base=62, alphabet=ALPHA62)
            evals += 1
            if back != seed:
                viol.append(('uniqueid-does-not-decode-to-seed', site,
                             {'seed': seed, 'uniqueid': uid, 'decoded': back,
                              'ctime': ctime, 'ino': ino, 'instance': inst}))
            uname = appcfg.eventfile_unique_name(path)
            evals += 1
            inst_name = os.path.basename(path)
            if (appcfg.app_unique_id(uname) != uid or
                    appcfg.app_name(uname) != inst_name or
                    len(appcfg.app_unique_id(uname)) != 13):
                viol.append(('eventfile-unique-name-mismatch',
                             'appcfg.eventfile_unique_name',
                             {'eventfile': path, 'unique_name': uname,
                              'uniqueid': uid,
                              'app_name': appcfg.app_name(uname),
                              'app_unique_id': appcfg.app_unique_id(uname)}))
            evals += 2
        if len(set(uids)) != 1:
            viol.append(('uniqueid-not-a-function-of-seed', site,
                         {'seed': seed, 'uniqueids': uids}))
        for label, base, alpha in BASE_ALPHABETS:
            enc = utils.to_base_n(seed, base=base, alphabet=alpha)
            dec = utils.from_base_n(enc, base=base, alphabet=alpha)
            evals += 2
            if dec != seed:
                viol.append(('base-n-roundtrip-mismatch',
                             'utils.to_base_n/from_base_n:' + label,
                             {'number': seed, 'encoded': enc,
                              'decoded': dec}))
            if alpha is ALPHA62 and len(enc) > 13:
                viol.append(('base-n-longer-than-13',
                             'utils.to_base_n:' + label,
                             {'number': seed, 'encoded': enc}))
        return {'enc': uids[0], 'val': repr(seed), 'evals': evals,
                'nontrivial': seed >= 62, 'viol': viol}

    def pair_site(self, kind, a, b):
        return 'appcfg.gen_uniqueid'


NAMES = Names()
UID = Uid()
