"""C18 world: the real trace archiver on the fake ZooKeeper.

Code under test (all real, from $VERIF_REPO/lib/python):
  treadmill.trace.app.zk.cleanup_trace / cleanup_finished /
      cleanup_trace_history / cleanup_finished_history / list_traces
  treadmill.trace.server.zk.cleanup_server_trace / cleanup_server_trace_history
  treadmill.trace._zk.upload_batch / download_batch / cleanup
  treadmill.zkutils.create / ensure_deleted / with_retry

Harness side: mc.fakezk tree; `time.time` = BASE + CLOCK.L of mc.vclock read
*without* the per-call tick (the clock is frozen within one archiver run, so
"exactly at the expiry" is a well defined boundary; it moves only by explicit
whole-second advances between runs); fake-ZK ctime/mtime from a harness
variable; the order in which `get_children` hands out names is a menu
(insertion / reversed / rotated) because real ZooKeeper gives no order;
`tempfile.tempdir` points to a run-private directory (sqlite scratch files).

Four families of cases (each a complete finite product, see menus()):
  T  trace shards      -> cleanup_trace, then cleanup_trace_history
  F  finished records  -> cleanup_finished, then cleanup_finished_history
  S  server trace      -> cleanup_server_trace, then ..._history
  H  history pruning   -> _zk.cleanup via the three cleanup_*_history
Every archiving / pruning run is executed once to completion (counting its ZK
writes), then cut before write k for every k (fakezk.Crash raised from the
tree hook), the cut state checked, the archiver re-run to completion on the
cut state and checked again ("kill" flavour).  "Error" flavour: for every k
that one write fails with kazoo ConnectionLoss (request lost = not applied;
thorough also: applied, reply lost), later requests work; the real code
reacts (retries under zkutils.with_retry, propagates otherwise - a propagated
kazoo exception ends that run, nothing else is swallowed), the resulting tree
is checked with the same oracle, the archiver re-run and checked again.
"""
from mc import modstate  # noqa: E402
import collections
import itertools
import os
import shutil
import sqlite3
import sys
import tempfile
import time
import zlib

import kazoo.exceptions
import kazoo.retry

from mc import fakezk
from mc import vclock
from mc.vclock import CLOCK

from treadmill import zknamespace as z  # noqa: E402
from treadmill import zkutils  # noqa: E402
from treadmill.trace import _zk  # noqa: E402
from treadmill.trace.app import zk as app_zk  # noqa: E402
from treadmill.trace.server import zk as server_zk  # noqa: E402


class HarnessError(Exception):
    pass


_REAL_RETRY = kazoo.retry.KazooRetry


class _NoSleepRetry(_REAL_RETRY):
    """zkutils.with_retry builds a kazoo.retry.KazooRetry per call; its
    back-off sleeps (real time.sleep + random jitter) are environment, not
    behaviour: they are made instantaneous."""

    def __init__(self, *a, **kw):
        kw['sleep_func'] = lambda _secs: None
        _REAL_RETRY.__init__(self, *a, **kw)


def install_retry():
    kazoo.retry.KazooRetry = _NoSleepRetry


# -- time ---------------------------------------------------------------------
EXPIRES = 300                 # seconds, an int like the click option
L0 = 100000                   # logical second of the first archiver run
EPS = 2.0 ** -10              # "just" older / younger (exactly representable)


def _frozen_time():
    return vclock.BASE + CLOCK.L


def install_clock():
    time.time = _frozen_time


def now():
    return vclock.BASE + CLOCK.L


AGES = ('W', 'O', 'E', 'Y')    # well old, just older, exactly at, just younger


def age_ts(age):
    """Timestamp of an age class relative to the first run (L0)."""
    edge = vclock.BASE + L0 - EXPIRES
    return {'W': edge - 3600.0, 'O': edge - EPS, 'E': edge,
            'Y': edge + EPS, 'A': edge - 7200.0}[age]


def age_ms(age):
    """mtime (ms) of a finished record of an age class."""
    edge = int((vclock.BASE + L0 - EXPIRES) * 1000)
    return {'W': edge - 3600000, 'O': edge - 1, 'E': edge, 'Y': edge + 1,
            'A': edge - 7200000}[age]


# -- names --------------------------------------------------------------------
INSTANCES = ('proid.a#0000000001', 'proid.b#0000000002', 'proid.c#0000000257')
GHOST = 'proid.g#0000000513'          # only ever in pre-existing snapshots
SERVERS = ('srv1', 'srv2')            # shards 005C and 00C3
HOST = 'node1'
ARCH_SID = 50
ADMIN_SID = 1
WRITES = ('create', 'set', 'delete')

KINDS = {
    'trace': dict(live=z.TRACE, hist=z.TRACE_HISTORY, table='trace',
                  prefix='trace.db.gzip-', sharded=True),
    'finished': dict(live=z.FINISHED, hist=z.FINISHED_HISTORY,
                     table='finished', prefix='finished.db.gzip-',
                     sharded=False),
    'server': dict(live=z.SERVER_TRACE, hist=z.SERVER_TRACE_HISTORY,
                   table='server_trace', prefix='server_trace.db.gzip-',
                   sharded=True),
}

assert z.path.trace(INSTANCES[0], 'x').split('/')[2] == \
    z.path.trace(INSTANCES[2], 'x').split('/')[2] != \
    z.path.trace(INSTANCES[1], 'x').split('/')[2]
assert z.path.server_trace(SERVERS[0], 'x').split('/')[2] != \
    z.path.server_trace(SERVERS[1], 'x').split('/')[2]


# -- child order --------------------------------------------------------------
ORDERS = ('ins', 'rev', 'rot')


class OrderClient(fakezk.Client):
    """fakezk client whose get_children returns the names in a harness-chosen
    order (real ZooKeeper promises none)."""
    order = 'ins'
    world = None

    def _after(self):
        w = self.world
        if w is not None and w.raise_after:
            w.raise_after = False
            raise kazoo.exceptions.ConnectionLoss('injected (reply lost)')

    def create(self, *a, **kw):
        out = fakezk.Client.create(self, *a, **kw)
        self._after()
        return out

    def set(self, *a, **kw):
        out = fakezk.Client.set(self, *a, **kw)
        self._after()
        return out

    def delete(self, *a, **kw):
        out = fakezk.Client.delete(self, *a, **kw)
        self._after()
        return out

    def get_children(self, path, watch=None, include_data=False):
        out = fakezk.Client.get_children(self, path, watch=watch,
                                         include_data=include_data)
        names = out[0] if include_data else out
        if self.order == 'rev':
            names = names[::-1]
        elif self.order == 'rot' and len(names) > 1:
            names = names[1:] + names[:1]
        if include_data:
            return names, out[1]
        return names


# -- scratch ------------------------------------------------------------------
_SCRATCH = {'dir': None, 'saved': None}
RUN_ROOT = {'dir': None}


def run_root_begin():
    """Run-private parent of every scratch directory (made before the
    workers are forked, removed by the parent even if workers were killed)."""
    base = '/dev/shm' if os.path.isdir('/dev/shm') and \
        os.access('/dev/shm', os.W_OK) else None
    RUN_ROOT['dir'] = tempfile.mkdtemp(prefix='verif-c18-', dir=base)


def run_root_end():
    if RUN_ROOT['dir']:
        shutil.rmtree(RUN_ROOT['dir'], ignore_errors=True)
    RUN_ROOT['dir'] = None


def scratch_begin():
    _SCRATCH['dir'] = tempfile.mkdtemp(prefix='w-', dir=RUN_ROOT['dir'])
    _SCRATCH['saved'] = tempfile.tempdir
    tempfile.tempdir = _SCRATCH['dir']


def scratch_end():
    tempfile.tempdir = _SCRATCH['saved']
    if _SCRATCH['dir']:
        shutil.rmtree(_SCRATCH['dir'], ignore_errors=True)
    _SCRATCH['dir'] = None


def scratch_sweep():
    """Remove what interrupted uploads left behind (Crash passes through
    upload_batch before its os.unlink)."""
    d = _SCRATCH['dir']
    if d:
        for n in os.listdir(d):
            try:
                os.unlink(os.path.join(d, n))
            except OSError:
                pass


# -- the world ----------------------------------------------------------------
def _site(depth=2):
    f = sys._getframe(depth)
    names = []
    while f is not None:
        fn = f.f_code.co_filename
        if '/treadmill/' in fn and not fn.endswith('zkutils.py'):
            mod = fn.split('/treadmill/')[-1][:-3].replace('/', '.')
            names.append('%s.%s' % (mod, f.f_code.co_name))
            if len(names) == 2:
                break
        f = f.f_back
    return '<-'.join(names) or 'harness'


class World:
    """One ZooKeeper tree + the archiver's session + crash hook."""

    def __init__(self, tree=None, order='ins'):
        self.zk_ms = int((vclock.BASE) * 1000)
        if tree is None:
            tree = fakezk.Tree(clock_ms=lambda: 0)
            adm = fakezk.Client(tree, ADMIN_SID)
            tree.sessions[ADMIN_SID] = True
            for p in (z.SCHEDULED, z.TRACE, z.TRACE_HISTORY, z.FINISHED,
                      z.FINISHED_HISTORY, z.SERVER_TRACE,
                      z.SERVER_TRACE_HISTORY):
                adm.ensure_path(p)
        self.tree = tree
        self.order = order
        self._bind()

    def _bind(self):
        t = self.tree
        t.clock_ms = self._clock_ms
        t.sessions[ADMIN_SID] = True
        t.sessions[ARCH_SID] = True
        self.admin = fakezk.Client(t, ADMIN_SID)
        self.arch = OrderClient(t, ARCH_SID)
        self.arch.order = self.order
        self.arch.world = self
        self.writes = 0
        self.crash_at = None
        self.fail_at = None         # (write index, 'lost' | 'applied')
        self.raise_after = False
        self.failed = None
        self.del_site = {}
        self.uploads = 0
        t.hook = self._hook
        t.log = []

    def _clock_ms(self):
        return self.zk_ms

    def clone(self):
        w = World.__new__(World)
        w.zk_ms = self.zk_ms
        w.tree = self.tree.clone()
        w.order = self.order
        w._bind()
        w.del_site = dict(self.del_site)
        return w

    def _hook(self, client, op, path):
        if client.sid != ARCH_SID or op not in WRITES:
            return
        if self.crash_at is not None and self.writes == self.crash_at:
            self.crash_at = None
            raise fakezk.Crash()
        if self.fail_at is not None and self.writes == self.fail_at[0]:
            how = self.fail_at[1]
            self.fail_at = None
            self.failed = (op, path, _site())
            if how == 'lost':
                # the request never reaches the ensemble
                raise kazoo.exceptions.ConnectionLoss('injected (request lost)')
            # the write is applied, the reply is lost
            self.raise_after = True
        self.writes += 1
        if op == 'delete':
            self.del_site[path] = _site()
        elif op == 'create' and '.history/' in path:
            self.uploads += 1

    # population ------------------------------------------------------------
    def add_event(self, kind, obj, ts, etype, edata, payload=b'p'):
        name = '%s,%s,%s,%s' % (repr(ts), HOST, etype, edata)
        if kind == 'trace':
            path = z.path.trace(obj, name)
        else:
            path = z.path.server_trace(obj, name)
        self.zk_ms = int(ts * 1000)
        zkutils.create(self.admin, path, payload)
        return path

    def add_finished(self, inst, ms):
        self.zk_ms = ms
        zkutils.put(self.admin, z.path.finished(inst),
                    {'state': 'finished', 'when': repr(ms / 1000.0),
                     'host': HOST, 'data': '0.0'})

    def add_scheduled(self, inst):
        zkutils.put(self.admin, z.path.scheduled(inst), {'command': 'x'})

    # observation -----------------------------------------------------------
    def live(self, kind):
        """{path: data} of the live records of a kind."""
        info = KINDS[kind]
        root = self.tree.find(info['live'])
        out = {}
        if info['sharded']:
            for shard, sn in root.children.items():
                for name, n in sn.children.items():
                    out['%s/%s/%s' % (info['live'], shard, name)] = n.data
        else:
            for name, n in root.children.items():
                out['%s/%s' % (info['live'], name)] = (n.data, n.mtime)
        return out

    def snapshots(self, kind):
        """{node name: blob} of the history of a kind."""
        root = self.tree.find(KINDS[kind]['hist'])
        return {name: n.data for name, n in root.children.items()}


# -- opening snapshots (harness side, independent of download_batch) ----------
_ROWS = {}
_DL = {}


def rows_of(blob, table):
    """[(path, timestamp, data, directory, name)] of a snapshot, by actually
    inflating it and opening the sqlite file."""
    key = (blob, table)
    if key not in _ROWS:
        fd, fn = tempfile.mkstemp(prefix='h-')
        try:
            with os.fdopen(fd, 'wb') as f:
                f.write(zlib.decompress(blob))
            conn = sqlite3.connect(fn)
            rows = list(conn.execute(
                'SELECT path, timestamp, data, directory, name FROM %s'
                % table))
            conn.close()
        finally:
            os.unlink(fn)
        if len(_ROWS) > 4000:
            _ROWS.clear()
        _ROWS[key] = rows
    return _ROWS[key]


def download(world, kind, snap, blob, obj):
    """Real download_batch; memoised on (snapshot bytes, table, name) because
    it is a function of exactly those."""
    info = KINDS[kind]
    key = (blob, info['table'], obj)
    if key not in _DL:
        if len(_DL) > 8000:
            _DL.clear()
        try:
            _DL[key] = frozenset(_zk.download_batch(
                world.admin, info['hist'] + '/' + snap, info['table'], obj))
        except Exception as exc:  # pylint: disable=broad-except
            err = _raised(exc, ('download_batch', snap))
            err['clause'] = 'snapshot-download-failed'
            _DL[key] = _Failed(err)
    return _DL[key]


class _Failed(frozenset):
    """Empty result of a download_batch call that raised."""

    def __new__(cls, err):
        self = frozenset.__new__(cls)
        self.err = err
        return self


# -- runs ---------------------------------------------------------------------
def run_archiver(world, step):
    """One real archiver call through the archiver's session."""
    op = step[0]
    c = world.arch
    if op == 'trace':
        app_zk.cleanup_trace(c, step[1], EXPIRES)
    elif op == 'finished':
        app_zk.cleanup_finished(c, step[1], EXPIRES)
    elif op == 'server':
        server_zk.cleanup_server_trace(c, step[1])
    elif op == 'trace-history':
        app_zk.cleanup_trace_history(c, step[1])
    elif op == 'finished-history':
        app_zk.cleanup_finished_history(c, step[1])
    elif op == 'server-history':
        server_zk.cleanup_server_trace_history(c, step[1])
    else:
        raise HarnessError('unknown step %r' % (step,))


def run_cut(world, step, k):
    """Run `step` and kill the archiver before its (k+1)-th write."""
    world.crash_at = world.writes + k
    try:
        run_archiver(world, step)
    except fakezk.Crash:
        return True
    finally:
        world.crash_at = None
    return False


def run_fail(world, step, k, how):
    """Run `step`; its (k+1)-th write fails once with ConnectionLoss (`how`:
    'lost' = not applied, 'applied' = applied but the reply is lost); later
    requests work again.  The real code reacts as it likes.
    -> ('completed' | 'aborted', violation-or-None)"""
    world.fail_at = (world.writes + k, how)
    world.failed = None
    try:
        try:
            run_archiver(world, step)
        except kazoo.exceptions.KazooException:
            return 'aborted', None          # the archiver process gives up
        finally:
            world.fail_at = None
            world.raise_after = False
    except Exception as exc:  # pylint: disable=broad-except
        err = _raised(exc, step)
        return 'aborted', err
    return 'completed', None


# -- oracle -------------------------------------------------------------------
class Before:
    """What existed before the archiver ran."""

    def __init__(self, world, kind, scheduled=()):
        self.kind = kind
        self.live = world.live(kind)
        self.snaps = world.snapshots(kind)
        self.scheduled = set(scheduled)
        self.archived = set()
        table = KINDS[kind]['table']
        for blob in self.snaps.values():
            for row in rows_of(blob, table):
                self.archived.add(row[4])


def _obj_of(kind, path):
    name = path.rsplit('/', 1)[1]
    return name.split(',', 1)[0] if kind != 'finished' else name


def _ts_of(path):
    return float(path.rsplit('/', 1)[1].split(',', 2)[1])


def check_archive(world, before, where, out, stats):
    """Conservation + must-stay-live, on the current tree of `world`."""
    kind = before.kind
    info = KINDS[kind]
    live = world.live(kind)
    snaps = world.snapshots(kind)
    table = info['table']
    edge = now() - EXPIRES
    harness_rows = None
    failed_seen = set()
    for path in sorted(before.live):
        stats['records_checked'] += 1
        obj = _obj_of(kind, path)
        name = path.rsplit('/', 1)[1]
        is_live = path in live
        if kind == 'finished' and is_live and \
                live[path][0] != before.live[path][0]:
            out.append(_v('finished-record-changed', 'unknown', where,
                          {'path': path}))
        if not is_live:
            stats['records_gone_from_live'] += 1
            site = world.del_site.get(path, 'unknown-deleter')
            if harness_rows is None:
                harness_rows = {}
                for sn, blob in snaps.items():
                    for row in rows_of(blob, table):
                        harness_rows.setdefault(row[0], []).append((sn, row))
            in_rows = harness_rows.get(path, [])
            if kind == 'finished':
                want = before.live[path][0]
                want = want.decode() if want is not None else None
                good = [r for _sn, r in in_rows
                        if r[4] == name and r[2] == want]
                if not in_rows:
                    out.append(_v('finished-record-lost', site, where,
                                  {'path': path,
                                   'snapshots': sorted(snaps)}))
                elif not good:
                    out.append(_v('finished-record-archived-with-other-data',
                                  site, where,
                                  {'path': path, 'expected': want,
                                   'rows': [r[2] for _sn, r in in_rows]}))
            else:
                got = False
                for sn, blob in snaps.items():
                    res = download(world, kind, sn, blob, obj)
                    if name in res:
                        got = True
                        break
                    if isinstance(res, _Failed) and \
                            (sn, obj) not in failed_seen:
                        failed_seen.add((sn, obj))
                        err = dict(res.err)
                        err['detail'] = dict(err['detail'], where=where,
                                             snapshot=sn, object=obj)
                        out.append(err)
                if not got and in_rows:
                    out.append(_v('archived-event-not-returned-by-download',
                                  'trace._zk.download_batch', where,
                                  {'path': path,
                                   'in_snapshots': [s for s, _r in in_rows]}))
                elif not got:
                    out.append(_v('event-lost', site, where,
                                  {'path': path,
                                   'snapshots': sorted(snaps)}))
            # premature?
            if kind == 'trace':
                if obj in before.scheduled:
                    out.append(_v('scheduled-instance-event-archived', site,
                                  where, {'path': path}))
                elif _ts_of(path) >= edge:
                    out.append(_v('unexpired-event-archived', site, where,
                                  {'path': path, 'timestamp': _ts_of(path),
                                   'now_minus_expiry': edge}))
            elif kind == 'finished':
                lm = before.live[path][1] / 1000.0
                if lm >= edge:
                    out.append(_v('unexpired-finished-record-archived', site,
                                  where, {'path': path, 'last_modified': lm,
                                          'now_minus_expiry': edge}))
    if kind == 'finished' and before.live:
        # the real retrieval path for finished records
        listed = set(app_zk.list_traces(world.admin, 'proid.*'))
        stats['list_traces_calls'] += 1
        for path in sorted(before.live):
            if _obj_of(kind, path) not in listed:
                out.append(_v('finished-record-not-listed',
                              'trace.app.zk.list_traces', where,
                              {'path': path, 'listed': sorted(listed)}))
    # what was in a snapshot before is still in a snapshot
    have = set()
    for blob in snaps.values():
        for row in rows_of(blob, table):
            have.add(row[4])
    for name in sorted(before.archived - have):
        out.append(_v('archived-record-lost', 'unknown-deleter', where,
                      {'name': name}))


def check_prune(world, kind, names_before, max_count, where, out, stats):
    """The newest (lexicographically greatest) max_count snapshots survive."""
    names = set(world.snapshots(kind))
    keep = sorted(names_before)[-max_count:] if max_count > 0 else []
    stats['prune_checks'] += 1
    for n in keep:
        if n not in names:
            site = world.del_site.get(KINDS[kind]['hist'] + '/' + n,
                                      'unknown-deleter')
            out.append(_v('newest-snapshot-pruned', site, where,
                          {'kind': kind, 'max_count': max_count,
                           'before': sorted(names_before),
                           'after': sorted(names), 'missing': n}))
            break


def _v(clause, site, where, detail):
    d = dict(detail)
    d['where'] = where
    return {'clause': clause, 'site': site, 'detail': d}


# -- pre-existing snapshots -----------------------------------------------------
def preload_history(world, kind, n):
    """n existing snapshots made by the real upload_batch from ancient records
    (a ghost object, plus an ancient record of the first real object so that a
    real object's history spans several snapshots)."""
    info = KINDS[kind]
    for i in range(n):
        rows = []
        if kind == 'finished':
            objs = ['proid.g#%010d' % (513 + 256 * i)]
            for o in objs:
                world.add_finished(o, age_ms('A') + i)
                node = world.tree.find(z.path.finished(o))
                rows.append((z.path.finished(o), node.mtime / 1000.0,
                             node.data.decode(), z.FINISHED, o))
        else:
            objs = [GHOST if kind == 'trace' else 'srv0',
                    INSTANCES[0] if kind == 'trace' else SERVERS[0]]
            for j, o in enumerate(objs):
                ts = age_ts('A') + i
                p = world.add_event(kind, o, ts, 'ancient', '%d-%d' % (i, j))
                rows.append((p, ts, None, p.rsplit('/', 1)[0],
                             p.rsplit('/', 1)[1]))
        world.zk_ms = age_ms('A') + 1000 * (i + 1)
        _zk.upload_batch(world.admin, info['hist'] + '/' + info['prefix'],
                         info['table'], rows)


_BASES = {}


def base_world(kind, nsnap):
    key = (kind, nsnap)
    if key not in _BASES:
        w = World()
        preload_history(w, kind, nsnap)
        _BASES[key] = w
    return _BASES[key]


# -- cases ----------------------------------------------------------------------
def multisets(menu, max_len):
    out = []
    for n in range(max_len + 1):
        out.extend(itertools.combinations_with_replacement(menu, n))
    return out


def build(case):
    """-> (world, kind, steps, scheduled)"""
    fam = case['family']
    modstate.reset()        # module-level memos do not leak between cases
    CLOCK.reset()
    CLOCK.advance(L0)
    if fam == 'T':
        w = base_world('trace', case['nsnap']).clone()
        sched = []
        fin = case.get('fin') or [False] * len(case['instances'])
        for inst, (is_sched, ages), is_fin in zip(INSTANCES,
                                                  case['instances'], fin):
            if is_sched:
                w.add_scheduled(inst)
                sched.append(inst)
            if is_fin:
                # an exit record of an earlier run of the instance
                w.add_finished(inst, age_ms('W'))
            for j, a in enumerate(ages):
                w.add_event('trace', inst, age_ts(a), 'pending', 'e%d' % j)
        return w, 'trace', ('trace', case['batch']), sched
    if fam == 'F':
        w = base_world('finished', case['nsnap']).clone()
        w.order = case.get('order', 'ins')
        w._bind()
        sch = case.get('sched') or [False] * len(case['finished'])
        for inst, a, is_sched in zip(INSTANCES, case['finished'], sch):
            if a is not None:
                w.add_finished(inst, age_ms(a))
            if is_sched:
                w.add_scheduled(inst)
        return w, 'finished', ('finished', case['batch']), []
    if fam == 'Z':
        # one unscheduled instance with n well-old events whose names are
        # padded to name_len characters; one batch = all of them
        w = base_world('trace', 0).clone()
        inst = INSTANCES[0]
        head = '%s,%s,%s,pending,' % (inst, repr(age_ts('W')), HOST)
        pad = max(0, abs(case['name_len']) - len(head) - 8)
        w.zk_ms = int(age_ts('W') * 1000)
        shard = z.path.trace(inst, 'x').rsplit('/', 1)[0]
        w.admin.ensure_path(shard)
        import base64
        import hashlib
        for j in range(case['n']):
            fill = 'x' * pad
            if case['name_len'] < 0:
                # deterministic, hardly compressible event data
                raw, k = b'', 0
                while len(raw) * 4 // 3 < pad:
                    raw += hashlib.sha256(b'%d:%d' % (j, k)).digest()
                    k += 1
                fill = base64.b64encode(raw).decode().replace(
                    '/', '_').replace('+', '-').replace('=', '')[:pad]
            w.admin.create('%s/%s%07d-%s' % (shard, head, j, fill), b'')
        return w, 'trace', ('trace', case['n']), []
    if fam == 'S':
        w = base_world('server', case['nsnap']).clone()
        w.order = case.get('order', 'ins')
        w._bind()
        for srv, tss in zip(SERVERS, case['servers']):
            for j, t in enumerate(tss):
                w.add_event('server', srv, vclock.BASE + 1000.0 + t,
                            'server_state', 'up%d' % j)
        return w, 'server', ('server', case['batch']), []
    if fam == 'H':
        kind = case['kind']
        w = base_world(kind, case['n']).clone()
        w.order = case.get('order', 'ins')
        w._bind()
        if case.get('gap') is not None:
            names = sorted(w.snapshots(kind))
            if case['gap'] < len(names):
                w.admin.delete(KINDS[kind]['hist'] + '/' + names[case['gap']])
        return w, kind, None, []
    raise HarnessError('unknown family %r' % fam)


def _raised(exc, step):
    import traceback
    tb = traceback.extract_tb(exc.__traceback__)
    site = 'harness'
    for fr in reversed(tb):
        if '/treadmill/' in fr.filename:
            site = '%s.%s' % (
                fr.filename.split('/treadmill/')[-1][:-3].replace('/', '.'),
                fr.name)
            break
    if site == 'harness':
        raise exc
    return _v('archiver-raised', site, 'run',
              {'step': list(step),
               'error': '%s: %s' % (type(exc).__name__, str(exc)[:200])})


def _complete(world, step):
    try:
        run_archiver(world, step)
    except Exception as exc:  # pylint: disable=broad-except
        return _raised(exc, step)
    return None


LAST = {'log': []}
ERROR_VARIANTS = {'list': ('lost',)}    # set per tier by the property module


def explore_step(base, kind, step, checker, out, stats):
    """Full run, then every cut + re-run.  `checker(world, where)` appends
    violations.  Returns the world after the full run."""
    w = base.clone()
    err = _complete(w, step)
    stats['runs'] += 1
    if err:
        out.append(err)
        return w
    n = w.writes
    LAST['log'] = [[op, path] for sid, op, path, _o in w.tree.log
                   if sid == ARCH_SID]
    stats['writes'] += n
    stats['uploads'] += w.uploads
    checker(w, 'end of %s' % (step[0],))
    for k in range(n):
        c = base.clone()
        if not run_cut(c, step, k):
            raise HarnessError('cut %d of %d did not fire (%r)' % (k, n, step))
        stats['cuts'] += 1
        stats['runs'] += 1
        checker(c, 'cut before write %d/%d of %s' % (k, n, step[0]))
        err = _complete(c, step)
        stats['runs'] += 1
        if err:
            err['detail']['where'] = 're-run after cut %d/%d' % (k, n)
            out.append(err)
            continue
        checker(c, 're-run after cut before write %d/%d of %s'
                % (k, n, step[0]))
    # error flavour: write k fails once with ConnectionLoss, the code reacts
    for how in ERROR_VARIANTS['list']:
        for k in range(n):
            c = base.clone()
            outcome, err = run_fail(c, step, k, how)
            if c.failed is None:
                raise HarnessError('failure %d of %d did not fire (%r)'
                                   % (k, n, step))
            stats['error_points'] += 1
            stats['error_points_' + how] += 1
            stats['error_runs_' + outcome] += 1
            stats['runs'] += 1
            where = ('ConnectionLoss (%s) on write %d/%d (%s) of %s, run %s'
                     % (how, k, n, c.failed[0], step[0], outcome))
            if err:
                err['detail']['where'] = where
                out.append(err)
            checker(c, 'after ' + where)
            err = _complete(c, step)
            stats['runs'] += 1
            if err:
                err['detail']['where'] = 're-run after ' + where
                out.append(err)
                continue
            checker(c, 're-run after ' + where)
    scratch_sweep()
    return w


def clear_module_caches():
    """Start of a case = a fresh archiver process: empty every
    functools.lru_cache found in the treadmill.trace modules (none on the
    unchanged tree, then this is a no-op).  Never called inside a case, and
    the modules are never reloaded, so a cache lives across the cycles of one
    case like in the long-running sproc."""
    n = 0
    for name, mod in list(sys.modules.items()):
        if mod is None or not name.startswith('treadmill.trace'):
            continue
        for attr in list(vars(mod).values()):
            clear = getattr(attr, 'cache_clear', None)
            if callable(clear) and callable(attr):
                clear()
                n += 1
    return n


LATE_INSTANCE = 'proid.d#0000000003'       # shard 0003, scheduled between cycles


def _second_cycle_part(base, case, sched, out, stats):
    """Two archiver cycles of ONE process (same modules, same client object):
    between them an instance is scheduled that already has a full batch of
    old events; they must still be live after the second cycle."""
    # between the cycles the instance is scheduled next to the others, or
    # (same number of scheduled instances) in place of one that leaves
    for leaving in [None] + list(sched):
        modstate.reset()
        w2 = base.clone()
        step = ('trace', case['batch'])
        err = _complete(w2, step)
        stats['runs'] += 1
        if err:
            return                  # reported by the main part already
        now_sched = list(sched)
        if leaving is not None:
            w2.admin.delete(z.path.scheduled(leaving))
            now_sched.remove(leaving)
            stats['second_cycle_swaps'] += 1
        w2.add_scheduled(LATE_INSTANCE)
        for j in range(case['batch']):
            w2.add_event('trace', LATE_INSTANCE, age_ts('W'), 'pending',
                         'late%d' % j)
        before2 = Before(w2, 'trace', now_sched + [LATE_INSTANCE])
        client = w2.arch
        err = _complete(w2, step)
        stats['runs'] += 1
        if w2.arch is not client:
            raise HarnessError('client object changed between cycles')
        where = ('second cycle of the same archiver process, %s scheduled '
                 'between the cycles%s'
                 % (LATE_INSTANCE,
                    '' if leaving is None else ' while %s left' % leaving))
        if err:
            err['detail']['where'] = where
            out.append(err)
            return
        stats['second_cycle_checks'] += 1
        check_archive(w2, before2, where, out, stats)


MIB = 1024 * 1024


def _size_part(base, case, out, stats):
    """Upload -> download round trip of one big batch: every uploaded row
    must come back through the real download_batch (no cuts here)."""
    before = Before(base, 'trace', [])
    if len(before.live) != case['n']:
        raise HarnessError('size case built %d events' % len(before.live))
    stats['records_before'] += len(before.live)
    w = base.clone()
    step = ('trace', case['n'])
    err = _complete(w, step)
    stats['runs'] += 1
    if err:
        out.append(err)
        return
    snaps = w.snapshots('trace')
    if len(snaps) != 1 or w.live('trace'):
        # not what the unchanged code does with one full batch: judged like
        # any other run (every record live or in a snapshot)
        stats['size_cases_not_archived_in_one_snapshot'] += 1
        check_archive(w, before, 'after one batch of %d events (%d snapshots,'
                      ' %d still live)' % (case['n'], len(snaps),
                                           len(w.live('trace'))), out, stats)
        if not out:
            raise HarnessError('size case: %d uploads, %d live'
                               % (w.uploads, len(w.live('trace'))))
        return
    blob = list(snaps.values())[0]
    if len(blob) > MIB:
        stats['size_cases_compressed_above_1MiB'] += 1
    raw = len(zlib.decompress(blob))
    stats['size_cases'] += 1
    stats['size_rows_uploaded'] += case['n']
    stats['size_uncompressed_bytes_%dx%d' % (case['n'],
                                             abs(case['name_len']))] = raw
    if raw > 4 * MIB:
        stats['size_cases_above_4MiB'] += 1
    if raw > 16 * MIB:
        stats['size_cases_above_16MiB'] += 1
    if case.get('min_mib') and raw <= case['min_mib'] * MIB:
        raise HarnessError('size case %r is only %d bytes' % (case, raw))
    stats['cases_with_archived_records'] += 1
    check_archive(w, before, 'after one batch of %d events, snapshot %d '
                  'bytes uncompressed (%d compressed)'
                  % (case['n'], raw, len(blob)), out, stats)
    _ROWS.clear()
    _DL.clear()
    scratch_sweep()


def run_case(case):
    """-> (violations, stats).  Deterministic function of the case."""
    out = []
    stats = collections.Counter()
    stats['module_caches_cleared'] += clear_module_caches()
    base, kind, step, sched = build(case)
    fam = case['family']
    if fam == 'H':
        _prune_part(base, kind, case['max_count'], out, stats)
        return out, stats
    if fam == 'Z':
        _size_part(base, case, out, stats)
        return out, stats
    before = Before(base, kind, sched)
    stats['records_before'] += len(before.live)

    def chk(world, where):
        check_archive(world, before, where, out, stats)

    end = explore_step(base, kind, step, chk, out, stats)
    LAST['archive_log'] = LAST['log']
    if end.uploads:
        stats['cases_with_upload'] += 1
    gone = [p for p in before.live if p not in end.live(kind)]
    if gone:
        stats['cases_with_archived_records'] += 1
    if len(gone) < len(before.live):
        stats['cases_with_records_kept_live'] += 1
    # a later run, when everything unscheduled has expired
    late = end.clone()
    CLOCK.advance(3600)
    err = _complete(late, step)
    stats['runs'] += 1
    if err:
        out.append(err)
    else:
        check_archive(late, before, 'second run one hour later', out, stats)
    CLOCK.reset()
    CLOCK.advance(L0)
    if fam == 'T':
        _second_cycle_part(base, case, sched, out, stats)
    # pruning of the history the archiver just wrote
    for mc in case.get('prune', ()):
        _prune_part(end, kind, mc, out, stats)
    return out, stats


def _prune_part(base, kind, max_count, out, stats):
    names_before = set(base.snapshots(kind))
    live_before = base.live(kind)
    step = (kind + '-history', max_count)
    if len(names_before) > max_count:
        stats['prunes_with_excess'] += 1

    def chk(world, where):
        check_prune(world, kind, names_before, max_count, where, out, stats)
        if world.live(kind) != live_before:
            out.append(_v('pruning-touched-live-records', 'unknown', where,
                          {'kind': kind}))

    explore_step(base, kind, step, chk, out, stats)


# -- menus ----------------------------------------------------------------------
SIZE_MENU = {
    # (events in the batch, event name length, uncompressed size must exceed)
    # a negative name length asks for names that hardly compress (the
    # COMPRESSED snapshot then exceeds 1 MiB, ZooKeeper's default request
    # limit - which the in-memory ZooKeeper does not enforce)
    'quick': [(50, 80, 0), (3000, 150, 1), (12000, 150, 4), (5000, -400, 1)],
    'thorough': [(50, 80, 0), (3000, 150, 1), (12000, 150, 4),
                 (5000, 1000, 8), (25000, 300, 16), (5000, -400, 1)],
}


def menus(tier):
    quick = tier == 'quick'
    inst2 = [(s, m) for s in (False, True)
             for m in multisets(AGES, 2 if quick else 3)]
    inst_mid = [(s, m) for s in (False, True) for m in multisets(AGES, 2)]
    inst_small = [(s, m) for s in (False, True) for m in multisets(AGES, 1)]
    batches = (1, 2, 3)
    nsnaps = (0, 1, 2)
    cases = []
    # T: two instances (different shards)
    for a in inst2:
        for b in inst2:
            for batch in batches:
                for ns in nsnaps:
                    cases.append({'family': 'T',
                                  'instances': [a, b], 'batch': batch,
                                  'nsnap': ns,
                                  'prune': (1, 2) if batch == 1 else ()})
    # T with exit records: every instance independently {scheduled} x {has a
    # /finished node}; at least one instance has one (the rest is above)
    ev = multisets(AGES, 1 if quick else 2)
    inst_f = [(s, f, m) for s in (False, True) for f in (False, True)
              for m in ev]
    for a in inst_f:
        for b in inst_f:
            if not (a[1] or b[1]):
                continue
            for batch in batches:
                for ns in (0, 1):
                    cases.append({'family': 'T',
                                  'instances': [(a[0], a[2]), (b[0], b[2])],
                                  'fin': [a[1], b[1]],
                                  'batch': batch, 'nsnap': ns, 'prune': ()})
    if not quick:
        # T: three instances, the third shares a shard with the first
        for a in inst_mid:
            for b in inst_mid:
                for c in inst_small:
                    if not c[1] and not c[0]:
                        continue        # equals a two-instance case
                    for batch in batches:
                        for ns in nsnaps:
                            cases.append({'family': 'T',
                                          'instances': [a, b, c],
                                          'batch': batch, 'nsnap': ns,
                                          'prune': ()})
    # F: finished records
    fin = (None,) + AGES
    ninst = 3
    for combo in itertools.product(fin, repeat=ninst):
        for batch in batches:
            for ns in nsnaps:
                for order in (('ins', 'rev') if quick else ORDERS):
                    cases.append({'family': 'F', 'finished': list(combo),
                                  'batch': batch, 'nsnap': ns,
                                  'order': order,
                                  'prune': (1, 2) if batch == 1 else ()})
    # F with scheduled nodes: every instance independently {scheduled}
    for combo in itertools.product(fin, repeat=ninst):
        for sch in itertools.product((False, True), repeat=ninst):
            if not any(sch):
                continue
            for batch in batches:
                cases.append({'family': 'F', 'finished': list(combo),
                              'sched': list(sch), 'batch': batch,
                              'nsnap': 0, 'order': 'ins', 'prune': ()})
    # Z: size of one snapshot (events, name length, stated lower bound MiB of
    # the uncompressed sqlite file)
    for n, ln, mib in SIZE_MENU['quick' if quick else 'thorough']:
        cases.append({'family': 'Z', 'n': n, 'name_len': ln, 'min_mib': mib})
    # S: server trace
    srv = multisets((0.0, 1.0, 2.0), 2 if quick else 3)
    for a in srv:
        for b in srv:
            for batch in batches:
                for ns in nsnaps:
                    for order in (('ins',) if quick else ('ins', 'rev')):
                        cases.append({'family': 'S', 'servers': [a, b],
                                      'batch': batch, 'nsnap': ns,
                                      'order': order,
                                      'prune': (1, 2) if batch == 1 else ()})
    # H: pruning alone
    for kind in ('trace', 'finished', 'server'):
        for n in range(0, 5):
            for gap in [None] + list(range(n)):
                for mc in (1, 2, 3):
                    for order in ORDERS:
                        cases.append({'family': 'H', 'kind': kind, 'n': n,
                                      'gap': gap, 'max_count': mc,
                                      'order': order})
    return cases


def case_size(case):
    fam = case['family']
    if fam == 'T':
        return (1, sum(len(m) for _s, m in case['instances']) +
                sum(1 for f in case.get('fin') or () if f),
                len(case['instances']), case['nsnap'], case['batch'])
    if fam == 'F':
        return (0, sum(1 for a in case['finished'] if a) +
                sum(1 for x in case.get('sched') or () if x), 0,
                case['nsnap'], case['batch'])
    if fam == 'S':
        return (2, sum(len(m) for m in case['servers']), 0, case['nsnap'],
                case['batch'])
    if fam == 'Z':
        return (-1, -case['n'] * abs(case['name_len']), 0, 0, 0)   # biggest first
    return (3, case['n'], 0, 0, case['max_count'])


def describe(case):
    """JSON-friendly copy of a case."""
    c = dict(case)
    if 'instances' in c:
        c['instances'] = [[bool(s), list(m)] for s, m in c['instances']]
    if 'servers' in c:
        c['servers'] = [list(m) for m in c['servers']]
    if 'prune' in c:
        c['prune'] = list(c['prune'])
    return c


def undescribe(c):
    c = dict(c)
    if 'instances' in c:
        c['instances'] = [(bool(s), tuple(m)) for s, m in c['instances']]
    if 'servers' in c:
        c['servers'] = [tuple(m) for m in c['servers']]
    if 'prune' in c:
        c['prune'] = tuple(c['prune'])
    return c
