"""Virtual clock: base + L (whole logical seconds) + k * 2**-19.

L only moves through explicit 'advance' events of an alphabet; k is a global
call counter, so two calls never return the same value and later calls are
later.  A power-of-two tick keeps every value exactly representable next to a
2020s epoch (DESIGN 2.1).
"""
import time

BASE = 1600000000.0      # 2020-09-13 12:26:40 UTC, a Sunday
TAU = 2.0 ** -19
_REAL_TIME = time.time


class VClock:
    def __init__(self):
        self.L = 0
        self.k = 0
        self.ev = 0          # harness event index (ZK millisecond stamps)

    def reset(self):
        self.L = 0
        self.k = 0
        self.ev = 0

    def time(self):
        self.k += 1
        assert self.k < (1 << 19), 'virtual clock: too many calls in a history'
        return BASE + self.L + self.k * TAU

    def advance(self, secs):
        assert secs == int(secs) and secs >= 0
        self.L += int(secs)

    def zk_ms(self):
        return int((BASE + self.L) * 1000) + self.ev

    def next_event(self):
        self.ev += 1
        assert self.ev < 1000


CLOCK = VClock()


def install():
    time.time = CLOCK.time


def uninstall():
    time.time = _REAL_TIME


def logical(t):
    """Logical whole seconds of a timestamp produced by the virtual clock."""
    if t is None:
        return None
    if t == 0:
        return 0
    return int(t - BASE) if t >= BASE else ('abs', int(t))
