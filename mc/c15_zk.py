"""C15 sub-check: resource objects (dicts / lists) <-> ZooKeeper payloads.

encode: REAL zkutils.put / zkutils.update on a dict-backed client (both call
        zkutils._payload); decode: REAL zkutils.get_with_metadata.
The domain is every container of nesting depth <= 3 built from the menus
below (level k containers hold level k-1 members from a thinner menu so that
the whole product stays enumerable; the menus are written to the evidence).
"""
import itertools
import json

from mc import c15_common as cc

KEYS = ['a', 'b', '']
LEAVES = ['', 'a', 'x y', '1', 'true', 'null', 'café "q" \\ \n',
          '\ud800', 0, 1, -1, 2 ** 63, 2 ** 64 + 1, 0.5, -0.0, 1e300, 1e-07,
          True, False, None]
LEAVES_MID = ['a', '1', 1, 1.0, True, None]
LEAVES_THIN = ['a', 1, None]


def _containers(members, keys, max_len):
    """All lists and str-keyed dicts of length <= max_len over members."""
    out = [[], {}]
    for n in range(1, max_len + 1):
        for combo in itertools.product(members, repeat=n):
            out.append(list(combo))
        for ks in itertools.combinations(keys, n):
            for combo in itertools.product(members, repeat=n):
                out.append(dict(zip(ks, combo)))
    return out


def build_domain(tier):
    quick = tier == 'quick'
    # level 1: containers over all leaves
    lvl1 = _containers(LEAVES, KEYS, 2 if quick else 3)
    # level 2: containers over (mid leaves + thin level-1 containers)
    l1_thin = _containers(LEAVES_THIN, KEYS[:2], 2)
    lvl2 = _containers(LEAVES_MID + l1_thin, KEYS[:2 if quick else 3], 2)
    # level 3: containers over (thin leaves + thinner level-2 containers)
    l1_min = _containers(LEAVES_THIN[:2], KEYS[:1], 1)
    l2_thin = _containers(LEAVES_THIN[:2] + l1_min, KEYS[:2], 2)
    lvl3 = _containers(LEAVES_THIN + l2_thin, KEYS[:2], 2)
    seen = set()
    out = []
    for obj in itertools.chain(lvl1, lvl2, lvl3):
        k = typed_key(obj)
        if k not in seen:
            seen.add(k)
            out.append(obj)
    return out, {'level1': len(lvl1), 'level2': len(lvl2),
                 'level3': len(lvl3), 'distinct': len(out)}


def typed_key(obj):
    """Canonical, type-strict, order-insensitive key of a JSON-like value."""
    if isinstance(obj, dict):
        return '{' + ','.join(
            '%s:%s' % (typed_key(k), typed_key(obj[k]))
            for k in sorted(obj)) + '}'
    if isinstance(obj, list):
        return '[' + ','.join(typed_key(x) for x in obj) + ']'
    if isinstance(obj, str):
        return 's' + json.dumps(obj)
    return type(obj).__name__[0] + repr(obj)


def depth(obj):
    if isinstance(obj, dict):
        return 1 + max([depth(v) for v in obj.values()] or [0])
    if isinstance(obj, list):
        return 1 + max([depth(v) for v in obj] or [0])
    return 0


def reorder(obj):
    """Same value, every dict rebuilt in reverse insertion order."""
    if isinstance(obj, dict):
        return {k: reorder(obj[k]) for k in reversed(list(obj))}
    if isinstance(obj, list):
        return [reorder(x) for x in obj]
    return obj


def has_multikey(obj):
    if isinstance(obj, dict):
        return len(obj) > 1 or any(has_multikey(v) for v in obj.values())
    if isinstance(obj, list):
        return any(has_multikey(v) for v in obj)
    return False


class _DictZk:
    """Dict-backed stand-in for the kazoo client."""

    def __init__(self):
        self.nodes = {}

    def make_default_acl(self, acl):
        return acl

    def create(self, path, value=b'', makepath=False, acl=None,
               sequence=False, ephemeral=False):
        import kazoo.exceptions
        if path in self.nodes:
            raise kazoo.exceptions.NodeExistsError()
        self.nodes[path] = value
        return path

    def set(self, path, value):
        self.nodes[path] = value

    def set_acls(self, _path, _acl):
        pass

    def get(self, path, watch=None):
        return self.nodes[path], 'metadata'


class ZkPayload:
    name = 'zk'
    chunk = 8000

    def __init__(self):
        self._dom = {}

    def reset(self):
        pass

    def _domain(self, tier):
        if tier not in self._dom:
            self._dom[tier] = build_domain(tier)
        return self._dom[tier]

    def menus(self, tier):
        quick = tier == 'quick'
        return {
            'keys': KEYS, 'leaves(level1)': [cc._short(x) for x in LEAVES],
            'level1': 'all lists and dicts of length 0..%d over leaves'
                      % (2 if quick else 3),
            'level2': 'length 0..2 over %r + containers(length 0..2 over %r)'
                      % (LEAVES_MID, LEAVES_THIN),
            'level3': 'length 0..2 over %r + containers(length 0..2 over %r '
                      '+ containers(length 0..1 over %r))'
                      % (LEAVES_THIN, LEAVES_THIN[:2], LEAVES_THIN[:2]),
            'sizes': self._domain(tier)[1],
            'orders': 'every dict also re-inserted in reverse key order',
        }

    def domain(self, tier):
        return cc.Concat([cc.Explicit('zk', self._domain(tier)[0])])

    def evaluate(self, case):
        from treadmill import zkutils
        _t, obj = case
        site = 'zkutils._payload/get_with_metadata'
        viol = []
        zkc = _DictZk()
        zkutils.put(zkc, '/n', obj)
        payload = zkc.nodes['/n']
        back, _meta = zkutils.get_with_metadata(zkc, '/n')
        evals = 2
        key = typed_key(obj)
        if typed_key(back) != key:
            viol.append(('zk-payload-roundtrip-mismatch', site,
                         {'written': repr(obj), 'payload': repr(payload),
                          'decoded': repr(back)}))
        # idempotence: writing what was read does not change the node, and
        # update(check_content=True) recognises it as unchanged
        unchanged = zkutils.update(zkc, '/n', back, check_content=True)
        evals += 1
        if zkc.nodes['/n'] != payload or unchanged is not None:
            viol.append(('zk-payload-not-idempotent', site,
                         {'written': repr(obj), 'payload': repr(payload),
                          'rewritten': repr(zkc.nodes['/n'])}))
        multi = has_multikey(obj)
        if multi:
            # an equal object (other insertion order) is the same payload
            other = reorder(obj)
            res = zkutils.put(zkc, '/n', other, check_content=True)
            evals += 1
            if zkc.nodes['/n'] != payload or res is not None:
                viol.append(('equal-values-different-encodings',
                             'zkutils._payload:dict-key-order',
                             {'written': repr(obj),
                              'reordered': repr(other),
                              'payload': repr(payload),
                              'payload_reordered': repr(zkc.nodes['/n'])}))
        return {'enc': payload, 'val': key, 'evals': evals,
                'nontrivial': depth(obj) >= 2 or multi, 'viol': viol}

    def pair_site(self, kind, a, b):
        return 'zkutils._payload'


SUB = ZkPayload()
