"""C06, dynamic slice: "each cycle considers every instance of a partition
exactly once" also holds while instances are moved between allocations,
re-prioritised and removed (explicit-state BFS over World-A histories; the
static queue order is swept by mc/c06_model.py)."""
from mc.props import _cellprop
from mc.worlds import cellcfg, cellmon


def _k2():
    cfg = cellcfg.k2()
    cfg['monitors'] = [cellmon.mon_c06_once]
    cfg['allocs']['c'] = {'partition': '_default', 'variants': [
        {'reserved': [4, 4, 4], 'rank': 100, 'adj': 10}]}
    cfg['events'] = cellcfg.ev(
        ('add', 'pl'), ('add', 't1'), ('add', 'p2'),
        ('rm', 0), ('rm', 1), ('prio', 0, 100),
        ('move', 0, 'b'), ('move', 0, 'c'), ('move', 0, 'a'),
        ('move', 1, 'c'), ('move', 1, 'a'),
        ('alloc', 'a', 1), ('noop',),
    )
    return cfg


def configs(ctx):
    if ctx.quick:
        return [('K2-moves', _k2(), 4, 1)]
    return [('K2-moves', _k2(), 6, 2)]


RULE = 'cycles in which at least two instances were queued'


def run_moves(ctx):
    return _cellprop.run_configs(
        ctx, configs(ctx), ['c06_cycles_with_two_or_more_queued',
                            'c06_cycles_checked'], RULE, [])


def replay_moves(ctx, data):
    return _cellprop.replay_config(ctx, configs(ctx), data)
