"""C14, sequential part, fault model of the network service: every external
call (netdev.* / iptables.*, i.e. an `ip link`, `brctl`, `ipset` command or a
sysfs read) that on_create_request / on_delete_request issues may fail once.

The real NetworkResourceService runs against the recording fakes of
mc/c14_seq.py; a proxy at the two module seams counts the calls of the current
operation and raises at the chosen one (the call then has NO effect, the way a
failed command leaves the kernel).  ResourceService._on_created/_on_deleted
turn such an exception into an `_error` reply and keep the service running,
so the histories explored here are histories of one living service:

    create!(r, f, k)  on_create_request(r) in which the k-th call of f fails
    delete!(r, f, k)  on_delete_request(r) in which the k-th call of f fails
    create / delete / restart as in the fault-free world (retry, give up,
    service restart = initialize + existing requests + synchronize)

The fault points are not written down here: they are read off the real code
by running one create, one repeated create and one delete on a scratch
service and recording (function, occurrence) of every call that went through
the seams.  Each fault event is one counted deviation (statex max_dev).

Reference under faults (nothing more than the statement needs):

* an operation that COMPLETED is judged exactly as in the fault-free world:
  after a completed create r holds the one address it was told, a repeated
  request is answered with the address the request already has, a completed
  delete leaves nothing linked to r;
* an operation that FAILED (the injected fault, or a refusal of a request that
  an earlier fault left in its error state) may leave the table as it was, may
  keep the one address it linked for r before failing ("provisional": r was
  never told; it is what the retry is expected to reuse) and may drop
  provisional addresses of r; it may not touch anything else;
* provisional addresses may also be dropped by a restart; everything else a
  restart removes must belong to an owner that is gone.
"""
import errno
import ipaddress

from mc import c14_seq as seq
from mc import statex

from treadmill.services import network_service

# sysfs readers fail with an I/O error, commands with CalledProcessError
_SYSFS = {'dev_mtu', 'dev_speed', 'dev_alias', 'dev_state', 'dev_mac',
          'bridge_brif', 'dev_list', 'bridge_forward_delay'}

QUAL = ' after an external call of this request failed'

# used only if probing the real code fails (then the fault-free configs
# report why); the probed list is what normally drives the menu
STATIC_POINTS = {
    'create': [('netdev.link_add_veth', 1), ('netdev.link_set_mtu', 1),
               ('netdev.link_set_mtu', 2), ('netdev.link_set_alias', 1),
               ('netdev.link_set_alias', 2), ('netdev.bridge_addif', 1),
               ('netdev.link_set_up', 1), ('netdev.dev_mtu', 1),
               ('netdev.dev_speed', 1), ('netdev.dev_alias', 1),
               ('iptables.add_ip_set', 1), ('iptables.test_ip_set', 1)],
    'delete': [('netdev.dev_state', 1), ('netdev.link_del_veth', 1),
               ('iptables.rm_ip_set', 1)],
}


class _Seam:
    """Proxy of a fake module: counts the calls of the running operation and
    lets the armed one fail."""

    def __init__(self, prefix, target, world):
        self.__dict__['_p'] = (prefix, target, world)

    def __getattr__(self, name):
        prefix, target, world = self.__dict__['_p']
        attr = getattr(target, name)
        if not callable(attr):
            return attr

        def _call(*args, **kw):
            if world.counting:
                full = '%s.%s' % (prefix, name)
                world.op_calls.append(full)
                if world.fired is None and world.armed == (
                        full, world.op_calls.count(full)):
                    world.fired = world.armed
                    if name in _SYSFS:
                        raise OSError(errno.EIO, 'injected: read failed',
                                      full)
                    raise seq.FakeSubproc.CalledProcessError(1, full)
            return attr(*args, **kw)
        return _call


class NetSvcFaultWorld(seq.NetSvcWorld):
    KIND = 'netsvc_flt'

    def __init__(self, cfg):
        self.counting = False
        self.armed = None
        self.fired = None
        self.op_calls = []
        self._seams = None
        # ip -> request: linked by a create that failed afterwards; the
        # requestor was never told the address
        self.prov = {}
        # requests left in their error state by a failed operation
        self.tainted = set()
        super().__init__(cfg)

    def install(self):
        if self._seams is None:
            self._seams = (_Seam('netdev', self.netdev, self),
                           _Seam('iptables', self.iptables, self))
        network_service.netdev = self._seams[0]
        network_service.iptables = self._seams[1]
        network_service.subproc = seq.FakeSubproc

    # -- one operation of the real service ---------------------------------
    def run_op(self, point, fn, *args):
        self.armed = tuple(point) if point else None
        self.fired = None
        self.op_calls = []
        self.counting = True
        try:
            return seq.call(fn, *args)
        finally:
            self.counting = False
            self.armed = None

    def qual(self, r):
        return QUAL if (r in self.tainted or r in self.prov.values()) else ''

    def _prune(self):
        act = self.ref
        self.prov = {ip: o for ip, o in self.prov.items()
                     if act.get(ip) == o}

    def in_net(self, ip):
        try:
            return ipaddress.IPv4Address(ip) in self.net
        except ValueError:
            return False

    # -- create --------------------------------------------------------------
    def do_create(self, ev, r, site, point=None):
        site += self.qual(r)
        held = self.owners_of(r)
        held_prov = [ip for ip in held if ip in self.prov]
        held_conf = [ip for ip in held if ip not in self.prov]
        free = [h for h in self.hosts if h not in self.ref]
        was_tainted = r in self.tainted
        out = self.run_op(point, self.svc.on_create_request, r,
                          {'environment': seq.RSRC_ENV[r]})
        fired = self.fired is not None
        if point:
            self.stats['fault_fired_in_create' if fired
                       else 'fault_point_not_reached'] += 1
        act = self.actual()
        expected = dict(self.ref)
        # provisional addresses of r may go away in any operation on r
        dropped = [ip for ip in held_prov if ip not in act]
        for ip in dropped:
            del expected[ip]
        if out[0] == 'ok':
            ip = out[1]['vip']
            if not self.in_net(ip):
                self.report('allocated-ip-outside-network', site, ev, ip=ip,
                            cidr=self.cfg['cidr'])
            if held:
                self.stats['create_again'] += 1
                if was_tainted or held_prov:
                    self.stats['create_retry_after_fault'] += 1
                if ip not in held:
                    kept = [h for h in held if h in act]
                    if held_conf or kept:
                        # the request has an address (one it was told, or
                        # one still linked for it) and got another one
                        self.report('repeated-request-got-another-ip', site,
                                    ev, held=held, got=ip, rsrc=r,
                                    still_linked=kept,
                                    never_told=sorted(held_prov))
                    if ip in self.ref:
                        self.report(
                            'allocate-succeeded-on-entry-held-by-other', site,
                            ev, entry=ip, holder=self.ref[ip], caller=r,
                            holder_live=self.ref[ip] in self.live)
                    else:
                        expected[ip] = r
            else:
                self.stats['create_new'] += 1
                if ip in self.ref:
                    self.report('allocate-succeeded-on-entry-held-by-other',
                                site, ev, entry=ip, holder=self.ref[ip],
                                caller=r,
                                holder_live=self.ref[ip] in self.live)
                else:
                    expected[ip] = r
            self.vip_of[r] = ip
            self.prov.pop(ip, None)
            self.tainted.discard(r)
        elif fired or was_tainted:
            # failed operation: the table as it was, or plus the ONE address
            # linked for r before the failure (only if r had none)
            self.stats['create_failed_by_fault' if fired
                       else 'retry_refused_after_fault'] += 1
            new = sorted(ip for ip, o in act.items()
                         if o == r and ip not in self.ref)
            if new and held:
                # the request already has an address linked and the failed
                # attempt linked one more
                self.report('failed-create-linked-another-ip', site, ev,
                            held=held, linked=new, rsrc=r, outcome=out)
                for ip in new:
                    expected[ip] = r
                    self.prov[ip] = r
            elif len(new) == 1:
                ip = new[0]
                if not self.in_net(ip):
                    self.report('allocated-ip-outside-network', site, ev,
                                ip=ip, cidr=self.cfg['cidr'])
                expected[ip] = r
                self.prov[ip] = r
                self.stats['failed_create_kept_address'] += 1
            if fired:
                self.tainted.add(r)
        else:
            if held or free:
                self.report('allocate-refused-although-free', site, ev,
                            free=free, held=held, rsrc=r, outcome=out)
            else:
                self.stats['create_exhausted'] += 1
        self.settle(ev, site, 'allocate', expected, outcome=out)
        self._prune()

    # -- delete --------------------------------------------------------------
    def do_delete(self, ev, r, point=None):
        site = 'NetworkResourceService.on_delete_request' + self.qual(r)
        if r in self.prov.values() or r in self.tainted:
            self.stats['delete_after_failed_create'] += 1
        self.vanish(r)
        out = self.run_op(point, self.svc.on_delete_request, r)
        fired = self.fired is not None
        if point:
            self.stats['fault_fired_in_delete' if fired
                       else 'fault_point_not_reached'] += 1
        self.vip_of.pop(r, None)
        mine = self.owners_of(r)
        if out[0] != 'ok' and (fired or r in self.tainted):
            # failed release: nothing, or what r holds, is gone
            self.stats['delete_failed_by_fault'] += 1
            act = self.actual()
            expected = {e: o for e, o in self.ref.items()
                        if not (o == r and e not in act)}
            if any(e in act for e in mine):
                self.stats['failed_delete_left_orphans'] += 1
            self.tainted.add(r)
            self.settle(ev, site, 'release', expected, caller=r)
        else:
            if out[0] == 'ok':
                self.tainted.discard(r)
            self.check_release(ev, site, mine, r, out)
        self._prune()

    # -- events --------------------------------------------------------------
    def apply(self, ev):
        self.install()
        kind = ev[0]
        if kind in ('create', 'create!'):
            r = ev[1]
            self.appear(r)
            self.do_create(ev, r, 'NetworkResourceService.on_create_request',
                           point=ev[2:4] if kind == 'create!' else None)
        elif kind in ('delete', 'delete!'):
            self.do_delete(ev, ev[1],
                           point=ev[2:4] if kind == 'delete!' else None)
        elif kind == 'restart':
            gone = [r for k, r in enumerate(seq.RSRC) if ev[1] >> k & 1]
            for r in gone:
                self.vanish(r)
                self.vip_of.pop(r, None)
            self.stats['restart'] += 1
            if any(self.owners_of(r) for r in gone):
                self.stats['restart_with_owner_gone'] += 1
            if self.tainted or self.prov:
                self.stats['restart_after_fault'] += 1
            self.start_service()
            for r in sorted(self.live):
                self.do_create(
                    ev, r,
                    'NetworkResourceService.initialize+on_create_request')
            out = seq.call(self.svc.synchronize)
            expected = {e: o for e, o in self.ref.items() if o in self.live}
            if len(expected) != len(self.ref):
                self.stats['gc_with_orphans'] += 1
            if expected:
                self.stats['gc_with_live_entries'] += 1
            if out[0] != 'ok':
                self.stats['gc_raised'] += 1
            act = self.actual()
            for ip in [ip for ip in expected
                       if ip in self.prov and ip not in act]:
                del expected[ip]
                self.stats['restart_dropped_provisional'] += 1
            self.settle(ev, 'NetworkResourceService.synchronize', 'gc',
                        expected)
            self.tainted &= self.live
            self._prune()
        else:
            raise statex.HarnessError('unknown event %r' % (ev,))

    def retired(self, r):
        """A request whose delete failed: its link is gone and what is still
        linked to it awaits collection.  Unique names are not re-submitted,
        and the service is notified of a removal once."""
        return r not in self.live and bool(self.owners_of(r))

    def enabled(self):
        n = self.cfg['n']
        evs = []
        active = [r for r in seq.RSRC[:n] if not self.retired(r)]
        for r in active:
            evs.append(('create', r))
        for r in active:
            evs.append(('delete', r))
        holders = sum(1 << k for k, r in enumerate(seq.RSRC[:n])
                      if r in self.live)
        for mask in range(1 << n):
            if mask & ~holders:
                continue
            evs.append(('restart', mask))
        for r in active:
            for f, k in self.cfg['points']['create']:
                evs.append(('create!', r, f, k))
        for r in active:
            if r in self.live:
                for f, k in self.cfg['points']['delete']:
                    evs.append(('delete!', r, f, k))
        return evs

    def extra_canon(self):
        return super().extra_canon() + (
            tuple(sorted(self.prov.items())), tuple(sorted(self.tainted)))


def probe_points(cidr):
    """(function, occurrence) of every external call the real create / delete
    path issues: first create, repeated create, create after a restart,
    delete of a built and of an unknown request."""
    w = NetSvcFaultWorld({'kind': 'netsvc_flt', 'cidr': cidr, 'n': 1,
                          'owners': seq.RSRC[:1], 'events': None,
                          'points': {'create': [], 'delete': []}})
    r = seq.RSRC[0]
    data = {'environment': seq.RSRC_ENV[r]}
    seen = {'create': [], 'delete': []}

    def note(kind):
        cnt = {}
        for f in w.op_calls:
            cnt[f] = cnt.get(f, 0) + 1
            if (f, cnt[f]) not in seen[kind]:
                seen[kind].append((f, cnt[f]))

    w.appear(r)
    for _ in range(2):
        if w.run_op(None, w.svc.on_create_request, r, data)[0] != 'ok':
            raise RuntimeError('probe create failed')
        note('create')
    w.start_service()
    w.run_op(None, w.svc.on_create_request, r, data)
    note('create')
    seq.call(w.svc.synchronize)
    w.vanish(r)
    for _ in range(2):
        w.run_op(None, w.svc.on_delete_request, r)
        note('delete')
    if not seen['create'] or not seen['delete']:
        raise RuntimeError('probe saw no external call')
    return seen


def netsvc_fault_cfg(cidr, n, max_dev):
    try:
        points, source = probe_points(cidr), 'probed on the real code'
    except Exception as exc:  # pylint: disable=broad-except
        points = {k: list(v) for k, v in STATIC_POINTS.items()}
        source = 'static fallback (probe failed: %s)' % type(exc).__name__
    return {'kind': 'netsvc_flt', 'cidr': cidr, 'n': n,
            'owners': seq.RSRC[:n], 'events': None, 'max_dev': max_dev,
            'points': points, 'points_source': source}


seq.WORLDS['netsvc_flt'] = NetSvcFaultWorld
