"""boundx - bounded-exhaustive sweep of a finite input domain over forked
workers.  The domain is described by a list of picklable *chunk descriptors*;
`worker(chunk)` enumerates every case of the chunk, runs the real code against
the reference model and returns a dict:

    {'cases': int, 'nontrivial': int, 'states': int (optional),
     'violations': [{'clause','site','detail','replay'}...],
     'samples': [case, ...] (a few), 'counters': {name: int}}

`sweep` merges them.  Nothing is sampled: every chunk is processed unless the
time cap is hit, in which case the result says so (exhaustive=False).
"""
import collections
import multiprocessing
import os
import time

_WORKER = None


def _call(chunk):
    return _WORKER(chunk)


class Sweep:
    def __init__(self):
        self.cases = 0
        self.nontrivial = 0
        self.states = 0
        self.chunks_done = 0
        self.chunks_total = 0
        self.violations = {}
        self.samples = []
        self.counters = collections.Counter()
        self.exhaustive = True
        self.caps_hit = []
        self.wall_s = 0.0

    def note(self, v):
        key = (v['clause'], v.get('site'))
        cur = self.violations.get(key)
        if cur is None:
            v = dict(v)
            v.setdefault('count', 1)
            self.violations[key] = v
        else:
            cur['count'] = cur.get('count', 1) + v.get('count', 1)

    def violation_list(self):
        return list(self.violations.values())


def sweep(chunks, worker, workers=None, time_cap=None, ordered=True):
    """Run worker over all chunks on forked processes and merge."""
    global _WORKER  # pylint: disable=global-statement
    _WORKER = worker
    chunks = list(chunks)
    workers = workers or min(16, os.cpu_count() or 1)
    res = Sweep()
    res.chunks_total = len(chunks)
    t0 = time.perf_counter()
    pool = None
    try:
        if workers > 1 and len(chunks) > 1:
            pool = multiprocessing.get_context('fork').Pool(workers)
            it = pool.imap(_call, chunks) if ordered else \
                pool.imap_unordered(_call, chunks)
        else:
            it = (worker(c) for c in chunks)
        for out in it:
            res.chunks_done += 1
            res.cases += out.get('cases', 0)
            res.nontrivial += out.get('nontrivial', 0)
            res.states += out.get('states', 0)
            res.counters.update(out.get('counters', {}))
            for v in out.get('violations', []):
                res.note(v)
            if len(res.samples) < 8:
                res.samples.extend(out.get('samples', [])[:2])
            if time_cap and time.perf_counter() - t0 > time_cap:
                if res.chunks_done < res.chunks_total:
                    res.exhaustive = False
                    res.caps_hit.append(
                        'time_cap %ss: %d of %d chunks swept'
                        % (time_cap, res.chunks_done, res.chunks_total))
                    if pool:
                        pool.terminate()
                        pool = None
                    break
    finally:
        if pool:
            pool.close()
            pool.join()
    res.wall_s = time.perf_counter() - t0
    return res
