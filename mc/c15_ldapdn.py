"""C15 sub-check: the identity of an admin object that is kept only in its DN.

id    : for every id of the menus, REAL <Class>.dn() (_allocation_dn_parts,
        Tenant.dn, Partition.dn, default LdapObject.dn) -> create on the
        in-memory directory -> REAL get / list / from_entry(entry, dn)
        (_dn2cellalloc_id, _dn2partition_id): the id read back is the id
        written, and - sweep-wide - no two ids share a DN.
world : directories populated with every reservation / allocation of a set of
        tenants (every unordered pair of the tenant menu closed under parents,
        and the whole menu at once): Tenant.reservations, Tenant.allocations,
        Allocation.get()['reservations'], CellAllocation.list / get return
        exactly the records written under that id, each with its own content.
cells : the same for Cell.get()['partitions'] / Partition.get / list over
        every non-empty subset of a cell menu, and for the classes whose id is
        a plain RDN (Cell, Application, AppGroup, Server, DNS).
"""
import fnmatch
import itertools
import re

from mc import c15_common as cc
from mc.c15_ldap import _Store

SEGMENTS = ['a', 'b', 'ab']                 # reversals / prefixes of each other
SEGMENTS_THOROUGH = ['a', 'b', 'ab', 'ba']
ALLOCS = ['dev', 'a']                       # 'a' is also a tenant / cell name
CELLS = ['c1', 'a']
PARTITIONS = ['p', '_default', 'c1']
CELL_MENU = ['c', 'c1', 'c1x', '1c']
SIMPLE = {
    # class -> (ids, attribute used to tell the records apart)
    'Cell': (['c', 'c1', 'c1x', 'cell-2'], 'location'),
    'Application': (['proid.app', 'proid.app.sub-1', 'proid.ap', 'p.a-b.c_d'],
                    'command'),
    'AppGroup': (['proid.grp', 'proid.grp.x', 'grp.proid'], 'pattern'),
    'Server': (['h1', 'h1.example.com', 'h1-2.example.com', 'example.com'],
               'cell'),
    'DNS': (['dns1', 'dns1.x', '1dns'], 'location'),
}
_CLAUSE_RE = re.compile(r'\(([^()=&|!]+)=([^()]*)\)')


def tenants(tier):
    segs = SEGMENTS_THOROUGH if tier != 'quick' else SEGMENTS
    out = []
    for depth in (1, 2, 3):
        for combo in itertools.product(segs, repeat=depth):
            out.append(':'.join(combo))
    return out


def closure(ts):
    out = []
    for t in ts:
        parts = t.split(':')
        for i in range(1, len(parts) + 1):
            p = ':'.join(parts[:i])
            if p not in out:
                out.append(p)
    return sorted(out, key=lambda t: (t.count(':'), t))


class DirectoryError(Exception):
    """The directory refused an operation (an LDAP error result)."""


class _DirStore(_Store):
    """Directory: scope, AND-of-(attr=glob) filters, parents must exist."""

    def __init__(self):
        _Store.__init__(self, 'raw', set())

    def add(self, dn, object_class, attributes):
        parent = dn.split(',', 1)[1]
        if not parent.startswith('ou=') and parent not in self.entries:
            raise DirectoryError('noSuchObject: parent of %s' % dn)
        if dn in self.entries:
            raise DirectoryError('entryAlreadyExists: %s' % dn)
        _Store.add(self, dn, object_class, attributes)

    @staticmethod
    def _matches(entry, search_filter):
        lowered = {k.lower(): v for k, v in entry.items()}
        for attr, pattern in _CLAUSE_RE.findall(search_filter):
            values = lowered.get(attr.strip().lower(), [])
            if attr.strip().lower() == 'objectclass':
                ok = any(fnmatch.fnmatchcase(str(v).lower(), pattern.lower())
                         for v in values)
            else:
                ok = any(fnmatch.fnmatchcase(str(v), pattern)
                         for v in values)
            if not ok:
                return False
        return True

    def _search(self, search_base, search_filter, search_scope=None,
                attributes=None, **_kw):
        import ldap3
        self.ops += 1
        wanted = {a.lower() for a in attributes or []}
        for dn in list(self.entries):
            entry = self.entries[dn]
            if search_scope == ldap3.BASE:
                if dn != search_base:
                    continue
            elif not (dn == search_base or dn.endswith(',' + search_base)):
                continue
            if not self._matches(entry, search_filter):
                continue
            out = {}
            for attr, values in entry.items():
                base = attr.split(';', 1)[0].lower()
                if '*' in wanted or base in wanted:
                    out[attr] = [self._fmt(attr, v) for v in values]
            yield {'dn': dn, 'attributes': out}


class LdapDn:
    name = 'ldapdn'
    chunk = 60

    def __init__(self):
        self._m = None

    def reset(self):
        pass

    def _mod(self):
        if self._m is None:
            from treadmill.admin import _ldap
            self._m = _ldap
        return self._m

    def _env(self):
        m = self._mod()
        admin = m.Admin(None, 'dc=verif,dc=test')
        store = _DirStore()
        admin.ldap = admin.write_ldap = store
        return m, admin, store

    # -- domain ------------------------------------------------------------
    def menus(self, tier):
        ts = tenants(tier)
        return {
            'tenant segments': SEGMENTS_THOROUGH if tier != 'quick'
            else SEGMENTS,
            'tenants': 'every ":"-path of depth 1..3 over the segments (%d)'
                       % len(ts),
            'allocation names': ALLOCS, 'cells': CELLS,
            'partitions': PARTITIONS, 'cell menu (cells part)': CELL_MENU,
            'plain-RDN classes': {k: v[0] for k, v in SIMPLE.items()},
            'worlds': 'every unordered pair of tenants (incl. t,t) closed '
                      'under parents, each tenant with allocations x cells; '
                      'plus the whole tenant menu at once',
            'cells part': 'every non-empty subset of the cell menu, each '
                          'cell with every partition',
        }

    def domain(self, tier):
        ts = tenants(tier)
        worlds = [[t1, t2] if t1 != t2 else [t1]
                  for i, t1 in enumerate(ts) for t2 in ts[i:]]
        worlds.append(list(ts))
        cell_sets = [list(c) for r in range(1, len(CELL_MENU) + 1)
                     for c in itertools.combinations(CELL_MENU, r)]
        parts = [
            cc.Product('id.tenant', [('tenant', ts)]),
            cc.Product('id.alloc', [('tenant', ts), ('alloc', ALLOCS)]),
            cc.Product('id.cellalloc', [('tenant', ts), ('alloc', ALLOCS),
                                        ('cell', CELLS)]),
            cc.Product('id.partition', [('cell', CELL_MENU),
                                        ('partition', PARTITIONS)]),
        ]
        for cls in sorted(SIMPLE):
            parts.append(cc.Product('id.simple.' + cls, [('class', [cls]),
                                                  ('id', SIMPLE[cls][0])]))
        parts.append(cc.Explicit('cells', cell_sets))
        parts.append(cc.Explicit('simple.all', sorted(SIMPLE)))
        parts.append(cc.Explicit('world', worlds))
        return cc.Concat(parts)

    # -- helpers -----------------------------------------------------------
    @staticmethod
    def _mk_tenants(m, admin, ts):
        ten = m.Tenant(admin)
        for t in closure(ts):
            ten.create(t, {'systems': [len(t)]})
        return ten

    def evaluate(self, case):
        tag = case[0]
        if tag == 'world':
            return self._world(case[1])
        if tag == 'cells':
            return self._cells(case[1])
        if tag == 'simple.all':
            return self._simple_all(case[1])
        return self._ident(case)

    def _ident(self, case):
        m, admin, store = self._env()
        tag = case[0]
        viol = []

        def mismatch(cls, field, written, dn, decoded, via):
            viol.append(('ldap-dn-id-roundtrip-mismatch',
                         'admin._ldap.%s.dn/from_entry:%s' % (cls, field),
                         {'written': written, 'dn': dn,
                          'decoded': repr(decoded), 'via': via}))

        nontrivial = False
        if tag == 'id.tenant':
            t = case[1]
            ten = self._mk_tenants(m, admin, [t])
            dn = ten.dn(t)
            got = ten.get(t)
            val = ('tenant', t)
            if got is None or got.get('tenant') != t:
                mismatch('Tenant', 'tenant', t, dn, got, 'get')
            nontrivial = ':' in t
        elif tag == 'id.alloc':
            _t, t, a = case
            self._mk_tenants(m, admin, [t])
            alloc = m.Allocation(admin)
            ident = '%s/%s' % (t, a)
            alloc.create(ident, {'environment': 'dev'})
            dn = alloc.dn(ident)
            got = alloc.get(ident)
            val = ('alloc', ident)
            if got is None or got.get('_id') != ident:
                mismatch('Allocation', '_id', ident, dn, got, 'get')
            listed = [r.get('_id') for r in alloc.list({})]
            if listed != [ident]:
                mismatch('Allocation', '_id', ident, dn, listed, 'list')
            nontrivial = ':' in t
        elif tag == 'id.cellalloc':
            _t, t, a, c = case
            self._mk_tenants(m, admin, [t])
            alloc_id = '%s/%s' % (t, a)
            m.Allocation(admin).create(alloc_id, {'environment': 'dev'})
            ca = m.CellAllocation(admin)
            ca.create([c, alloc_id], {'cpu': '10%', 'rank': 7})
            ident = '%s/%s/%s' % (t, a, c)
            dn = ca.dn([c, alloc_id])
            val = ('cellalloc', ident)
            pure = m._dn2cellalloc_id(dn)
            if pure != ident:
                mismatch('CellAllocation', '_id', ident, dn, pure,
                         '_dn2cellalloc_id')
            got = ca.get([c, alloc_id])
            if got is None or got.get('_id') != ident or \
                    got.get('cell') != c:
                mismatch('CellAllocation', '_id', ident, dn, got, 'get')
            listed = [(r.get('_id'), r.get('cell')) for r in ca.list({})]
            if listed != [(ident, c)]:
                mismatch('CellAllocation', '_id', ident, dn, listed, 'list')
            nontrivial = ':' in t
        elif tag == 'id.partition':
            _t, c, p = case
            m.Cell(admin).create(c, {'location': 'x'})
            part = m.Partition(admin)
            part.create([p, c], {'cpu': '10%'})
            dn = part.dn([p, c])
            val = ('partition', c, p)
            pure = m._dn2partition_id(dn)
            if tuple(pure) != (c, p):
                mismatch('Partition', 'cell,partition', [c, p], dn, pure,
                         '_dn2partition_id')
            got = part.get([p, c])
            if got is None or (got.get('_id'), got.get('partition'),
                               got.get('cell')) != (p, p, c):
                mismatch('Partition', 'cell,partition', [c, p], dn, got,
                         'get')
            nontrivial = p == c or c != 'c'
        else:
            _t, cls, ident = case
            handler = getattr(m, cls)(admin)
            attr = SIMPLE[cls][1]
            handler.create(ident, {attr: 'v'})
            dn = handler.dn(ident)
            val = (cls, ident)
            got = handler.get(ident)
            if cls == 'Cell' and got is not None:
                got.pop('partitions', None)
            if got is None or got.get('_id') != ident:
                mismatch(cls, '_id', ident, dn, got, 'get')
            listed = [r.get('_id') for r in handler.list({})]
            if listed != [ident]:
                mismatch(cls, '_id', ident, dn, listed, 'list')
            nontrivial = any(ch in ident for ch in '.-_')
        if dn not in store.entries:
            viol.append(('ldap-dn-not-where-written',
                         'admin._ldap.%s.dn' % tag.split('.')[1],
                         {'dn': dn, 'stored': sorted(store.entries)}))
        return {'enc': dn, 'val': repr(val), 'evals': store.ops,
                'nontrivial': nontrivial, 'viol': viol,
                'tags': ['ldapdn.' + tag]}

    @staticmethod
    def _listing(viol, site, owner, want, got, extra=None):
        if sorted(want) != sorted(got):
            detail = {'owner': owner, 'written': sorted(want),
                      'listed': sorted(got)}
            detail.update(extra or {})
            viol.append(('ldap-dn-listing-mismatch', site, detail))

    def _world(self, ts):
        m, admin, store = self._env()
        ten = self._mk_tenants(m, admin, ts)
        alloc = m.Allocation(admin)
        ca = m.CellAllocation(admin)
        all_t = closure(ts)
        written = {}            # reservation id -> rank
        allocs = []
        rank = 0
        for t in all_t:
            for a in ALLOCS:
                alloc_id = '%s/%s' % (t, a)
                alloc.create(alloc_id, {'environment': 'dev'})
                allocs.append(alloc_id)
                for c in CELLS:
                    rank += 1
                    ca.create([c, alloc_id], {'cpu': '%d%%' % rank,
                                              'rank': rank})
                    written['%s/%s' % (alloc_id, c)] = rank
        viol = []
        world = {'tenants': all_t}

        def content(site, recs):
            for r in recs:
                rid = r.get('_id')
                if rid in written and r.get('rank') != written[rid]:
                    viol.append(('ldap-dn-names-another-object', site,
                                 {'_id': rid, 'written_rank': written[rid],
                                  'decoded_rank': r.get('rank'),
                                  'world': all_t}))

        recs = ca.list({})
        self._listing(viol, 'admin._ldap.CellAllocation.list', 'directory',
                      list(written), [r.get('_id') for r in recs], world)
        content('admin._ldap.CellAllocation.list', recs)
        for rid, rk in written.items():
            t_a, c = rid.rsplit('/', 1)
            got = ca.get([c, t_a])
            if got is None or got.get('_id') != rid or got.get('rank') != rk \
                    or got.get('cell') != c:
                viol.append(('ldap-dn-id-roundtrip-mismatch',
                             'admin._ldap.CellAllocation.dn/from_entry:_id',
                             {'written': rid, 'dn': ca.dn([c, t_a]),
                              'decoded': repr(got), 'via': 'get in world',
                              'world': all_t}))
        for t in all_t:
            recs = ten.reservations(t)
            self._listing(viol, 'admin._ldap.Tenant.reservations', t,
                          [r for r in written if r.split('/')[0] == t],
                          [r.get('_id') for r in recs], world)
            content('admin._ldap.Tenant.reservations', recs)
            got = ten.allocations(t)
            self._listing(viol, 'admin._ldap.Tenant.allocations', t,
                          [a for a in allocs if a.split('/')[0] == t],
                          [r.get('_id') for r in got], world)
            one = ten.get(t)
            if one is None or one.get('tenant') != t or \
                    one.get('systems') != [len(t)]:
                viol.append(('ldap-dn-id-roundtrip-mismatch',
                             'admin._ldap.Tenant.dn/from_entry:tenant',
                             {'written': t, 'dn': ten.dn(t),
                              'decoded': repr(one), 'via': 'get in world',
                              'world': all_t}))
        for alloc_id in allocs:
            got = alloc.get(alloc_id)
            recs = (got or {}).get('reservations', [])
            self._listing(viol, 'admin._ldap.Allocation.reservations',
                          alloc_id,
                          [r for r in written
                           if r.rsplit('/', 1)[0] == alloc_id],
                          [r.get('_id') for r in recs], world)
            content('admin._ldap.Allocation.reservations', recs)
            if got is None or got.get('_id') != alloc_id:
                viol.append(('ldap-dn-id-roundtrip-mismatch',
                             'admin._ldap.Allocation.dn/from_entry:_id',
                             {'written': alloc_id, 'dn': alloc.dn(alloc_id),
                              'decoded': repr((got or {}).get('_id')),
                              'via': 'get in world', 'world': all_t}))
        listed = [r.get('_id') for r in alloc.list({})]
        self._listing(viol, 'admin._ldap.Allocation.list', 'directory',
                      allocs, listed, world)
        return {'enc': None, 'val': repr(('world', ts)), 'evals': store.ops,
                'nontrivial': any(':' in t for t in all_t), 'viol': viol,
                'tags': ['ldapdn.world']}

    def _cells(self, cells):
        m, admin, store = self._env()
        cell = m.Cell(admin)
        part = m.Partition(admin)
        written = {}
        n = 0
        for c in cells:
            cell.create(c, {'location': 'loc-' + c})
            for p in PARTITIONS:
                n += 1
                part.create([p, c], {'cpu': '%d%%' % n})
                written[(c, p)] = '%d%%' % n
        viol = []
        world = {'cells': cells}
        for c in cells:
            got = cell.get(c)
            if got is None or got.get('_id') != c or \
                    got.get('location') != 'loc-' + c:
                viol.append(('ldap-dn-id-roundtrip-mismatch',
                             'admin._ldap.Cell.dn/from_entry:_id',
                             {'written': c, 'dn': cell.dn(c),
                              'decoded': repr(got), 'via': 'get in world'}))
            recs = (got or {}).get('partitions', [])
            self._listing(
                viol, 'admin._ldap.Cell.partitions', c,
                [repr((c, p)) for p in PARTITIONS],
                [repr((r.get('cell'), r.get('partition'))) for r in recs],
                world)
            for r in recs:
                key = (r.get('cell'), r.get('partition'))
                if key in written and r.get('cpu') != written[key]:
                    viol.append(('ldap-dn-names-another-object',
                                 'admin._ldap.Cell.partitions',
                                 {'id': key, 'written_cpu': written[key],
                                  'decoded_cpu': r.get('cpu')}))
        for (c, p), cpu in written.items():
            got = part.get([p, c])
            if got is None or (got.get('cell'), got.get('partition'),
                               got.get('_id'), got.get('cpu')) != \
                    (c, p, p, cpu):
                viol.append(('ldap-dn-id-roundtrip-mismatch',
                             'admin._ldap.Partition.dn/from_entry:'
                             'cell,partition',
                             {'written': [c, p], 'dn': part.dn([p, c]),
                              'decoded': repr(got), 'via': 'get in world'}))
        listed = [repr((r.get('cell'), r.get('partition')))
                  for r in part.list({})]
        self._listing(viol, 'admin._ldap.Partition.list', 'directory',
                      [repr(k) for k in written], listed, world)
        self._listing(viol, 'admin._ldap.Cell.list', 'directory', cells,
                      [r.get('_id') for r in cell.list({})], world)
        return {'enc': None, 'val': repr(('cells', cells)),
                'evals': store.ops, 'nontrivial': len(cells) > 1,
                'viol': viol, 'tags': ['ldapdn.cells']}

    def _simple_all(self, cls):
        m, admin, store = self._env()
        handler = getattr(m, cls)(admin)
        ids, attr = SIMPLE[cls]
        for i in ids:
            handler.create(i, {attr: 'v-' + i})
        viol = []
        recs = handler.list({})
        self._listing(viol, 'admin._ldap.%s.list' % cls, 'directory', ids,
                      [r.get('_id') for r in recs])
        for i in ids:
            got = handler.get(i)
            if got is None or got.get('_id') != i or \
                    got.get(attr) != 'v-' + i:
                viol.append(('ldap-dn-id-roundtrip-mismatch',
                             'admin._ldap.%s.dn/from_entry:_id' % cls,
                             {'written': i, 'dn': handler.dn(i),
                              'decoded': repr(got), 'via': 'get in world'}))
        return {'enc': None, 'val': repr(('simple.all', cls)),
                'evals': store.ops, 'nontrivial': True, 'viol': viol,
                'tags': ['ldapdn.simple.all']}

    def pair_site(self, kind, a, b):
        return 'admin._ldap.dn:%s/%s' % (a[0], b[0])


SUB = LdapDn()
