"""C15 - shared pieces of the encoding round-trip / injectivity sweeps.

A *sub-check* describes one persisted encoding:

    name            short id, used in chunk descriptors and replays
    domain(tier)    finite indexable domain (Product / Concat / Explicit)
    menus(tier)     the menus the domain is the product of (for the evidence)
    evaluate(case)  runs the REAL encoder / decoder on one case and returns
                      {'enc':   the encoding (str/bytes) or None,
                       'val':   canonical key of the encoded VALUE (str), with
                                the accepted normalisations applied (two
                                values the decoder may identify get one key),
                       'val_exact': optional: key without normalisations
                                (used for the "split" check; default = val),
                       'evals': number of encode/decode calls made,
                       'nontrivial': bool,
                       'viol':  [(clause, site, detail), ...]}
    pair_site(kind, case_a, case_b)   site string of a collision / split

The generic worker enumerates [start, stop) of the domain, collects the
violations of `evaluate`, and writes one fixed-size record per case,
(hash64(enc), hash64(val), index), to a run-private scratch file.  The parent
sorts all records of a sub-check and finds

  * collision: two cases with the same encoding but different values
               (the encoding is not injective), and
  * split:     two cases with equal (exact) values but different encodings
               (the encoding is not a function of the value),

over the WHOLE swept domain, then re-confirms every candidate against the real
code (so a 64-bit hash accident cannot produce a report).
"""
import hashlib
import os
import struct

import numpy as np

REC = np.dtype([('e', '<u8'), ('v', '<u8'), ('x', '<u8'), ('i', '<u4'),
                ('n', 'u1')])
_NOENC = 0


def h64(obj):
    """64-bit digest of a str/bytes key (0 is reserved for 'no encoding')."""
    if isinstance(obj, str):
        obj = obj.encode('utf-8', 'surrogatepass')
    d = struct.unpack('<Q', hashlib.blake2b(obj, digest_size=8).digest())[0]
    return d or 1


class Product:
    """Cartesian product of named menus, indexable, last menu fastest."""

    def __init__(self, tag, menus):
        self.tag = tag
        self.menus = [(n, list(v)) for n, v in menus]
        for n, v in self.menus:
            keys = [repr(x) for x in v]
            if len(set(keys)) != len(keys):
                raise ValueError('duplicate value in menu %s/%s' % (tag, n))
            if not v:
                raise ValueError('empty menu %s/%s' % (tag, n))
        self.n = 1
        for _n, v in self.menus:
            self.n *= len(v)

    def __len__(self):
        return self.n

    def __getitem__(self, i):
        if not 0 <= i < self.n:
            raise IndexError(i)
        out = []
        for _n, v in reversed(self.menus):
            i, r = divmod(i, len(v))
            out.append(v[r])
        out.reverse()
        return (self.tag,) + tuple(out)

    def describe(self):
        return {n: [_short(x) for x in v] for n, v in self.menus}


class Explicit:
    """Explicit list of cases."""

    def __init__(self, tag, cases):
        self.tag = tag
        self.cases = cases

    def __len__(self):
        return len(self.cases)

    def __getitem__(self, i):
        return (self.tag, self.cases[i])


class Concat:
    """Concatenation of domains (simplest first)."""

    def __init__(self, parts):
        self.parts = [p for p in parts if len(p)]
        self.offsets = []
        n = 0
        for p in self.parts:
            self.offsets.append(n)
            n += len(p)
        self.n = n

    def __len__(self):
        return self.n

    def __getitem__(self, i):
        if not 0 <= i < self.n:
            raise IndexError(i)
        lo, hi = 0, len(self.parts) - 1
        while lo < hi:
            mid = (lo + hi + 1) // 2
            if self.offsets[mid] <= i:
                lo = mid
            else:
                hi = mid - 1
        return self.parts[lo][i - self.offsets[lo]]

    def sizes(self):
        return {p.tag: len(p) for p in self.parts}


def _short(x, n=60):
    r = repr(x)
    return r if len(r) <= n else r[:n - 3] + '...'


def safe_evaluate(sub, case):
    """evaluate(); an exception escaping the code under test is a finding
    (the value cannot be written / read back), not a harness crash."""
    try:
        return sub.evaluate(case)
    except HarnessError:
        raise
    except AssertionError:
        raise
    except Exception as err:  # pylint: disable=broad-except
        import traceback
        where = 'harness'
        for fr in reversed(traceback.extract_tb(err.__traceback__)):
            if '/treadmill/' in fr.filename:
                where = '%s:%s' % (
                    fr.filename.split('/treadmill/', 1)[1], fr.name)
                break
        if where == 'harness':
            raise
        return {'enc': None, 'val': 'raised:' + repr(case), 'evals': 1,
                'nontrivial': False,
                'viol': [('codec-raises',
                          '%s:%s:%s' % (sub.name, where,
                                        type(err).__name__),
                          {'case': _short(case, 300),
                           'exception': _short(err, 300)})]}


def chunks_for(sub_name, tier, size, chunk, scratch):
    out = []
    for start in range(0, size, chunk):
        out.append({'sub': sub_name, 'tier': tier, 'start': start,
                    'stop': min(size, start + chunk), 'scratch': scratch})
    return out


def run_chunk(sub, dom, chunk):
    """Evaluate cases [start, stop) of the domain; see module docstring."""
    start, stop = chunk['start'], chunk['stop']
    rec = np.zeros(stop - start, dtype=REC)
    viol = {}
    samples = []
    evals = 0
    nontrivial = 0
    counters = {}
    for k, i in enumerate(range(start, stop)):
        case = dom[i]
        res = safe_evaluate(sub, case)
        evals += res['evals']
        if res['nontrivial']:
            nontrivial += 1
        for t in res.get('tags', ()):
            counters[t] = counters.get(t, 0) + 1
        enc = res['enc']
        rec[k] = (h64(enc) if enc is not None else _NOENC,
                  h64(res['val']), h64(res.get('val_exact', res['val'])), i,
                  1 if res['nontrivial'] else 0)
        for clause, site, detail in res['viol']:
            key = (clause, site)
            cur = viol.get(key)
            if cur is None:
                viol[key] = {
                    'clause': clause, 'site': site, 'detail': detail,
                    'count': 1,
                    'replay': {'sub': sub.name, 'tier': chunk['tier'],
                               'index': i, 'case': repr(case),
                               'clause': clause, 'site': site}}
            else:
                cur['count'] += 1
        if k == 0 and start == 0:
            samples.append({'sub': sub.name, 'case': _short(case, 200),
                            'encoding': _short(enc, 200)})
    path = os.path.join(chunk['scratch'],
                        '%s-%09d.rec' % (sub.name, start))
    with open(path, 'wb') as f:
        f.write(rec.tobytes())
    counters[sub.name + '.cases'] = stop - start
    counters[sub.name + '.evals'] = evals
    counters[sub.name + '.nontrivial'] = nontrivial
    return {'cases': stop - start, 'nontrivial': nontrivial,
            'states': stop - start, 'violations': list(viol.values()),
            'samples': samples, 'counters': counters}


def load_records(scratch, sub_name):
    bufs = []
    for fn in sorted(os.listdir(scratch)):
        if fn.startswith(sub_name + '-') and fn.endswith('.rec'):
            with open(os.path.join(scratch, fn), 'rb') as f:
                bufs.append(np.frombuffer(f.read(), dtype=REC))
    if not bufs:
        return np.zeros(0, dtype=REC)
    return np.concatenate(bufs)


def find_pairs(rec, max_pairs=50000):
    """Return (collisions, splits, stats): index pairs (i, j).

    collision: same e, different v.   split: same v, different e.
    One representative pair per offending e (resp. v) group.
    """
    stats = {'records': int(len(rec)),
             'distinct_inputs': int(len(np.unique(rec['x']))),
             'distinct_nontrivial_inputs':
             int(len(np.unique(rec['x'][rec['n'] == 1]))),
             'distinct_encodings': 0, 'distinct_values': 0,
             'collision_groups': 0, 'split_groups': 0}
    rec = rec[rec['e'] != _NOENC]
    stats['encoded'] = int(len(rec))
    if not len(rec):
        return [], [], stats
    stats['distinct_encodings'] = int(len(np.unique(rec['e'])))
    stats['distinct_values'] = int(len(np.unique(rec['v'])))

    def groups(primary, secondary):
        order = np.lexsort((rec['i'], rec[secondary], rec[primary]))
        r = rec[order]
        same = r[primary][1:] == r[primary][:-1]
        diff = r[secondary][1:] != r[secondary][:-1]
        hits = np.nonzero(same & diff)[0]
        pairs = {}
        for h in hits:
            g = int(r[primary][h])
            pair = tuple(sorted((int(r['i'][h]), int(r['i'][h + 1]))))
            if g not in pairs or pair[::-1] < pairs[g][::-1]:
                pairs[g] = pair
        # simplest (lowest index) pairs first; one pair per offending group
        ordered = sorted(pairs.values(), key=lambda p: (p[1], p[0]))
        return ordered[:max_pairs], len(pairs)

    coll, ncoll = groups('e', 'v')
    split, nsplit = groups('x', 'e')
    stats['collision_groups'] = ncoll
    stats['split_groups'] = nsplit
    return coll, split, stats


class HarnessError(Exception):
    pass


def observe(sub, case):
    res = safe_evaluate(sub, case)
    return (res['enc'], res['val'],
            sorted((c, s) for c, s, _d in res['viol']),
            res.get('val_exact', res['val']))


def confirm_case(sub, case, clause, site):
    """Re-run one case twice in fresh state; identical observations needed."""
    sub.reset()
    o1 = observe(sub, case)
    sub.reset()
    o2 = observe(sub, case)
    if o1 != o2:
        raise HarnessError('non-deterministic evaluation of %r: %r vs %r'
                           % (case, o1, o2))
    if (clause, site) not in o1[2]:
        raise HarnessError('violation %s/%s not reproduced for %r (got %r)'
                           % (clause, site, case, o1[2]))


def confirm_pair(sub, kind, case_a, case_b):
    """Confirm a collision/split against the real code.  Returns a violation
    dict body (clause, site, detail) or None when it was a hash accident."""
    obs = []
    for _ in range(2):
        sub.reset()
        obs.append((observe(sub, case_a), observe(sub, case_b)))
    if obs[0] != obs[1]:
        raise HarnessError('non-deterministic evaluation of pair %r / %r'
                           % (case_a, case_b))
    (ea, va, _x, xa), (eb, vb, _y, xb) = obs[0]
    if kind == 'collision':
        if not (ea == eb and ea is not None and va != vb):
            return None
        clause = 'distinct-values-share-encoding'
    else:
        if not (xa == xb and ea != eb and ea is not None and eb is not None):
            return None
        clause = 'equal-values-different-encodings'
    return {'clause': clause, 'site': sub.pair_site(kind, case_a, case_b),
            'detail': {'case_a': _short(case_a, 300),
                       'case_b': _short(case_b, 300),
                       'encoding_a': _short(ea, 300),
                       'encoding_b': _short(eb, 300),
                       'value_a': _short(va, 300),
                       'value_b': _short(vb, 300)}}
