"""C14, concurrent part: two processes using the same RuleMgr / EndpointsMgr
directory, explored with mc.ilv.

The name `os` inside treadmill.rulefile / treadmill.endpoints (and `glob`
inside treadmill.endpoints) is replaced by a proxy that makes every
symlink / readlink / unlink / stat / lstat / listdir / rename / rmdir /
exists / glob a scheduling point and then performs the REAL system call on a
run-private temp directory.  The managers keep no state besides their paths,
so everything between two such calls is process-local.

Oracle: every complete interleaving must be explained by SOME serial order of
the reference model (dict entry -> owner, set of live owners) that respects
each process's program order and real-time precedence, reproduces every
observed allocate outcome (success / refusal) and ends in exactly the observed
directory listing.  create / unlink / owner-vanishes are atomic in the model;
garbage_collect and unlink_all are sequences of atomic per-entry steps over the
listing the call itself observed (they are not snapshots in the
implementation and the property does not ask for that).
"""
import errno
import glob as _glob
import itertools
import os
import posixpath
import shutil

from mc import ilv
from mc import c14_seq as seq

from treadmill import endpoints
from treadmill import rulefile


class Hub:
    sched = None
    root = None
    locks = {}


def _rel(path):
    path = str(path)
    if Hub.root and path.startswith(Hub.root):
        return path[len(Hub.root) + 1:]
    return path


def _errname(exc):
    return errno.errorcode.get(exc.errno, str(exc.errno))


def _do(name, fn, path, *args):
    sched = Hub.sched
    actor = sched.point((name, _rel(path))) if sched is not None else None
    if actor is None:
        return fn(path, *args)
    try:
        res = fn(path, *args)
    except OSError as exc:
        actor.log.append((sched.step, name, _rel(path), 'E:' + _errname(exc)))
        raise
    if name in ('listdir', 'glob'):
        shown = tuple(posixpath.basename(r) for r in res)
    elif name == 'readlink':
        shown = posixpath.basename(res)
    elif name in ('exists', 'lexists', 'islink', 'isdir', 'isfile'):
        shown = bool(res)
    else:
        shown = None
    actor.log.append((sched.step, name, _rel(path), shown))
    return res


class PathProxy:
    def __getattr__(self, name):
        return getattr(posixpath, name)

    def exists(self, p):
        return _do('exists', posixpath.exists, p)

    def lexists(self, p):
        return _do('lexists', posixpath.lexists, p)

    def islink(self, p):
        return _do('islink', posixpath.islink, p)

    def isdir(self, p):
        return _do('isdir', posixpath.isdir, p)

    def isfile(self, p):
        return _do('isfile', posixpath.isfile, p)


class OsProxy:
    """Stands for the module `os` inside the code under test."""
    path = PathProxy()

    def __getattr__(self, name):
        return getattr(os, name)

    def symlink(self, src, dst, *a, **kw):
        return _do('symlink', lambda d: os.symlink(src, d, *a, **kw), dst)

    def readlink(self, p, *a, **kw):
        return _do('readlink', os.readlink, p)

    def unlink(self, p, *a, **kw):
        return _do('unlink', os.unlink, p)

    remove = unlink

    def stat(self, p, *a, **kw):
        return _do('stat', os.stat, p)

    def lstat(self, p, *a, **kw):
        return _do('lstat', os.lstat, p)

    def listdir(self, p='.'):
        return _do('listdir', os.listdir, p)

    def rename(self, src, dst, *a, **kw):
        return _do('rename', lambda s: os.rename(s, dst), src)

    replace = rename

    def rmdir(self, p, *a, **kw):
        return _do('rmdir', os.rmdir, p)

    def close(self, fd):
        for key, held in list(Hub.locks.items()):
            if held == fd:
                del Hub.locks[key]
        return os.close(fd)

    def access(self, p, mode, *a, **kw):
        return _do('exists', lambda q: os.access(q, mode), p)


class FcntlProxy:
    """Stands for `fcntl` where the code under test uses advisory locks (a
    proposed repair does): flock() becomes a *blocking* scheduling point
    (enabled only while nobody else holds the lock on that inode); the real
    flock() is never called, it would block the whole interpreter."""

    def __getattr__(self, name):
        import fcntl
        return getattr(fcntl, name)

    def flock(self, fd, operation):
        import fcntl
        sched = Hub.sched
        if sched is None or sched.actor() is None:
            return fcntl.flock(fd, operation)
        key = os.fstat(fd).st_ino
        if operation & fcntl.LOCK_UN:
            if Hub.locks.get(key) == fd:
                del Hub.locks[key]
            return None
        actor = sched.point(('flock', 'lock'),
                            guard=lambda: key not in Hub.locks)
        Hub.locks[key] = fd
        actor.log.append((sched.step, 'flock', 'lock', None))
        return None


class GlobProxy:
    def __getattr__(self, name):
        return getattr(_glob, name)

    @staticmethod
    def glob(pattern, *a, **kw):
        # one directory listing + local fnmatch: a single scheduling point
        return _do('glob', lambda p: sorted(_glob.glob(p)), pattern)


PROXY = OsProxy()


def install():
    rulefile.os = PROXY
    endpoints.os = PROXY
    endpoints.glob = GlobProxy()
    for mod in (rulefile, endpoints):
        if hasattr(mod, 'fcntl'):
            mod.fcntl = FcntlProxy()


# ---------------------------------------------------------------------------
# systems

# A and B are two incarnations of one instance, X another instance
OWNERS = {'A': 'proid.app-0000000001-AAAAAAAAAAAAA',
          'B': 'proid.app-0000000001-BBBBBBBBBBBBB',
          'X': 'proid.app-0000000002-XXXXXXXXXXXXX'}


class System:
    """One (kind, initial state) on a per-process directory."""

    def __init__(self, kind, workdir):
        self.kind = kind
        self.dir = workdir
        self.apps = os.path.join(workdir, 'apps')
        if kind == 'rule':
            self.table = os.path.join(workdir, 'rules')
            os.makedirs(self.table)
            os.makedirs(self.apps)
            self.rules = seq.rule_menu()
            self.names = [rulefile.RuleMgr._filenameify(c, r)
                          for c, r in self.rules]
            self.mgrs = [rulefile.RuleMgr(self.table, self.apps)
                         for _ in range(2)]
        else:
            self.table = os.path.join(workdir, 'endpoints')
            os.makedirs(self.apps)
            self.mgrs = [endpoints.EndpointsMgr(self.table)
                         for _ in range(2)]
            self.names = [endpoints._namify(*s) for s in seq.SPECS]

    def reset(self, init):
        """init = {'entries': [(idx, owner key)], 'dead': [owner keys]}"""
        # fresh manager objects per execution: whatever a manager remembers
        # must not leak from one schedule into the next
        if self.kind == 'rule':
            self.mgrs = [rulefile.RuleMgr(self.table, self.apps)
                         for _ in range(2)]
        else:
            self.mgrs = [endpoints.EndpointsMgr(self.table)
                         for _ in range(2)]
        for e in os.listdir(self.table):
            os.unlink(os.path.join(self.table, e))
        for key, name in OWNERS.items():
            p = os.path.join(self.apps, name)
            if key in init['dead']:
                if os.path.isdir(p):
                    os.rmdir(p)
            elif not os.path.isdir(p):
                os.mkdir(p)
        for idx, key in init['entries']:
            link = os.path.join(self.table, self.names[idx])
            if self.kind == 'rule':
                os.symlink(os.path.join('..', 'apps', OWNERS[key]), link)
            else:
                os.symlink(os.path.join(self.apps, OWNERS[key]), link)

    def do(self, k, op):
        """Run one operation of process k through the real manager."""
        mgr = self.mgrs[k]
        kind = op[0]
        if self.kind == 'rule':
            if kind == 'create':
                chain, rule = self.rules[op[1]]
                return seq.call(mgr.create_rule, chain=chain, rule=rule,
                                owner=OWNERS[op[2]])
            if kind == 'unlink':
                chain, rule = self.rules[op[1]]
                return seq.call(mgr.unlink_rule, chain=chain, rule=rule,
                                owner=OWNERS[op[2]])
            if kind == 'gc':
                return seq.call(mgr.garbage_collect)
        else:
            if kind in ('create', 'unlink'):
                a, p, e, rp, pid, port = seq.SPECS[op[1]]
                fn = mgr.create_spec if kind == 'create' else mgr.unlink_spec
                return seq.call(fn, appname=a, proto=p, endpoint=e,
                                real_port=rp, pid=pid, port=port,
                                owner=os.path.join(self.apps, OWNERS[op[2]]))
            if kind == 'unlink_all':
                return seq.call(mgr.unlink_all, op[1], owner=OWNERS[op[2]])
            if kind == 'gc':
                return seq.call(endpoints.garbage_collect, self.table)
        if kind == 'vanish':
            return seq.call(PROXY.rmdir,
                            os.path.join(self.apps, OWNERS[op[1]]))
        raise ValueError('unknown op %r' % (op,))

    def execute(self, case, prefix):
        """One execution of `case` under schedule `prefix` -> Trace."""
        self.reset(case['init'])
        sched = ilv.Scheduler(prefix)

        def program(k):
            def body():
                actor = sched.actor()
                outs = []
                for op in case['progs'][k]:
                    mark = len(actor.log)
                    out = self.do(k, op)
                    outs.append((out[0], mark, len(actor.log)))
                return outs
            return body

        Hub.sched = sched
        Hub.root = self.dir
        Hub.locks = {}
        try:
            tr = sched.run([('p0', program(0)), ('p1', program(1))])
        finally:
            Hub.sched = None
        tr.results['final'] = {e: _BY_NAME.get(o, o) for e, o in
                               seq.listing(self.table).items()}
        tr.results['live'] = {
            k for k, n in OWNERS.items()
            if os.path.isdir(os.path.join(self.apps, n))}
        return tr


# ---------------------------------------------------------------------------
# reference model and the serial-order search

_BY_NAME = {v: k for k, v in OWNERS.items()}


def _subops(system, case, k, tr):
    """Atomic model steps of process k with their real-time intervals."""
    out = []
    log = tr.logs['p%d' % k]
    results = tr.results['p%d' % k] or []
    for op, (status, lo, hi) in zip(case['progs'][k], results):
        ents = log[lo:hi]
        if not ents:
            # the call never reached the shared state
            continue
        first, last = ents[0][0], ents[-1][0]
        kind = op[0]
        if kind == 'create':
            out.append(('create', system.names[op[1]], op[2], status,
                         first, last, op))
        elif kind == 'unlink':
            out.append(('release', system.names[op[1]], op[2], None,
                         first, last, op))
        elif kind == 'vanish':
            out.append(('vanish', None, op[1], None, first, last, op))
        elif kind in ('gc', 'unlink_all'):
            seen = None
            for e in ents:
                if e[1] in ('listdir', 'glob') and isinstance(e[3], tuple):
                    seen = e[3]
                    break
            for name in (seen or ()):
                steps = [e[0] for e in ents
                         if e[1] not in ('listdir', 'glob') and
                         posixpath.basename(e[2]) == name]
                lo_s, hi_s = (steps[0], steps[-1]) if steps else (first, last)
                if kind == 'gc':
                    out.append(('collect', name, None, None, lo_s, hi_s, op))
                else:
                    out.append(('release', name, op[2], None, lo_s, hi_s, op))
    return out


def _model(system, state, sub):
    """Apply one atomic step; returns the alternatives
    [(state', acceptable observed outcomes | None)]."""
    table, live = state
    kind, name, who = sub[0], sub[1], sub[2]

    def without():
        t2 = dict(table)
        del t2[name]
        return (t2, live)

    if kind == 'create':
        holder = table.get(name)
        t2 = dict(table)
        t2[name] = who
        if holder is None:
            alts = [((t2, live), ('ok',))]
            if who not in live:
                # the calling owner does not exist (any more): what it
                # creates is garbage at once.  The property speaks about live
                # owners; a refusal is not held against the implementation.
                alts.append((state, ('raise',)))
            return alts
        if holder == who:
            # RuleMgr promises success; EndpointsMgr raises EEXIST (the
            # property is silent about that)
            if system.kind == 'rule' and who in live:
                return [(state, ('ok',))]
            return [(state, ('ok', 'raise'))]
        return [(state, ('raise',))]
    if kind == 'release':
        if table.get(name) == who:
            return [(without(), None)]
        return [(state, None)]
    if kind == 'collect':
        holder = table.get(name)
        if holder is not None and holder not in live:
            return [(without(), None)]
        return [(state, None)]
    if kind == 'vanish':
        return [((table, live - {who}), None)]
    raise ValueError(kind)


def _freeze(state):
    return (tuple(sorted(state[0].items())), tuple(sorted(state[1])))


def serial_finals(system, case, tr):
    """All (final table, live) reachable by serial orders that respect
    program order, real-time precedence and the observed outcomes."""
    subs = [_subops(system, case, 0, tr), _subops(system, case, 1, tr)]
    n0, n1 = len(subs[0]), len(subs[1])
    # need[k][i] = how many steps of the OTHER process ended before step i of
    # process k started (they must come first)
    need = [[sum(1 for b in subs[1 - k] if b[5] < a[4]) for a in subs[k]]
            for k in (0, 1)]
    init = case['init']
    table0 = {system.names[i]: key for i, key in init['entries']}
    live0 = frozenset(k for k in OWNERS if k not in init['dead'])
    start = (0, 0, _freeze((table0, live0)))
    seen = {start}
    stack = [(0, 0, (table0, live0))]
    finals = set()
    while stack:
        i, j, state = stack.pop()
        if i == n0 and j == n1:
            finals.add(_freeze(state))
            continue
        for k in (0, 1):
            pos, other = (i, j) if k == 0 else (j, i)
            if pos >= len(subs[k]) or other < need[k][pos]:
                continue
            sub = subs[k][pos]
            for st2, accept in _model(system, state, sub):
                if accept is not None and sub[3] not in accept:
                    continue
                nxt = (i + 1, j, st2) if k == 0 else (i, j + 1, st2)
                key = (nxt[0], nxt[1], _freeze(st2))
                if key not in seen:
                    seen.add(key)
                    stack.append(nxt)
    return finals


_API = {
    ('rule', 'create'): 'RuleMgr.create_rule',
    ('rule', 'unlink'): 'RuleMgr.unlink_rule',
    ('rule', 'gc'): 'RuleMgr.garbage_collect',
    ('spec', 'create'): 'EndpointsMgr.create_spec',
    ('spec', 'unlink'): 'EndpointsMgr.unlink_spec',
    ('spec', 'unlink_all'): 'EndpointsMgr.unlink_all',
    ('spec', 'gc'): 'endpoints.garbage_collect',
}

_READS = ('stat', 'lstat', 'readlink', 'exists', 'lexists', 'islink',
          'listdir', 'glob')


def api_of(case, op):
    if op is None:
        return 'unknown'
    if op[0] == 'vanish':
        return 'owner-vanishes'
    return _API.get((case['kind'], op[0]), op[0])


def tok(op):
    return ':'.join(str(x) for x in op)


def signature(case):
    ini = case['init']
    return '%s init[%s dead=%s] p0[%s] p1[%s]' % (
        case['kind'],
        ','.join('%d>%s' % (i, o) for i, o in ini['entries']),
        ''.join(ini['dead']),
        ' '.join(tok(o) for o in case['progs'][0]),
        ' '.join(tok(o) for o in case['progs'][1]))


def merged_log(case, tr):
    """[(step, process, op of the program, syscall, entry, result)] in
    execution order."""
    out = []
    for k in (0, 1):
        pname = 'p%d' % k
        log = tr.logs[pname]
        for op, (_st, lo, hi) in zip(case['progs'][k],
                                     tr.results[pname] or []):
            for e in log[lo:hi]:
                out.append((e[0], k, op, e[1], posixpath.basename(e[2]),
                            e[3]))
    out.sort(key=lambda x: x[0])
    return out


def audit(system, case, tr):
    """Monitor over the merged system-call log: every successful unlink must
    hit an entry the issuing operation is entitled to remove AT THAT INSTANT:
    garbage collection only an entry whose owner does not exist, a release
    only an entry held by the owner it was called for."""
    ini = case['init']
    table = {system.names[i]: key for i, key in ini['entries']}
    live = {k for k in OWNERS if k not in ini['dead']}
    log = merged_log(case, tr)
    out = []
    after = {}          # step -> holder table right after that step
    for idx, (step, k, op, call_, entry, res) in enumerate(log):
        after[step] = table
        failed = isinstance(res, str) and res.startswith('E:')
        if failed:
            continue
        table = dict(table)
        after[step] = table
        if call_ == 'symlink':
            table[entry] = op[2]
        elif call_ == 'rmdir':
            live.discard(_BY_NAME.get(entry, entry))
        elif call_ == 'unlink':
            holder = table.pop(entry, None)
            if op[0] == 'gc':
                ok = holder is None or holder not in live
                clause = 'race-gc-removed-entry-of-live-owner'
            else:
                ok = holder is None or holder == op[2]
                clause = 'race-release-removed-entry-of-other-owner'
            if ok:
                continue
            # the decision was taken at this operation's last read of the
            # entry; name what crossed the window
            t_read, read = None, '?'
            for e in reversed(log[:idx]):
                if e[1] == k and e[2] is op and e[4] == entry and \
                        e[3] in _READS:
                    t_read, read = e[0], e[3]
                    break
                if e[1] == k and e[2] is not op:
                    break
            # what the other process did to this entry (or, for a release,
            # to the directory of the owner it is made for) inside the window
            crossing = []
            caller_dir = OWNERS.get(op[2]) if op[0] != 'gc' else None
            for e in log[:idx]:
                if e[1] == k or (t_read is not None and e[0] <= t_read) or \
                        (isinstance(e[5], str) and e[5].startswith('E:')):
                    continue
                if (e[3] in ('symlink', 'unlink', 'rename') and
                        e[4] == entry) or \
                        (e[3] == 'rmdir' and e[4] == caller_dir):
                    name = api_of(case, e[2])
                    if name not in crossing:
                        crossing.append(name)
            out.append({
                'clause': clause,
                'api': '%s: %s->unlink window crossed by %s' % (
                    api_of(case, op), read,
                    '+'.join(sorted(crossing)) or 'nothing'),
                'detail': {'entry': entry, 'holder_at_unlink': holder,
                           'holder_live': holder in live,
                           'unlinked_by': 'p%d %s' % (k, tok(op)),
                           'step': step}})
    # never two owners: an allocate that reported success must leave the
    # entry with the caller at the moment it returns
    for k in (0, 1):
        pname = 'p%d' % k
        plog = tr.logs[pname]
        for op, (status, lo, hi) in zip(case['progs'][k],
                                        tr.results[pname] or []):
            if op[0] != 'create' or status != 'ok' or hi <= lo:
                continue
            entry = system.names[op[1]]
            last = plog[hi - 1][0]
            holder = after[last].get(entry)
            if holder != op[2]:
                first = plog[lo][0]
                crossing = []
                for e in log:
                    if e[1] != k and first < e[0] < last and e[4] == entry \
                            and e[3] in ('symlink', 'unlink', 'rename') and \
                            not (isinstance(e[5], str) and
                                 e[5].startswith('E:')):
                        name = api_of(case, e[2])
                        if name not in crossing:
                            crossing.append(name)
                out.append({
                    'clause': 'race-allocate-succeeded-but-entry-held-by-other',
                    'api': '%s: %s->%s window crossed by %s' % (
                        api_of(case, op), plog[lo][1], plog[hi - 1][1],
                        '+'.join(sorted(crossing)) or 'nothing'),
                    'detail': {'entry': entry, 'caller': op[2],
                               'holder_when_it_returned': holder,
                               'created_by': 'p%d %s' % (k, tok(op))}})
    return out


def judge(system, case, tr):
    """[] or violations of one complete interleaving."""
    if tr.deadlock is not None:
        return [{'clause': 'deadlock', 'api': 'scheduler',
                 'detail': {'blocked': tr.deadlock}}]
    final = tr.results['final']
    live = tr.results['live']
    found = audit(system, case, tr)
    finals = serial_finals(system, case, tr)
    serial_ok = _freeze((final, live)) in finals
    common = {'observed_final': sorted(final.items()),
              'observed_live': sorted(live),
              'outcomes': {p: [r[0] for r in (tr.results[p] or [])]
                           for p in ('p0', 'p1')},
              'explained_by_a_serial_order': serial_ok,
              'steps': ['%s %s %s' % (s[0], s[1][0], s[1][1])
                        for s in tr.steps]}
    if found:
        for v in found:
            v['detail'].update(common)
        return found
    if serial_ok:
        return []
    common['serial_finals'] = sorted(finals)[:4]
    if not finals:
        return [{'clause': 'race-outcomes-match-no-serial-order',
                 'api': 'outcomes', 'detail': common}]
    best = min(finals, key=lambda f: len(set(f[0]) ^ set(final.items())))
    exp = dict(best[0])
    missing = sorted((e, o) for e, o in exp.items() if final.get(e) != o)
    extra = sorted((e, o) for e, o in final.items() if exp.get(e) != o)
    common.update(missing=missing, extra=extra)
    if extra and not missing and all(o not in live for _e, o in extra):
        clause = 'race-gc-kept-entry-of-dead-owner'
    elif missing:
        clause = 'race-entry-lost'
    else:
        clause = 'race-final-listing-matches-no-serial-order'
    return [{'clause': clause, 'api': 'final-listing', 'detail': common}]


def shared_touch(tr):
    """Did both processes operate on one and the same entry?"""
    def touched(p):
        return {posixpath.basename(e[2]) for e in tr.logs[p]
                if e[1] not in ('listdir', 'glob', 'rmdir', 'flock')}
    return bool(touched('p0') & touched('p1'))


# ---------------------------------------------------------------------------
# case menus

INITS = {
    'rule': [
        {'name': 'empty', 'entries': [], 'dead': ['X']},
        {'name': 'r0-orphan', 'entries': [(0, 'X')], 'dead': ['X']},
        {'name': 'r0,r1-orphans', 'entries': [(0, 'X'), (1, 'X')],
         'dead': ['X']},
    ],
    'spec': [
        {'name': 'empty', 'entries': [], 'dead': ['X']},
        {'name': 's0-orphan', 'entries': [(0, 'X')], 'dead': ['X']},
        {'name': 's0,s1-orphans', 'entries': [(0, 'X'), (1, 'X')],
         'dead': ['X']},
    ],
}


def op_menus(kind, wide, vanish=True):
    """Per-process operation menus.  Process 0 acts for owner A, process 1
    for owner B (a release of A's entry by B is the non-owner release);
    process 1 may also see owner A disappear."""
    def menu(me, other):
        m = [('create', 0, me), ('unlink', 0, me), ('gc',)]
        if wide:
            m += [('create', 1, me), ('unlink', 1, me)]
        if kind == 'spec':
            m.append(('unlink_all', 'proid.a#1', me))
        if other and vanish:
            m.append(('vanish', other))
        return m
    return menu('A', None), menu('B', 'A')


def programs(menu, maxlen):
    out = []
    for n in range(1, maxlen + 1):
        out.extend(itertools.product(menu, repeat=n))
    return out


def cases(kind, maxlen, wide):
    m0, m1 = op_menus(kind, wide)
    p0s, p1s = programs(m0, maxlen), programs(m1, maxlen)
    for ini in INITS[kind]:
        for p0 in p0s:
            for p1 in p1s:
                yield {'kind': kind, 'init': ini,
                       'progs': [list(p0), list(p1)]}


def case_count(kind, maxlen, wide):
    m0, m1 = op_menus(kind, wide)
    n0 = sum(len(m0) ** n for n in range(1, maxlen + 1))
    n1 = sum(len(m1) ** n for n in range(1, maxlen + 1))
    return len(INITS[kind]) * n0 * n1


# ---------------------------------------------------------------------------
# worker for boundx.sweep

_SYSTEMS = {}


def _system(kind):
    key = (kind, os.getpid())
    s = _SYSTEMS.get(key)
    if s is None:
        install()
        d = os.path.join(seq._ROOT, 'ilv-%s-%d' % (kind, os.getpid()))
        shutil.rmtree(d, ignore_errors=True)
        os.makedirs(d)
        s = _SYSTEMS[key] = System(kind, d)
    return s


def run_case(case, max_preemptions=None, time_cap=None):
    """Explore all interleavings of one case.  Returns (Exploration,
    violations, nontrivial count)."""
    system = _system(case['kind'])
    viol = {}
    counters = {'nontrivial': 0}

    def on_trace(tr, prefix):
        if shared_touch(tr):
            counters['nontrivial'] += 1
        for v in judge(system, case, tr):
            key = (v['clause'], v['api'])
            cur = viol.get(key)
            if cur is None:
                v['schedule'] = list(tr.choices)
                v['count'] = 1
                viol[key] = v
            else:
                cur['count'] += 1
                if len(tr.choices) < len(cur['schedule']):
                    cur['schedule'] = list(tr.choices)
                    cur['detail'] = v['detail']

    res = ilv.explore(lambda prefix: system.execute(case, prefix), on_trace,
                      max_preemptions=max_preemptions, time_cap=time_cap)
    return res, list(viol.values()), counters['nontrivial']


def replay_case(case, schedule):
    """Re-execute exactly one schedule; returns the violations it shows and a
    digest of everything observed."""
    system = _system(case['kind'])
    tr = system.execute(case, tuple(schedule))
    obs = (tr.steps, sorted(tr.results['final'].items()),
           sorted(tr.results['live']),
           [tr.results[p] for p in ('p0', 'p1')])
    return judge(system, case, tr), repr(obs)
