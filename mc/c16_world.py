"""C16 world: one host (rules/, endpoints/, apps/ on a run-private temp
directory, ip-sets, bound ports, a network service) on which containers are
started and finished through the REAL code:

  start  = the whole of treadmill.runtime.linux._run.run, from the resource
           requests to the exec of the container supervisor (what
           `treadmill sproc run` calls), over fakes for what needs root, the
           kernel or a daemon: in-memory resource service clients, `cgroups`,
           `image`, `fs.linux`, `unshare`, `newnet`, `apphook`, `subproc`,
           `socket` (bind semantics) and an enumerated `random.sample`.  A
           start that raises is handled like sproc/run.py does: the container
           is flagged aborted (real appcfg.abort.flag_aborted), its process is
           gone (sockets closed), the node finishes it later.
  finish = the whole of _finish.finish (load_app_safe, _cleanup with
           _cleanup_network / _cleanup_ephemeral_ports, apphook.cleanup,
           finish info / events) over the same fakes.

Every external step of either side is a numbered fault point (class Fault).

with real RuleMgr / EndpointsMgr and the real treadmill.iptables ip-set
functions running over a fake `subproc` that interprets the `ipset` command
line on Python sets (`-exist` makes add/del idempotent, as in the kernel).
"""
from mc import modstate  # noqa: E402
import collections
import copy
import errno
import logging
import os
import shutil
import tempfile
import types

logging.disable(logging.CRITICAL)

from treadmill import appcfg  # noqa: E402
from treadmill import endpoints  # noqa: E402
from treadmill import iptables  # noqa: E402
from treadmill import rulefile  # noqa: E402
from treadmill import services  # noqa: E402
from treadmill import runtime  # noqa: E402
from treadmill import utils  # noqa: E402
from treadmill.appcfg import abort as app_abort  # noqa: E402
from treadmill.runtime.linux import _finish  # noqa: E402
from treadmill.runtime.linux import _run  # noqa: E402

_ROOT = None


def make_root():
    global _ROOT  # pylint: disable=global-statement
    base = '/dev/shm' if os.access('/dev/shm', os.W_OK) else None
    _ROOT = tempfile.mkdtemp(prefix='verif-c16-', dir=base)
    return _ROOT


def drop_root():
    global _ROOT  # pylint: disable=global-statement
    if _ROOT:
        shutil.rmtree(_ROOT, ignore_errors=True)
    _ROOT = None


def fresh_dir():
    assert _ROOT, 'scratch root not set'
    d = os.path.join(_ROOT, 'p%d' % os.getpid())
    shutil.rmtree(d, ignore_errors=True)
    os.makedirs(d)
    return d


# ---------------------------------------------------------------------------
# fakes

# the class the real wrapper raises (so that `except
# subproc.CalledProcessError` anywhere in the code under test catches it)
from treadmill.subproc import CalledProcessError  # noqa: E402


class Fault:
    """Failure injection.  Every external step the start path / the finish
    path takes - resource service put / wait / delete, cgroup join, image
    lookup and unpack, socket bind, symlink of a rule or endpoint-spec file,
    each `ipset` / `conntrack` invocation reaching the fake subproc, the veth
    / netns creation, block device test / format / mount, unshare, mount
    clean-up, app hooks, the exec of the supervisor, each unlink of a rule or
    endpoint-spec file - is a numbered fault point of the side (`start` or
    `finish`) that is executing.  `arm(k, side)` makes exactly the k-th step
    of that side fail ONCE with the exception the real callee raises;
    `arm(None, side)` only counts; `arm(None, side, match=f)` fails the first
    step for which f(kind, what) is true."""

    def __init__(self):
        self.where = None       # side executing right now
        self.side = 'finish'    # side whose steps are counted
        self.n = 0
        self.fail_at = None
        self.match = None
        self.fired = None
        self.trace = None

    def arm(self, k, side='finish', match=None):
        self.n = 0
        self.side = side
        self.fail_at = k
        self.match = match
        self.fired = None
        self.trace = []

    def tick(self, kind, what):
        if self.where is None or self.where != self.side:
            return
        idx = self.n
        self.n += 1
        if self.trace is not None:
            self.trace.append(kind)
        if self.fired is not None:
            return
        if self.match is not None:
            hit = self.match(kind, what)
        else:
            hit = idx == self.fail_at
        if hit:
            self.fired = (kind, what)
            if kind == 'subproc':
                raise CalledProcessError(2, list(what))
            if kind == 'service-wait':
                raise services.ResourceServiceTimeoutError(
                    'Resource %r not available in time' % (what,))
            if kind == 'bind':
                raise SocketError(errno.EACCES, 'injected bind failure')
            raise OSError(errno.EIO, 'injected I/O error', str(what))


FAULT = Fault()


class FaultOs:
    """`os` as seen by treadmill.rulefile / treadmill.endpoints in the C16
    process: symlink and unlink are fault points, everything else is the real
    module."""

    def __getattr__(self, name):
        return getattr(os, name)

    @staticmethod
    def symlink(src, dst, *a, **kw):
        FAULT.tick('symlink', os.path.basename(os.path.dirname(dst)))
        return os.symlink(src, dst, *a, **kw)

    @staticmethod
    def unlink(path, *a, **kw):
        FAULT.tick('unlink', os.path.basename(os.path.dirname(path)))
        return os.unlink(path, *a, **kw)


class FakeSubproc:
    """`subproc` as seen by treadmill.iptables: interprets `ipset ...` on the
    host's sets, records everything else (conntrack, iptables)."""
    CalledProcessError = CalledProcessError

    def __init__(self):
        self.host = None

    def _fail(self, cmd, use_except, rc=1):
        if use_except:
            raise CalledProcessError(rc, cmd)
        return (rc, '')

    def invoke(self, cmd, cmd_input=None, use_except=True, **_kw):
        host = self.host
        host.calls.append(tuple(cmd[:3]))
        FAULT.tick('subproc', [c for c in cmd[:4] if c != '-exist'][:2])
        if cmd[0] != 'ipset':
            return (0, '')
        args = list(cmd[1:])
        exist = False
        if args and args[0] == '-exist':
            exist = True
            args = args[1:]
        sets = host.ipsets
        verb = args[0]
        if verb == 'create':
            if args[1] in sets and not exist:
                return self._fail(cmd, use_except)
            sets.setdefault(args[1], set())
        elif verb == 'add':
            if args[1] not in sets:
                return self._fail(cmd, use_except)
            if args[2] in sets[args[1]] and not exist:
                return self._fail(cmd, use_except)
            sets[args[1]].add(args[2])
        elif verb == 'del':
            if args[1] not in sets:
                return self._fail(cmd, use_except)
            if args[2] not in sets[args[1]] and not exist:
                return self._fail(cmd, use_except)
            sets[args[1]].discard(args[2])
        elif verb == 'test':
            if args[2] not in sets.get(args[1], ()):
                return self._fail(cmd, use_except)
        elif verb == 'flush':
            sets[args[1]].clear()
        elif verb == 'destroy':
            sets.pop(args[1], None)
        elif verb == 'swap':
            sets[args[1]], sets[args[2]] = sets[args[2]], sets[args[1]]
        elif verb == 'restore':
            for line in (cmd_input or '').splitlines():
                w = line.split()
                if w and w[0] == 'add':
                    sets[w[1]].add(w[2])
        elif verb == 'list':
            return (0, '\n'.join(sorted(sets)))
        else:
            raise AssertionError('ipset verb not modelled: %r' % (cmd,))
        return (0, '')

    def check_call(self, cmd, **_kw):
        self.host.calls.append(tuple(cmd[:2]))
        FAULT.tick('subproc', cmd[:2])
        return 0

    def check_output(self, cmd, **_kw):
        self.host.calls.append(tuple(cmd[:2]))
        return ''


SUBPROC = FakeSubproc()

HOSTS = {'h1': '10.1.1.1', 'h2': '10.1.1.1', 'h3': '10.1.1.3'}


class FakeResolver:
    """`socket` as seen by _run / _finish (only gethostbyname is used)."""
    @staticmethod
    def gethostbyname(host):
        return HOSTS.get(host, host)


class SocketError(OSError):
    pass


class FakeSocketModule:
    """`socket` as seen by treadmill.runtime, with the Linux bind semantics
    the allocator relies on:

    * bind() to a (type, port) held by another live socket fails with
      EADDRINUSE, EXCEPT for udp when this socket and every socket already
      bound there had SO_REUSEADDR set *before* their bind (then the kernel
      lets them share the port);
    * tcp keeps EADDRINUSE in that case too: the other container's socket is
      listening;
    * setsockopt(SOL_SOCKET, SO_REUSEADDR, 1) after bind has no effect on who
      may bind.
    Ports bound by somebody else on the host (pre-bound) never carry the
    option."""
    AF_INET = 2
    SOCK_STREAM = 1
    SOCK_DGRAM = 2
    SOL_SOCKET = 1
    SO_REUSEADDR = 2
    error = SocketError

    def __init__(self):
        self.host = None
        mod = self

        class Sock:
            def __init__(self, _family, kind):
                self.kind = kind
                self.addr = None
                self.closed = False
                self.reuseaddr = False        # option value right now
                self.reuse_at_bind = False    # ... at the moment of bind()
                mod.host.created.append(self)

            def bind(self, addr):
                FAULT.tick('bind', addr[1])
                host = mod.host
                key = (self.kind, addr[1])
                holders = host.holders.get(key, [])
                if holders:
                    share = (self.kind == mod.SOCK_DGRAM and self.reuseaddr
                             and all(h is not None and h.reuse_at_bind
                                     for h in holders))
                    if not share:
                        raise SocketError(errno.EADDRINUSE, 'in use')
                    host.shared_binds += 1
                host.holders.setdefault(key, []).append(self)
                host.bound.add(key)
                host.binds += 1
                self.addr = addr
                self.reuse_at_bind = self.reuseaddr

            def setsockopt(self, level, opt, value):
                if level == mod.SOL_SOCKET and opt == mod.SO_REUSEADDR:
                    self.reuseaddr = bool(value)
                    if self.addr is None:
                        mod.host.reuse_before_bind += 1

            def listen(self, _n):
                pass

            def set_inheritable(self, _v):
                pass

            def getsockname(self):
                return self.addr

            def close(self):
                if self.addr is not None and not self.closed:
                    key = (self.kind, self.addr[1])
                    holders = mod.host.holders.get(key, [])
                    if self in holders:
                        holders.remove(self)
                    if not holders:
                        mod.host.holders.pop(key, None)
                        mod.host.bound.discard(key)
                self.closed = True

        self.socket = Sock


SOCKET = FakeSocketModule()

PORT_ORDERS = ('identity', 'reversed', 'rotated')


class FakeRandom:
    """`random` as seen by treadmill.runtime: sample() returns the pool in one
    of three enumerated orders (never sampled)."""

    def __init__(self):
        self.order = 'identity'

    def sample(self, pool, n):
        pool = list(pool)
        assert n == len(pool)
        if self.order == 'identity':
            return pool
        if self.order == 'reversed':
            return pool[::-1]
        if self.order == 'rotated':
            k = len(pool) // 2 + 1
            return pool[k:] + pool[:k]
        raise AssertionError(self.order)


RANDOM = FakeRandom()


class _HostFake:
    """Base of the recording fakes: `host` is the node in use."""

    def __init__(self):
        self.host = None


class NewnetRecorder(_HostFake):
    """`newnet` as seen by _run: the veth pair / network namespace creation
    (a series of `ip` commands on a node) is recorded; a fault point."""

    def create_newnet(self, veth, vip, gateway, service_ip=None):
        FAULT.tick('subproc', ['newnet.create_newnet', str(veth)])
        self.host.newnet.append((veth, vip, gateway, service_ip))


NEWNET = NewnetRecorder()


class FakeCgroups(_HostFake):
    """`cgroups` as seen by _run (the real _apply_cgroup_limits runs)."""

    def join(self, subsystem, cgrp):
        FAULT.tick('cgroup-join', subsystem)
        self.host.steps.append(('cgroups.join', subsystem, cgrp))


class FakeImage(_HostFake):
    """`image` as seen by _run."""

    def get_image(self, _tm_env, manifest):
        FAULT.tick('image', 'get_image')
        outer = self

        class _Image:
            @staticmethod
            def unpack(container_dir, root_dir, app, _app_cgroups, _data):
                FAULT.tick('image', 'unpack')
                outer.host.steps.append(('image.unpack', root_dir, app.name))

        self.host.steps.append(('image.get_image', manifest['name']))
        return _Image()


class FakeFsLinux(_HostFake):
    """`fs_linux` as seen by _run (the real _create_root_dir runs)."""

    def blk_fs_test(self, block_dev):
        FAULT.tick('block-device', 'blk_fs_test')
        self.host.steps.append(('blk_fs_test', block_dev))
        return False

    def blk_fs_create(self, block_dev):
        FAULT.tick('block-device', 'blk_fs_create')
        self.host.steps.append(('blk_fs_create', block_dev))

    def mount_filesystem(self, block_dev, target, fs_type='ext4'):
        FAULT.tick('mount', 'mount_filesystem')
        self.host.steps.append(('mount_filesystem', block_dev, fs_type))

    def cleanup_mounts(self, _whitelist, **_kw):
        FAULT.tick('mount', 'cleanup_mounts')
        self.host.steps.append(('cleanup_mounts',))


class FakeUnshare(_HostFake):
    """`unshare` as seen by _run."""
    CLONE_NEWNS = 0x00020000

    def unshare(self, flags):
        FAULT.tick('unshare', flags)
        self.host.steps.append(('unshare', flags))


class FakeApphook(_HostFake):
    """`apphook` as seen by _run and _finish."""

    def configure(self, _tm_env, app, _container_dir):
        FAULT.tick('apphook', 'configure')
        self.host.steps.append(('apphook.configure', app.name))

    def cleanup(self, _tm_env, app, _container_dir):
        FAULT.tick('apphook', 'cleanup')
        self.host.steps.append(('apphook.cleanup', app.name))


class FakeRunSubproc(_HostFake):
    """`subproc` as seen by _run: the exec of the container supervisor is the
    last step of a start; here it returns."""
    CalledProcessError = CalledProcessError

    def exec_pid1(self, cmd, **_kw):
        FAULT.tick('exec', cmd[0])
        self.host.steps.append(('exec_pid1', cmd[0]))


class FakeRrdutils(_HostFake):
    """`rrdutils` as seen by _finish (flush_noexc never raises)."""

    def flush_noexc(self, rrd_file, *_a, **_kw):
        self.host.steps.append(('rrd.flush', os.path.basename(rrd_file)))


class FakeTrace(_HostFake):
    """`trace` as seen by _finish and appcfg.abort: events are recorded."""

    def post(self, _events_dir, event):
        self.host.events.append(type(event).__name__)


CGROUPS = FakeCgroups()
IMAGE = FakeImage()
FS_LINUX = FakeFsLinux()
UNSHARE = FakeUnshare()
APPHOOK = FakeApphook()
RUN_SUBPROC = FakeRunSubproc()
RRDUTILS = FakeRrdutils()
TRACE = FakeTrace()
HOST_FAKES = (NEWNET, CGROUPS, IMAGE, FS_LINUX, UNSHARE, APPHOOK,
              RUN_SUBPROC, RRDUTILS, TRACE)


def _archive_logs(_tm_env, _name, _container_dir):
    """runtime.archive_logs (tars the container's logs): nothing to do."""


class _CachedCollections:
    """`collections` as seen by treadmill.utils: namedtuple classes are
    cached per (name, fields).  utils.to_obj builds a fresh class per dict
    (an eval each); the cached class is indistinguishable and 40% of the
    per-case cost goes away."""
    _cache = {}

    def __getattr__(self, name):
        return getattr(collections, name)

    def namedtuple(self, name, fields, **kw):
        key = (name, tuple(fields), tuple(sorted(kw.items())))
        cls = self._cache.get(key)
        if cls is None:
            cls = self._cache[key] = collections.namedtuple(
                name, list(fields), **kw)
        return cls


_PRIMED = []


def install():
    if not _PRIMED:
        # the first plugin_manager.load imports pkg_resources (slow, warns):
        # do it once, before the workers fork
        import warnings
        from treadmill import plugin_manager
        with warnings.catch_warnings():
            warnings.simplefilter('ignore')
            try:
                plugin_manager.load('treadmill.firewall.plugins', 'firewall')
            except Exception:  # pylint: disable=broad-except
                pass
        _PRIMED.append(True)
    utils.collections = _CachedCollections()
    iptables.subproc = SUBPROC
    rulefile.os = FaultOs()
    endpoints.os = FaultOs()
    runtime.socket = SOCKET
    runtime.random = RANDOM
    _run.socket = FakeResolver
    _finish.socket = FakeResolver
    _run.newnet = NEWNET
    _run.cgroups = CGROUPS
    _run.image = IMAGE
    _run.fs_linux = FS_LINUX
    _run.unshare = UNSHARE
    _run.apphook = APPHOOK
    _run.subproc = RUN_SUBPROC
    _finish.apphook = APPHOOK
    _finish.rrdutils = RRDUTILS
    _finish.trace = TRACE
    app_abort.trace = TRACE
    runtime.archive_logs = _archive_logs


class ServiceClient:
    """Fake resource service client (cgroup, localdisk, presence): put
    records the request, wait / get return the reply, delete forgets it.
    get() of a resource that was deleted (or never put) returns None.  Every
    put / wait / delete is a fault point."""

    def __init__(self, name, reply=None):
        self.name = name
        self.reply = reply if reply is not None else {}
        self.alloc = {}

    def _allocate(self, _rsrc_id, _data):
        return dict(self.reply)

    def _missing(self, _rsrc_id):
        raise services.ResourceServiceTimeoutError(
            'Resource %r not available in time' % (_rsrc_id,))

    def put(self, rsrc_id, data):
        FAULT.tick('service-put', '%s put' % self.name)
        if rsrc_id in self.alloc:
            return
        self.alloc[rsrc_id] = self._allocate(rsrc_id, data)

    def wait(self, rsrc_id, timeout=None):
        FAULT.tick('service-wait', '%s wait' % self.name)
        v = self.alloc.get(rsrc_id)
        if v is None:
            return self._missing(rsrc_id)
        return copy.deepcopy(v)

    def get(self, rsrc_id):
        v = self.alloc.get(rsrc_id)
        return copy.deepcopy(v) if v is not None else None

    def delete(self, rsrc_id):
        FAULT.tick('service-delete', '%s delete' % self.name)
        self.alloc.pop(rsrc_id, None)


class NetworkClient(ServiceClient):
    """Fake network service client: lowest free vip.  _run.run waits for the
    network of a shared-network container without having requested one: the
    reply is then the host's own network (as the harness always assumed)."""
    EXTERNAL_IP = '10.0.0.1'
    GATEWAY = '192.168.254.254'

    def __init__(self):
        ServiceClient.__init__(self, 'network')

    def _allocate(self, _rsrc_id, _data):
        used = {v['vip'] for v in self.alloc.values()}
        n = 2
        while '192.168.0.%d' % n in used:
            n += 1
        return {'vip': '192.168.0.%d' % n, 'veth': 'veth%d.1' % n,
                'gateway': self.GATEWAY, 'external_ip': self.EXTERNAL_IP}

    def _missing(self, _rsrc_id):
        return {'vip': self.EXTERNAL_IP, 'veth': None, 'gateway': None,
                'external_ip': self.EXTERNAL_IP}


class Service:
    """tm_env.svc_<name>: hands out the one in-memory client of the node
    (on a node the state lives in the container's resources/ directory and
    in the service daemon; every client object sees the same state)."""

    def __init__(self, client):
        self.client = client

    def make_client(self, _clientdir):
        return self.client


FOREIGN = 'proid.foreign-0000000099-000000000000f'


class Host:
    """The node: real rule / endpoint managers on temp dirs + fakes."""

    def __init__(self, port_order='identity', prebound=True, foreign=True):
        install()
        modstate.reset()    # module-level memos do not leak between cases
        self.dir = fresh_dir()
        self.apps_dir = os.path.join(self.dir, 'apps')
        self.rules_dir = os.path.join(self.dir, 'rules')
        self.endpoints_dir = os.path.join(self.dir, 'endpoints')
        os.mkdir(self.apps_dir)
        os.mkdir(self.rules_dir)
        self.net = NetworkClient()
        self.svc = {
            'cgroup': ServiceClient('cgroup', {'cpu': '/treadmill/apps/x',
                                               'memory': '/treadmill/apps/x'}),
            'localdisk': ServiceClient('localdisk', {'block_dev': '/dev/x'}),
            'network': self.net,
            'presence': ServiceClient('presence'),
        }
        self.tm_env = types.SimpleNamespace(
            apps_dir=self.apps_dir,
            metrics_dir=os.path.join(self.dir, 'metrics'),
            app_events_dir=os.path.join(self.dir, 'appevents'),
            data={},
            rules=rulefile.RuleMgr(self.rules_dir, self.apps_dir),
            endpoints=endpoints.EndpointsMgr(self.endpoints_dir),
            svc_cgroup=Service(self.svc['cgroup']),
            svc_localdisk=Service(self.svc['localdisk']),
            svc_network=Service(self.net),
            svc_presence=Service(self.svc['presence']))
        self.runtime_config = types.SimpleNamespace(host_mount_whitelist=[])
        self.steps = []
        self.events = []
        self.created = []
        self.ipsets = {iptables.SET_VRING_CONTAINERS: set(),
                       iptables.SET_INFRA_SVC: set(),
                       iptables.SET_PASSTHROUGHS: set()}
        self.bound = set()
        self.binds = 0
        self.calls = []
        self.newnet = []
        self.port_order = port_order
        self.sockets = {}
        if prebound:
            # somebody else already listens on the first port of either range
            for kind in (SOCKET.SOCK_STREAM, SOCKET.SOCK_DGRAM):
                self.bound.add((kind, runtime.PROD_PORT_LOW))
                self.bound.add((kind, runtime.NONPROD_PORT_LOW))
                self.bound.add((kind, runtime.PROD_PORT_HIGH))
                self.bound.add((kind, runtime.NONPROD_PORT_HIGH))
        self.prebound = set(self.bound)
        # who holds a (type, port): live fake sockets; None = a foreign
        # process that bound the port without SO_REUSEADDR
        self.holders = {key: [None] for key in self.bound}
        self.shared_binds = 0
        self.reuse_before_bind = 0
        if foreign:
            self._foreign()
        self.activate()

    def activate(self):
        SUBPROC.host = self
        SOCKET.host = self
        for fake in HOST_FAKES:
            fake.host = self
        RANDOM.order = self.port_order

    def _foreign(self):
        """Registrations of a container this check never starts/finishes."""
        from treadmill import firewall
        os.mkdir(os.path.join(self.apps_dir, FOREIGN))
        vip = '192.168.0.200'
        self.tm_env.rules.create_rule(
            chain=iptables.PREROUTING_DNAT,
            rule=firewall.DNATRule(proto='tcp', dst_ip='10.0.0.1',
                                   dst_port=40000, new_ip=vip, new_port=8000),
            owner=FOREIGN)
        self.tm_env.rules.create_rule(
            chain=iptables.POSTROUTING_SNAT,
            rule=firewall.SNATRule(proto='tcp', src_ip=vip, src_port=8000,
                                   new_ip='10.0.0.1', new_port=40000),
            owner=FOREIGN)
        self.tm_env.rules.create_rule(
            chain=iptables.PREROUTING_PASSTHROUGH,
            rule=firewall.PassThroughRule(src_ip='10.1.1.1', dst_ip=vip),
            owner=FOREIGN)
        self.tm_env.endpoints.create_spec(
            appname='proid.foreign#0000000099', endpoint='http', proto='tcp',
            real_port=40000, pid='1', port=8000,
            owner=os.path.join(self.apps_dir, FOREIGN))
        self.ipsets[iptables.SET_VRING_CONTAINERS].add(vip)
        self.ipsets[iptables.SET_INFRA_SVC].add('%s,tcp:8000' % vip)

    # -- observation --------------------------------------------------------
    def snapshot(self):
        """Frozen set of everything registered on the host."""
        out = set()
        for e in os.listdir(self.rules_dir):
            out.add(('rule', e, os.path.basename(
                os.readlink(os.path.join(self.rules_dir, e)))))
        for e in os.listdir(self.endpoints_dir):
            if e.startswith('.'):
                continue
            name = e.split('~')
            name[4] = 'PID'
            out.add(('spec', '~'.join(name), os.path.basename(
                os.readlink(os.path.join(self.endpoints_dir, e)))))
        for name, content in self.ipsets.items():
            for c in content:
                out.add(('ipset', name, c))
        return frozenset(out)

    # -- the two sides ------------------------------------------------------
    def paths(self, manifest):
        unique = appcfg.manifest_unique_name(manifest)
        cdir = os.path.join(self.apps_dir, unique)
        return unique, cdir, os.path.join(cdir, 'data')

    def start(self, manifest):
        """The real _run.run.  Returns the frozen app object as finish will
        see it (from state.json).  If run raises, the container is flagged
        aborted the way sproc/run.py does it, its process is gone (all the
        sockets it opened are closed) and the exception is re-raised."""
        self.activate()
        manifest = copy.deepcopy(manifest)
        unique, _cdir, data_dir = self.paths(manifest)
        os.makedirs(data_dir, exist_ok=True)
        self.created = []
        FAULT.where = 'start'
        try:
            _run.run(self.tm_env, self.runtime_config, data_dir, manifest)
        except Exception as err:
            FAULT.where = None
            for s in self.created:
                s.close()
            self.created = []
            app_abort.flag_aborted(data_dir,
                                   why=app_abort.AbortedReason.UNKNOWN,
                                   payload=err)
            raise
        finally:
            FAULT.where = None
        sockets, self.created = self.created, []
        app = runtime.load_app(data_dir)
        if app is not None and app.shared_network:
            # _run closed the sockets of a shared-network container so that
            # its application can bind the ports itself: model the
            # application doing so right away (held until finish)
            held = []
            for s in sockets:
                if s.addr is None:
                    continue
                s.close()
                app_sock = SOCKET.socket(SOCKET.AF_INET, s.kind)
                app_sock.bind(s.addr)
                held.append(app_sock)
            sockets = held
            self.created = []
        self.sockets[unique] = sockets
        return app

    def finish(self, manifest):
        """The real _finish.finish."""
        self.activate()
        unique, cdir, _data_dir = self.paths(manifest)
        FAULT.where = 'finish'
        try:
            _finish.finish(self.tm_env, cdir)
        finally:
            FAULT.where = None
        # the container's supervisor is gone: its sockets are closed
        for s in self.sockets.pop(unique, ()):
            s.close()


def kind_of(item):
    """Path kind of a registration (for the violation site)."""
    if item[0] == 'rule':
        for k in ('dnat', 'snat', 'passthrough'):
            if ':%s:' % k in item[1]:
                return 'rules/' + k
        return 'rules/?'
    if item[0] == 'spec':
        return 'endpoints/spec'
    return 'ipset/' + item[1]


def port_range(environment):
    """Reference split, taken from the documented one (iptables.PROD_PORT_* /
    NONPROD_PORT_* and network_service._SET_BY_ENVIRONMENT): prod and uat are
    prod-like, dev and qa are not."""
    if environment in ('uat', 'prod'):
        return runtime.PROD_PORT_LOW, runtime.PROD_PORT_HIGH
    return runtime.NONPROD_PORT_LOW, runtime.NONPROD_PORT_HIGH


def check_ports(host, app, others=()):
    """Ports of a freshly started app: distinct per protocol, inside the
    environment's range, not taken by anyone else.  Returns [(clause, detail)].
    `others` = app objects of the containers running next to it."""
    out = []
    lo, hi = port_range(app.environment)
    plo, phi = port_range('prod')
    nlo, nhi = port_range('dev')
    if not (phi < nlo or nhi < plo):
        out.append(('prod-and-nonprod-port-ranges-overlap',
                    {'prod': [plo, phi], 'nonprod': [nlo, nhi]}))
    for proto, kind in (('tcp', SOCKET.SOCK_STREAM),
                        ('udp', SOCKET.SOCK_DGRAM)):
        mine = [e.real_port for e in app.endpoints if e.proto == proto]
        mine += list(getattr(app.ephemeral_ports, proto))
        if len(set(mine)) != len(mine):
            out.append(('ports-not-distinct', {'proto': proto,
                                               'ports': mine}))
        bad = [p for p in mine if not lo <= p <= hi]
        if bad:
            out.append(('port-outside-environment-range',
                        {'proto': proto, 'ports': bad, 'range': [lo, hi],
                         'environment': app.environment}))
        taken = {p for (k, p) in host.prebound if k == kind}
        for o in others:
            taken |= {e.real_port for e in o.endpoints if e.proto == proto}
            taken |= set(getattr(o.ephemeral_ports, proto))
        clash = sorted(set(mine) & taken)
        if clash:
            out.append(('port-already-taken-on-host',
                        {'proto': proto, 'ports': clash}))
    return out


# ---------------------------------------------------------------------------
# manifests

def manifest(name='proid.app#0000000001', uniqueid='000000000000a',
             endpoints_=(), eph=(0, 0), passthrough=(), vring=False,
             shared_network=False, shared_ip=False, environment='dev'):
    """What appcfg.manifest.load hands to the runtime (network fields)."""
    return {
        'type': 'native',
        'cell': 'cell1',
        'cpu': '10%',
        'memory': '100M',
        'disk': '100M',
        'services': [],
        'archive': [],
        'name': name,
        'app': name.split('#')[0],
        'task': name.split('#')[1],
        'uniqueid': uniqueid,
        'proid': 'proid',
        'environment': environment,
        'endpoints': [
            {'name': n, 'port': p, 'type': t, 'proto': pr}
            for (n, pr, p, t) in endpoints_],
        # key order as written in the manifest (a third element asks for
        # udp first): utils.to_obj turns the dict into a namedtuple whose
        # positional order is the key order
        'ephemeral_ports': ({'udp': eph[1], 'tcp': eph[0]} if len(eph) > 2
                            else {'tcp': eph[0], 'udp': eph[1]}),
        'passthrough': list(passthrough),
        'vring': ({'cells': ['cell1'], 'rules': []} if vring else {}),
        'shared_network': shared_network,
        'shared_ip': shared_ip,
    }
