"""C16 world: one host (rules/, endpoints/, apps/ on a run-private temp
directory, ip-sets, bound ports, a network service) on which containers are
started and finished through the REAL code:

  start  = the network slice of treadmill.runtime.linux._run.run:
           network_client.put/wait, runtime.allocate_network_ports (fake
           `socket`, enumerated `random.sample`), runtime.save_app,
           _run._unshare_network
  finish = the network slice of _finish.finish/_cleanup:
           runtime.load_app_safe, _finish._cleanup_network (which calls
           _cleanup_ephemeral_ports), network_client.delete

with real RuleMgr / EndpointsMgr and the real treadmill.iptables ip-set
functions running over a fake `subproc` that interprets the `ipset` command
line on Python sets (`-exist` makes add/del idempotent, as in the kernel).
"""
import collections
import copy
import errno
import logging
import os
import shutil
import tempfile
import types

logging.disable(logging.CRITICAL)

from treadmill import appcfg  # noqa: E402
from treadmill import endpoints  # noqa: E402
from treadmill import iptables  # noqa: E402
from treadmill import rulefile  # noqa: E402
from treadmill import runtime  # noqa: E402
from treadmill import utils  # noqa: E402
from treadmill.runtime.linux import _finish  # noqa: E402
from treadmill.runtime.linux import _run  # noqa: E402

_ROOT = None


def make_root():
    global _ROOT  # pylint: disable=global-statement
    base = '/dev/shm' if os.access('/dev/shm', os.W_OK) else None
    _ROOT = tempfile.mkdtemp(prefix='verif-c16-', dir=base)
    return _ROOT


def drop_root():
    global _ROOT  # pylint: disable=global-statement
    if _ROOT:
        shutil.rmtree(_ROOT, ignore_errors=True)
    _ROOT = None


def fresh_dir():
    assert _ROOT, 'scratch root not set'
    d = os.path.join(_ROOT, 'p%d' % os.getpid())
    shutil.rmtree(d, ignore_errors=True)
    os.makedirs(d)
    return d


# ---------------------------------------------------------------------------
# fakes

# the class the real wrapper raises (so that `except
# subproc.CalledProcessError` anywhere in the code under test catches it)
from treadmill.subproc import CalledProcessError  # noqa: E402


class Fault:
    """Command-failure injection for the finish slice.  Every external
    command the finish path issues - each `ipset` / `conntrack` invocation
    reaching the fake subproc, each unlink of a rule or endpoint-spec file,
    the network service delete - is a numbered fault point.  `arm(k)` makes
    exactly the k-th one fail ONCE with the exception the real wrapper raises
    (CalledProcessError rc 2 resp. OSError EIO); `arm(None)` only counts."""

    def __init__(self):
        self.active = False
        self.n = 0
        self.fail_at = None
        self.fired = None

    def arm(self, k):
        self.n = 0
        self.fail_at = k
        self.fired = None

    def tick(self, kind, what):
        if not self.active:
            return
        idx = self.n
        self.n += 1
        if idx == self.fail_at and self.fired is None:
            self.fired = (kind, what)
            if kind == 'subproc':
                raise CalledProcessError(2, list(what))
            raise OSError(errno.EIO, 'injected I/O error', str(what))


FAULT = Fault()


class FaultOs:
    """`os` as seen by treadmill.rulefile / treadmill.endpoints in the C16
    process: unlink is a fault point, everything else is the real module."""

    def __getattr__(self, name):
        return getattr(os, name)

    @staticmethod
    def unlink(path, *a, **kw):
        FAULT.tick('unlink', os.path.basename(os.path.dirname(path)))
        return os.unlink(path, *a, **kw)


class FakeSubproc:
    """`subproc` as seen by treadmill.iptables: interprets `ipset ...` on the
    host's sets, records everything else (conntrack, iptables)."""
    CalledProcessError = CalledProcessError

    def __init__(self):
        self.host = None

    def _fail(self, cmd, use_except, rc=1):
        if use_except:
            raise CalledProcessError(rc, cmd)
        return (rc, '')

    def invoke(self, cmd, cmd_input=None, use_except=True, **_kw):
        host = self.host
        host.calls.append(tuple(cmd[:3]))
        FAULT.tick('subproc', [c for c in cmd[:4] if c != '-exist'][:2])
        if cmd[0] != 'ipset':
            return (0, '')
        args = list(cmd[1:])
        exist = False
        if args and args[0] == '-exist':
            exist = True
            args = args[1:]
        sets = host.ipsets
        verb = args[0]
        if verb == 'create':
            if args[1] in sets and not exist:
                return self._fail(cmd, use_except)
            sets.setdefault(args[1], set())
        elif verb == 'add':
            if args[1] not in sets:
                return self._fail(cmd, use_except)
            if args[2] in sets[args[1]] and not exist:
                return self._fail(cmd, use_except)
            sets[args[1]].add(args[2])
        elif verb == 'del':
            if args[1] not in sets:
                return self._fail(cmd, use_except)
            if args[2] not in sets[args[1]] and not exist:
                return self._fail(cmd, use_except)
            sets[args[1]].discard(args[2])
        elif verb == 'test':
            if args[2] not in sets.get(args[1], ()):
                return self._fail(cmd, use_except)
        elif verb == 'flush':
            sets[args[1]].clear()
        elif verb == 'destroy':
            sets.pop(args[1], None)
        elif verb == 'swap':
            sets[args[1]], sets[args[2]] = sets[args[2]], sets[args[1]]
        elif verb == 'restore':
            for line in (cmd_input or '').splitlines():
                w = line.split()
                if w and w[0] == 'add':
                    sets[w[1]].add(w[2])
        elif verb == 'list':
            return (0, '\n'.join(sorted(sets)))
        else:
            raise AssertionError('ipset verb not modelled: %r' % (cmd,))
        return (0, '')

    def check_call(self, cmd, **_kw):
        self.host.calls.append(tuple(cmd[:2]))
        FAULT.tick('subproc', cmd[:2])
        return 0

    def check_output(self, cmd, **_kw):
        self.host.calls.append(tuple(cmd[:2]))
        return ''


SUBPROC = FakeSubproc()

HOSTS = {'h1': '10.1.1.1', 'h2': '10.1.1.1', 'h3': '10.1.1.3'}


class FakeResolver:
    """`socket` as seen by _run / _finish (only gethostbyname is used)."""
    @staticmethod
    def gethostbyname(host):
        return HOSTS.get(host, host)


class SocketError(OSError):
    pass


class FakeSocketModule:
    """`socket` as seen by treadmill.runtime, with the Linux bind semantics
    the allocator relies on:

    * bind() to a (type, port) held by another live socket fails with
      EADDRINUSE, EXCEPT for udp when this socket and every socket already
      bound there had SO_REUSEADDR set *before* their bind (then the kernel
      lets them share the port);
    * tcp keeps EADDRINUSE in that case too: the other container's socket is
      listening;
    * setsockopt(SOL_SOCKET, SO_REUSEADDR, 1) after bind has no effect on who
      may bind.
    Ports bound by somebody else on the host (pre-bound) never carry the
    option."""
    AF_INET = 2
    SOCK_STREAM = 1
    SOCK_DGRAM = 2
    SOL_SOCKET = 1
    SO_REUSEADDR = 2
    error = SocketError

    def __init__(self):
        self.host = None
        mod = self

        class Sock:
            def __init__(self, _family, kind):
                self.kind = kind
                self.addr = None
                self.closed = False
                self.reuseaddr = False        # option value right now
                self.reuse_at_bind = False    # ... at the moment of bind()

            def bind(self, addr):
                host = mod.host
                key = (self.kind, addr[1])
                holders = host.holders.get(key, [])
                if holders:
                    share = (self.kind == mod.SOCK_DGRAM and self.reuseaddr
                             and all(h is not None and h.reuse_at_bind
                                     for h in holders))
                    if not share:
                        raise SocketError(errno.EADDRINUSE, 'in use')
                    host.shared_binds += 1
                host.holders.setdefault(key, []).append(self)
                host.bound.add(key)
                host.binds += 1
                self.addr = addr
                self.reuse_at_bind = self.reuseaddr

            def setsockopt(self, level, opt, value):
                if level == mod.SOL_SOCKET and opt == mod.SO_REUSEADDR:
                    self.reuseaddr = bool(value)
                    if self.addr is None:
                        mod.host.reuse_before_bind += 1

            def listen(self, _n):
                pass

            def set_inheritable(self, _v):
                pass

            def getsockname(self):
                return self.addr

            def close(self):
                if self.addr is not None and not self.closed:
                    key = (self.kind, self.addr[1])
                    holders = mod.host.holders.get(key, [])
                    if self in holders:
                        holders.remove(self)
                    if not holders:
                        mod.host.holders.pop(key, None)
                        mod.host.bound.discard(key)
                self.closed = True

        self.socket = Sock


SOCKET = FakeSocketModule()

PORT_ORDERS = ('identity', 'reversed', 'rotated')


class FakeRandom:
    """`random` as seen by treadmill.runtime: sample() returns the pool in one
    of three enumerated orders (never sampled)."""

    def __init__(self):
        self.order = 'identity'

    def sample(self, pool, n):
        pool = list(pool)
        assert n == len(pool)
        if self.order == 'identity':
            return pool
        if self.order == 'reversed':
            return pool[::-1]
        if self.order == 'rotated':
            k = len(pool) // 2 + 1
            return pool[k:] + pool[:k]
        raise AssertionError(self.order)


RANDOM = FakeRandom()


class NewnetRecorder:
    def __init__(self):
        self.host = None

    def create_newnet(self, veth, vip, gateway, service_ip=None):
        self.host.newnet.append((veth, vip, gateway, service_ip))


NEWNET = NewnetRecorder()


class _CachedCollections:
    """`collections` as seen by treadmill.utils: namedtuple classes are
    cached per (name, fields).  utils.to_obj builds a fresh class per dict
    (an eval each); the cached class is indistinguishable and 40% of the
    per-case cost goes away."""
    _cache = {}

    def __getattr__(self, name):
        return getattr(collections, name)

    def namedtuple(self, name, fields, **kw):
        key = (name, tuple(fields), tuple(sorted(kw.items())))
        cls = self._cache.get(key)
        if cls is None:
            cls = self._cache[key] = collections.namedtuple(
                name, list(fields), **kw)
        return cls


_PRIMED = []


def install():
    if not _PRIMED:
        # the first plugin_manager.load imports pkg_resources (slow, warns):
        # do it once, before the workers fork
        import warnings
        from treadmill import plugin_manager
        with warnings.catch_warnings():
            warnings.simplefilter('ignore')
            try:
                plugin_manager.load('treadmill.firewall.plugins', 'firewall')
            except Exception:  # pylint: disable=broad-except
                pass
        _PRIMED.append(True)
    utils.collections = _CachedCollections()
    iptables.subproc = SUBPROC
    rulefile.os = FaultOs()
    endpoints.os = FaultOs()
    runtime.socket = SOCKET
    runtime.random = RANDOM
    _run.socket = FakeResolver
    _finish.socket = FakeResolver
    _run.newnet = NEWNET


class NetworkClient:
    """Fake network service client: lowest free vip; get() of a resource that
    was deleted (or never put) returns None."""
    EXTERNAL_IP = '10.0.0.1'
    GATEWAY = '192.168.254.254'

    def __init__(self):
        self.alloc = {}

    def put(self, rsrc_id, _data):
        if rsrc_id in self.alloc:
            return
        used = {v['vip'] for v in self.alloc.values()}
        n = 2
        while '192.168.0.%d' % n in used:
            n += 1
        self.alloc[rsrc_id] = {
            'vip': '192.168.0.%d' % n, 'veth': 'veth%d.1' % n,
            'gateway': self.GATEWAY, 'external_ip': self.EXTERNAL_IP}

    def wait(self, rsrc_id, timeout=None):
        return self.get(rsrc_id)

    def get(self, rsrc_id):
        v = self.alloc.get(rsrc_id)
        return dict(v) if v else None

    def delete(self, rsrc_id):
        FAULT.tick('network-client', 'delete')
        self.alloc.pop(rsrc_id, None)


FOREIGN = 'proid.foreign-0000000099-000000000000f'


class Host:
    """The node: real rule / endpoint managers on temp dirs + fakes."""

    def __init__(self, port_order='identity', prebound=True, foreign=True):
        install()
        self.dir = fresh_dir()
        self.apps_dir = os.path.join(self.dir, 'apps')
        self.rules_dir = os.path.join(self.dir, 'rules')
        self.endpoints_dir = os.path.join(self.dir, 'endpoints')
        os.mkdir(self.apps_dir)
        os.mkdir(self.rules_dir)
        self.tm_env = types.SimpleNamespace(
            apps_dir=self.apps_dir,
            rules=rulefile.RuleMgr(self.rules_dir, self.apps_dir),
            endpoints=endpoints.EndpointsMgr(self.endpoints_dir))
        self.ipsets = {iptables.SET_VRING_CONTAINERS: set(),
                       iptables.SET_INFRA_SVC: set(),
                       iptables.SET_PASSTHROUGHS: set()}
        self.bound = set()
        self.binds = 0
        self.calls = []
        self.newnet = []
        self.net = NetworkClient()
        self.port_order = port_order
        self.sockets = {}
        if prebound:
            # somebody else already listens on the first port of either range
            for kind in (SOCKET.SOCK_STREAM, SOCKET.SOCK_DGRAM):
                self.bound.add((kind, runtime.PROD_PORT_LOW))
                self.bound.add((kind, runtime.NONPROD_PORT_LOW))
                self.bound.add((kind, runtime.PROD_PORT_HIGH))
                self.bound.add((kind, runtime.NONPROD_PORT_HIGH))
        self.prebound = set(self.bound)
        # who holds a (type, port): live fake sockets; None = a foreign
        # process that bound the port without SO_REUSEADDR
        self.holders = {key: [None] for key in self.bound}
        self.shared_binds = 0
        self.reuse_before_bind = 0
        if foreign:
            self._foreign()
        self.activate()

    def activate(self):
        SUBPROC.host = self
        SOCKET.host = self
        NEWNET.host = self
        RANDOM.order = self.port_order

    def _foreign(self):
        """Registrations of a container this check never starts/finishes."""
        from treadmill import firewall
        os.mkdir(os.path.join(self.apps_dir, FOREIGN))
        vip = '192.168.0.200'
        self.tm_env.rules.create_rule(
            chain=iptables.PREROUTING_DNAT,
            rule=firewall.DNATRule(proto='tcp', dst_ip='10.0.0.1',
                                   dst_port=40000, new_ip=vip, new_port=8000),
            owner=FOREIGN)
        self.tm_env.rules.create_rule(
            chain=iptables.POSTROUTING_SNAT,
            rule=firewall.SNATRule(proto='tcp', src_ip=vip, src_port=8000,
                                   new_ip='10.0.0.1', new_port=40000),
            owner=FOREIGN)
        self.tm_env.rules.create_rule(
            chain=iptables.PREROUTING_PASSTHROUGH,
            rule=firewall.PassThroughRule(src_ip='10.1.1.1', dst_ip=vip),
            owner=FOREIGN)
        self.tm_env.endpoints.create_spec(
            appname='proid.foreign#0000000099', endpoint='http', proto='tcp',
            real_port=40000, pid='1', port=8000,
            owner=os.path.join(self.apps_dir, FOREIGN))
        self.ipsets[iptables.SET_VRING_CONTAINERS].add(vip)
        self.ipsets[iptables.SET_INFRA_SVC].add('%s,tcp:8000' % vip)

    # -- observation --------------------------------------------------------
    def snapshot(self):
        """Frozen set of everything registered on the host."""
        out = set()
        for e in os.listdir(self.rules_dir):
            out.add(('rule', e, os.path.basename(
                os.readlink(os.path.join(self.rules_dir, e)))))
        for e in os.listdir(self.endpoints_dir):
            if e.startswith('.'):
                continue
            name = e.split('~')
            name[4] = 'PID'
            out.add(('spec', '~'.join(name), os.path.basename(
                os.readlink(os.path.join(self.endpoints_dir, e)))))
        for name, content in self.ipsets.items():
            for c in content:
                out.add(('ipset', name, c))
        return frozenset(out)

    # -- the two sides ------------------------------------------------------
    def paths(self, manifest):
        unique = appcfg.manifest_unique_name(manifest)
        cdir = os.path.join(self.apps_dir, unique)
        return unique, cdir, os.path.join(cdir, 'data')

    def start(self, manifest):
        """Returns the frozen app object (what _run keeps)."""
        self.activate()
        manifest = copy.deepcopy(manifest)
        unique, cdir, data_dir = self.paths(manifest)
        os.makedirs(data_dir, exist_ok=True)
        if not manifest['shared_network']:
            self.net.put(unique, {'environment': manifest['environment']})
            app_network = self.net.wait(unique)
        else:
            app_network = {'vip': NetworkClient.EXTERNAL_IP, 'veth': None,
                           'gateway': None,
                           'external_ip': NetworkClient.EXTERNAL_IP}
        manifest['network'] = app_network
        manifest['vip'] = {'ip0': app_network['gateway'],
                           'ip1': app_network['vip']}
        sockets = runtime.allocate_network_ports(
            app_network['external_ip'], manifest)
        self.sockets[unique] = sockets
        app = runtime.save_app(manifest, data_dir)
        if not app.shared_network:
            _run._unshare_network(self.tm_env, cdir, app)
        else:
            # _run closes the sockets of a shared-network container so that
            # its application can bind the ports itself: model the
            # application doing so right away (held until finish)
            held = []
            for s in sockets:
                kind, addr = s.kind, s.addr
                s.close()
                app_sock = SOCKET.socket(SOCKET.AF_INET, kind)
                app_sock.bind(addr)
                held.append(app_sock)
            self.sockets[unique] = held
        return app

    def finish(self, manifest):
        self.activate()
        unique, _cdir, data_dir = self.paths(manifest)
        app = runtime.load_app_safe(unique, data_dir)
        if app:
            if hasattr(app, 'shared_network') and not app.shared_network:
                FAULT.active = True
                try:
                    _finish._cleanup_network(self.tm_env, data_dir, app,
                                             self.net)
                finally:
                    FAULT.active = False
        # the container's supervisor is gone: its sockets are closed
        for s in self.sockets.pop(unique, ()):
            s.close()
        return app


def kind_of(item):
    """Path kind of a registration (for the violation site)."""
    if item[0] == 'rule':
        for k in ('dnat', 'snat', 'passthrough'):
            if ':%s:' % k in item[1]:
                return 'rules/' + k
        return 'rules/?'
    if item[0] == 'spec':
        return 'endpoints/spec'
    return 'ipset/' + item[1]


def port_range(environment):
    """Reference split, taken from the documented one (iptables.PROD_PORT_* /
    NONPROD_PORT_* and network_service._SET_BY_ENVIRONMENT): prod and uat are
    prod-like, dev and qa are not."""
    if environment in ('uat', 'prod'):
        return runtime.PROD_PORT_LOW, runtime.PROD_PORT_HIGH
    return runtime.NONPROD_PORT_LOW, runtime.NONPROD_PORT_HIGH


def check_ports(host, app, others=()):
    """Ports of a freshly started app: distinct per protocol, inside the
    environment's range, not taken by anyone else.  Returns [(clause, detail)].
    `others` = app objects of the containers running next to it."""
    out = []
    lo, hi = port_range(app.environment)
    plo, phi = port_range('prod')
    nlo, nhi = port_range('dev')
    if not (phi < nlo or nhi < plo):
        out.append(('prod-and-nonprod-port-ranges-overlap',
                    {'prod': [plo, phi], 'nonprod': [nlo, nhi]}))
    for proto, kind in (('tcp', SOCKET.SOCK_STREAM),
                        ('udp', SOCKET.SOCK_DGRAM)):
        mine = [e.real_port for e in app.endpoints if e.proto == proto]
        mine += list(getattr(app.ephemeral_ports, proto))
        if len(set(mine)) != len(mine):
            out.append(('ports-not-distinct', {'proto': proto,
                                               'ports': mine}))
        bad = [p for p in mine if not lo <= p <= hi]
        if bad:
            out.append(('port-outside-environment-range',
                        {'proto': proto, 'ports': bad, 'range': [lo, hi],
                         'environment': app.environment}))
        taken = {p for (k, p) in host.prebound if k == kind}
        for o in others:
            taken |= {e.real_port for e in o.endpoints if e.proto == proto}
            taken |= set(getattr(o.ephemeral_ports, proto))
        clash = sorted(set(mine) & taken)
        if clash:
            out.append(('port-already-taken-on-host',
                        {'proto': proto, 'ports': clash}))
    return out


# ---------------------------------------------------------------------------
# manifests

def manifest(name='proid.app#0000000001', uniqueid='000000000000a',
             endpoints_=(), eph=(0, 0), passthrough=(), vring=False,
             shared_network=False, shared_ip=False, environment='dev'):
    """What appcfg.manifest.load hands to the runtime (network fields)."""
    return {
        'name': name,
        'app': name.split('#')[0],
        'task': name.split('#')[1],
        'uniqueid': uniqueid,
        'proid': 'proid',
        'environment': environment,
        'endpoints': [
            {'name': n, 'port': p, 'type': t, 'proto': pr}
            for (n, pr, p, t) in endpoints_],
        'ephemeral_ports': {'tcp': eph[0], 'udp': eph[1]},
        'passthrough': list(passthrough),
        'vring': ({'cells': ['cell1'], 'rules': []} if vring else {}),
        'shared_network': shared_network,
        'shared_ip': shared_ip,
    }
