"""C17 - sequential, bounded-exhaustive sub-checks on the fake ZooKeeper.

1. `presence.EndpointPresence` from two hosts (two sessions) for one instance:
   every sequence (up to a length) over
       {register,unregister}_{running,endpoints,identity} x {host X, host Y}
   is run against the real class; after every call the whole tree is compared
   with a three-line reference model (register creates the node naming the
   caller iff the path is free; unregister removes the node iff it names the
   caller) and the fake's log of mutating calls is checked: register only
   creates (ephemeral, own session, never set/delete), unregister deletes only
   nodes whose data named the calling host.
2. `trace.app.zk._unschedule` (direct and through `publish`) for every
   combination of {scheduled node present, placement on this host present,
   placement on another host present, a second instance present}: the
   scheduled node is deleted iff the placement of THIS host exists; nothing
   else is deleted.

The get-then-delete window inside these functions is not explored (DESIGN C17
"X": inherent to ZooKeeper without transactions, not part of the statement).
"""
import itertools
import json
import logging
import os

os.environ.setdefault('TREADMILL_HOSTNAME', 'harness-unset')

from mc import fakezk                              # noqa: E402
from treadmill import exc                          # noqa: E402
from treadmill import presence                     # noqa: E402
from treadmill import zknamespace as z             # noqa: E402
from treadmill.trace.app import zk as tracezk      # noqa: E402

logging.disable(logging.CRITICAL)

APP = 'foo.bar#0000000001'
OTHER = 'foo.bar#0000000002'
# one name is a proper string prefix of the other (node1 / node10): an
# ownership test by prefix / substring instead of equality must show up
HOSTS = ('node1', 'node10')
KINDS = ('running', 'endpoints', 'identity')
OPS = [(v, k, h) for h in (0, 1) for v in ('register', 'unregister')
       for k in KINDS]


class _NoSleep:
    """`time` as seen by treadmill.presence: the 13 x 5 s retry loop of
    _create_ephemeral_with_retry runs without waiting."""
    slept = 0

    @classmethod
    def sleep(cls, _secs):
        cls.slept += 1

    def __getattr__(self, name):
        import time
        return getattr(time, name)


presence.time = _NoSleep()

PATHS = {
    'running': z.path.running(APP),
    'endpoints': z.path.endpoint(APP, 'tcp', 'http'),
    'identity': z.path.identity_group('g', '1'),
}


def manifest(h):
    return {'name': APP,
            'endpoints': [{'name': 'http', 'port': 80, 'proto': 'tcp',
                           'real_port': 5000 + 1000 * h}],
            'identity_group': 'g', 'identity': 1}


def payload(kind, h):
    host = HOSTS[h]
    if kind == 'running':
        return host.encode()
    if kind == 'endpoints':
        return ('%s:%d' % (host, 5000 + 1000 * h)).encode()
    return json.dumps({'host': host, 'app': APP}, sort_keys=True).encode()


def names_host(kind, data):
    if kind == 'running':
        return data.decode()
    if kind == 'endpoints':
        return data.decode().split(':')[0]
    return json.loads(data.decode())['host']


KIND_OF = {p: k for k, p in PATHS.items()}


def run_sequence(seq):
    """-> (violations, nontrivial?) for one sequence of OPS indices."""
    tree = fakezk.Tree()
    admin = tree.client(9)
    for p in ('/running', '/endpoints/foo', '/identity-groups/g'):
        admin.ensure_path(p)
    clients = [tree.client(1), tree.client(2)]
    eps = [presence.EndpointPresence(clients[h], manifest(h),
                                     hostname=HOSTS[h], appname=APP)
           for h in (0, 1)]
    model = {}          # path -> host index
    viol = []
    contested = False
    for step, idx in enumerate(seq):
        verb, kind, h = OPS[idx]
        path = PATHS[kind]
        before = tree.dump('/', with_stat=True)
        mark = len(tree.log)
        err = None
        try:
            getattr(eps[h], '%s_%s' % (verb, kind))()
        except exc.ContainerSetupError as e:
            err = 'ContainerSetupError'
            if verb != 'register':
                viol.append(('unexpected-error', verb, str(e)))
        # reference model
        if verb == 'register':
            if path not in model:
                model[path] = h
                want_err = False
            else:
                want_err = True        # the node is there (whoever owns it)
                if model[path] != h:
                    contested = True
            if want_err != (err is not None):
                viol.append(('register-outcome',
                             '%s_%s' % (verb, kind),
                             {'expected_error': want_err, 'got': err}))
        else:
            if path in model and model[path] == h:
                del model[path]
            elif path in model:
                contested = True
        # log monitor
        sid = clients[h].sid
        for by, op, lpath, _owner in tree.log[mark:]:
            site = 'EndpointPresence.%s_%s' % (verb, kind)
            if by != sid:
                viol.append(('foreign-actor', site, {'by': by}))
            if verb == 'register':
                if op != 'create':
                    viol.append(('register-modified-existing-node', site,
                                 {'op': op, 'path': lpath}))
                else:
                    node = tree.find(lpath)
                    if node is None or node.owner != sid:
                        viol.append(('created-node-not-own-ephemeral', site,
                                     {'path': lpath}))
            else:
                if op != 'delete':
                    viol.append(('unregister-wrote', site,
                                 {'op': op, 'path': lpath}))
                else:
                    data = before[lpath][0]
                    k = KIND_OF.get(lpath)
                    if k is None or names_host(k, data) != HOSTS[h]:
                        viol.append(('unregister-deleted-foreign-node', site,
                                     {'path': lpath, 'data': data,
                                      'caller': HOSTS[h]}))
        # whole-tree comparison with the model
        got = {p: d for p, (d, o) in tree.dump('/', with_stat=True).items()
               if o}
        want = {p: payload(KIND_OF[p], hh) for p, hh in model.items()}
        if got != want:
            viol.append(('tree-differs-from-model',
                         'EndpointPresence.%s_%s' % (verb, kind),
                         {'step': step, 'got': got, 'want': want}))
        if viol:
            break
    return viol, contested


def ep_chunks(max_len):
    """Chunk = (length, fixed leading ops) -> all sequences starting so."""
    out = []
    for n in range(1, max_len + 1):
        for first in range(len(OPS)):
            out.append(('ep', n, (first,)))
    return out


def _seq_label(seq):
    return ['%s_%s@%s' % (OPS[i][0], OPS[i][1], HOSTS[OPS[i][2]])
            for i in seq]


def ep_worker(chunk):
    _tag, n, pre = chunk
    pre = tuple(pre)
    res = {'cases': 0, 'nontrivial': 0, 'violations': [], 'samples': [],
           'counters': {}}
    seen = set()
    if len(pre) > n:
        return res
    for rest in itertools.product(range(len(OPS)), repeat=n - len(pre)):
        seq = pre + rest
        viol, contested = run_sequence(seq)
        res['cases'] += 1
        res['nontrivial'] += contested
        if contested and len(res['samples']) < 1:
            res['samples'].append({'endpoint_presence': _seq_label(seq)})
        for clause, site, detail in viol:
            if (clause, site) in seen:
                continue
            seen.add((clause, site))
            res['violations'].append(
                {'clause': clause, 'site': site,
                 'detail': {'sequence': _seq_label(seq), 'detail': detail},
                 'replay': {'kind': 'ep', 'seq': list(seq)}})
    res['counters']['ep_sequences'] = res['cases']
    res['counters']['ep_contested'] = res['nontrivial']
    return res


# ---------------------------------------------------------------------------
THIS = 'node1'
ELSE = 'node10'
VARIANTS = ('direct', 'finished', 'killed', 'aborted', 'running')


def run_unschedule(case):
    sched, here, elsewhere, second, variant = case
    tracezk._HOSTNAME = THIS          # pylint: disable=protected-access
    tree = fakezk.Tree()
    admin = tree.client(9)
    for p in ('/scheduled', '/placement/' + THIS, '/placement/' + ELSE,
              '/finished', '/trace'):
        admin.ensure_path(p)
    if sched:
        admin.create(z.path.scheduled(APP), b'{}')
    if here:
        admin.create(z.path.placement(THIS, APP), b'{}')
    if elsewhere:
        admin.create(z.path.placement(ELSE, APP), b'{}')
    if second:
        admin.create(z.path.scheduled(OTHER), b'{}')
        admin.create(z.path.placement(THIS, OTHER), b'{}')
    client = tree.client(1)
    mark = len(tree.log)
    if variant == 'direct':
        tracezk._unschedule(client, APP)   # pylint: disable=protected-access
    else:
        tracezk.publish(client, '1000.0', APP, variant, 'data', b'')
    terminal = variant != 'running'
    deleted = [p for by, op, p, _o in tree.log[mark:] if op == 'delete']
    expect = [z.path.scheduled(APP)] if (here and sched and terminal) else []
    viol = []
    site = '_unschedule' if variant == 'direct' else 'publish'
    if not here and z.path.scheduled(APP) in deleted:
        viol.append(('unscheduled-without-own-placement', site,
                     {'deleted': deleted}))
    elif deleted != expect:
        viol.append(('unschedule-deleted-set-differs', site,
                     {'deleted': deleted, 'expected': expect}))
    if sched and (not here or not terminal) and \
            tree.find(z.path.scheduled(APP)) is None:
        viol.append(('scheduled-node-gone', site, {}))
    return viol, (sched and not here and terminal)


def unsched_cases():
    return [c for c in itertools.product((0, 1), (0, 1), (0, 1), (0, 1),
                                         VARIANTS)]


def unsched_worker(chunk):
    res = {'cases': 0, 'nontrivial': 0, 'violations': [], 'samples': [],
           'counters': {}}
    seen = set()
    for case in unsched_cases():
        viol, stale = run_unschedule(case)
        res['cases'] += 1
        res['nontrivial'] += bool(stale)
        if stale and not res['samples']:
            res['samples'].append({'unschedule': dict(zip(
                ('scheduled', 'placement_here', 'placement_elsewhere',
                 'second_instance', 'variant'), case))})
        for clause, site, detail in viol:
            if (clause, site) in seen:
                continue
            seen.add((clause, site))
            res['violations'].append(
                {'clause': clause, 'site': site,
                 'detail': {'case': list(case), 'detail': detail},
                 'replay': {'kind': 'unsched', 'case': list(case)}})
    res['counters']['unschedule_cases'] = res['cases']
    res['counters']['unschedule_stale_event_cases'] = res['nontrivial']
    return res


def worker(chunk):
    if chunk[0] == 'ep':
        return ep_worker(chunk)
    return unsched_worker(chunk)


def replay(data):
    if data['kind'] == 'ep':
        viol, _c = run_sequence(tuple(data['seq']))
    else:
        viol, _c = run_unschedule(tuple(data['case']))
    return [{'clause': c, 'site': s, 'detail': d, 'count': 1, 'replay': data}
            for c, s, d in viol]
